// Package smt is a small hash-consed term DAG with constant folding, a model
// evaluator and an SMT-LIB2 printer. One Ctx per worker; no locking.
package smt

import (
	"fmt"
	"math"
	"math/bits"
	"strings"
)

type SortKind uint8

const (
	SBool SortKind = iota
	SBV
	SFP // Float64 only (11,53)
)

type Sort struct {
	K SortKind
	W int // bit width for SBV
}

var (
	Bool = Sort{K: SBool}
	FP64 = Sort{K: SFP, W: 64}
)

func BV(w int) Sort { return Sort{K: SBV, W: w} }

func (s Sort) String() string {
	switch s.K {
	case SBool:
		return "Bool"
	case SBV:
		return fmt.Sprintf("(_ BitVec %d)", s.W)
	default:
		return "(_ FloatingPoint 11 53)"
	}
}

type Op uint8

const (
	OVar Op = iota
	OConst
	ONot
	OAnd
	OOr
	OIte
	OEq
	OBVAdd
	OBVSub
	OBVMul
	OBVSDiv
	OBVUDiv
	OBVSRem
	OBVURem
	OBVAnd
	OBVOr
	OBVXor
	OBVNot
	OBVNeg
	OBVShl
	OBVLShr
	OBVAShr
	OBVULT
	OBVULE
	OBVSLT
	OBVSLE
	OExtract // A=hi B=lo
	OZeroExt // A=n
	OSignExt // A=n
	OConcat
	OFPAdd
	OFPSub
	OFPMul
	OFPDiv
	OFPNeg
	OFPAbs
	OFPLT
	OFPLE
	OFPEQ // IEEE equality (NaN != NaN, +0 == -0)
	OFPIsNaN
	OFPIsInf
	OFPFromSBV // RNE
	OFPFromUBV // RNE
	OFPToSBV   // RTZ, A=width; unspecified outside range
	OFPFromBits
	OFPToBits // encoded through an auxiliary variable + side constraint
	OApp      // uninterpreted function Name(args)
)

var opNames = map[Op]string{
	ONot: "not", OAnd: "and", OOr: "or", OIte: "ite", OEq: "=",
	OBVAdd: "bvadd", OBVSub: "bvsub", OBVMul: "bvmul", OBVSDiv: "bvsdiv", OBVUDiv: "bvudiv",
	OBVSRem: "bvsrem", OBVURem: "bvurem", OBVAnd: "bvand", OBVOr: "bvor", OBVXor: "bvxor",
	OBVNot: "bvnot", OBVNeg: "bvneg", OBVShl: "bvshl", OBVLShr: "bvlshr", OBVAShr: "bvashr",
	OBVULT: "bvult", OBVULE: "bvule", OBVSLT: "bvslt", OBVSLE: "bvsle", OConcat: "concat",
	OFPAdd: "fp.add RNE", OFPSub: "fp.sub RNE", OFPMul: "fp.mul RNE", OFPDiv: "fp.div RNE",
	OFPNeg: "fp.neg", OFPAbs: "fp.abs", OFPLT: "fp.lt", OFPLE: "fp.leq", OFPEQ: "fp.eq",
	OFPIsNaN: "fp.isNaN", OFPIsInf: "fp.isInfinite",
	OFPFromSBV: "(_ to_fp 11 53) RNE", OFPFromUBV: "(_ to_fp_unsigned 11 53) RNE",
	OFPFromBits: "(_ to_fp 11 53)",
}

type Term struct {
	ID   int
	Op   Op
	Sort Sort
	Args []*Term
	Val  uint64 // OConst: BV value / bool (0,1) / FP bits
	A, B int    // op parameters
	Name string // OVar, OApp
	Aux  *Term  // OFPToBits: the auxiliary BV variable
}

func (t *Term) IsConst() bool { return t.Op == OConst }

// Ctx owns the hash-cons table.
type Ctx struct {
	tab   map[string]*Term
	terms []*Term
	Vars  []*Term // declaration order
	vars  map[string]*Term
	Funs  map[string]*FunDecl
	FunOrder []string
	auxN  int
	// Side constraints attached to auxiliary variables (OFPToBits); every
	// query that mentions the aux var must include them.
	Side map[int]*Term // aux var ID -> constraint
}

type FunDecl struct {
	Name string
	Args []Sort
	Ret  Sort
}

func NewCtx() *Ctx {
	return &Ctx{tab: map[string]*Term{}, vars: map[string]*Term{}, Funs: map[string]*FunDecl{}, Side: map[int]*Term{}}
}

func (c *Ctx) NumTerms() int { return len(c.terms) }

func (c *Ctx) mk(op Op, s Sort, args []*Term, val uint64, a, b int, name string) *Term {
	var sb strings.Builder
	fmt.Fprintf(&sb, "%d/%d.%d/%d/%d/%d/%s", op, s.K, s.W, val, a, b, name)
	for _, x := range args {
		fmt.Fprintf(&sb, ",%d", x.ID)
	}
	k := sb.String()
	if t, ok := c.tab[k]; ok {
		return t
	}
	t := &Term{ID: len(c.terms), Op: op, Sort: s, Args: args, Val: val, A: a, B: b, Name: name}
	c.terms = append(c.terms, t)
	c.tab[k] = t
	return t
}

func (c *Ctx) Var(name string, s Sort) *Term {
	if v, ok := c.vars[name]; ok {
		if v.Sort != s {
			panic("smt: variable redeclared with a different sort: " + name)
		}
		return v
	}
	if s.K == SFP {
		panic("smt: FP variables are declared as BV64 and reinterpreted")
	}
	v := c.mk(OVar, s, nil, 0, 0, 0, name)
	c.vars[name] = v
	c.Vars = append(c.Vars, v)
	return v
}

func mask(w int) uint64 {
	if w >= 64 {
		return ^uint64(0)
	}
	return (uint64(1) << uint(w)) - 1
}

func (c *Ctx) BVConst(v uint64, w int) *Term {
	return c.mk(OConst, BV(w), nil, v&mask(w), 0, 0, "")
}
func (c *Ctx) BoolConst(b bool) *Term {
	if b {
		return c.mk(OConst, Bool, nil, 1, 0, 0, "")
	}
	return c.mk(OConst, Bool, nil, 0, 0, 0, "")
}
func (c *Ctx) FPConst(f float64) *Term {
	return c.mk(OConst, FP64, nil, math.Float64bits(f), 0, 0, "")
}
func (c *Ctx) True() *Term  { return c.BoolConst(true) }
func (c *Ctx) False() *Term { return c.BoolConst(false) }

func sext(v uint64, w int) int64 {
	if w >= 64 {
		return int64(v)
	}
	sh := uint(64 - w)
	return int64(v<<sh) >> sh
}

// Not builds a negation.
func (c *Ctx) Not(x *Term) *Term {
	if x.IsConst() {
		return c.BoolConst(x.Val == 0)
	}
	if x.Op == ONot {
		return x.Args[0]
	}
	return c.mk(ONot, Bool, []*Term{x}, 0, 0, 0, "")
}

func (c *Ctx) And(xs ...*Term) *Term {
	var out []*Term
	seen := map[int]bool{}
	for _, x := range xs {
		if x.IsConst() {
			if x.Val == 0 {
				return c.False()
			}
			continue
		}
		if x.Op == OAnd {
			for _, y := range x.Args {
				if !seen[y.ID] {
					seen[y.ID] = true
					out = append(out, y)
				}
			}
			continue
		}
		if !seen[x.ID] {
			seen[x.ID] = true
			out = append(out, x)
		}
	}
	for _, x := range out {
		if x.Op == ONot && seen[x.Args[0].ID] {
			return c.False()
		}
	}
	switch len(out) {
	case 0:
		return c.True()
	case 1:
		return out[0]
	}
	return c.mk(OAnd, Bool, out, 0, 0, 0, "")
}

func (c *Ctx) Or(xs ...*Term) *Term {
	var out []*Term
	seen := map[int]bool{}
	for _, x := range xs {
		if x.IsConst() {
			if x.Val != 0 {
				return c.True()
			}
			continue
		}
		if x.Op == OOr {
			for _, y := range x.Args {
				if !seen[y.ID] {
					seen[y.ID] = true
					out = append(out, y)
				}
			}
			continue
		}
		if !seen[x.ID] {
			seen[x.ID] = true
			out = append(out, x)
		}
	}
	for _, x := range out {
		if x.Op == ONot && seen[x.Args[0].ID] {
			return c.True()
		}
	}
	switch len(out) {
	case 0:
		return c.False()
	case 1:
		return out[0]
	}
	return c.mk(OOr, Bool, out, 0, 0, 0, "")
}

func (c *Ctx) Ite(cond, a, b *Term) *Term {
	if cond.IsConst() {
		if cond.Val != 0 {
			return a
		}
		return b
	}
	if a == b {
		return a
	}
	if a.Sort.K == SBool && a.IsConst() && b.IsConst() {
		if a.Val != 0 {
			return cond
		}
		return c.Not(cond)
	}
	return c.mk(OIte, a.Sort, []*Term{cond, a, b}, 0, 0, 0, "")
}

// Eq is structural equality for Bool/BV and SMT "=" for FP (use FPEq for IEEE).
func (c *Ctx) Eq(a, b *Term) *Term {
	if a.Sort != b.Sort {
		panic(fmt.Sprintf("smt.Eq: sort mismatch %v vs %v", a.Sort, b.Sort))
	}
	if a == b {
		return c.True()
	}
	if a.IsConst() && b.IsConst() {
		if a.Sort.K == SFP {
			fa, fb := math.Float64frombits(a.Val), math.Float64frombits(b.Val)
			if fa != fa && fb != fb {
				return c.True()
			}
			return c.BoolConst(a.Val == b.Val)
		}
		return c.BoolConst(a.Val == b.Val)
	}
	if a.Sort.K == SBool {
		if a.IsConst() {
			a, b = b, a
		}
		if b.IsConst() {
			if b.Val != 0 {
				return a
			}
			return c.Not(a)
		}
	}
	if a.ID > b.ID {
		a, b = b, a
	}
	return c.mk(OEq, Bool, []*Term{a, b}, 0, 0, 0, "")
}

// Bin builds a binary BV operation (arith, logic, shift, comparison).
func (c *Ctx) Bin(op Op, a, b *Term) *Term {
	if a.Sort != b.Sort {
		panic(fmt.Sprintf("smt.Bin %s: sort mismatch %v vs %v", opNames[op], a.Sort, b.Sort))
	}
	rs := a.Sort
	switch op {
	case OBVULT, OBVULE, OBVSLT, OBVSLE, OFPLT, OFPLE, OFPEQ:
		rs = Bool
	}
	if a.IsConst() && b.IsConst() {
		if v, ok := foldBin(op, a.Sort, a.Val, b.Val); ok {
			return c.mk(OConst, rs, nil, v, 0, 0, "")
		}
	}
	if a.Sort.K == SBV {
		w := a.Sort.W
		zero := func(t *Term) bool { return t.IsConst() && t.Val == 0 }
		ones := func(t *Term) bool { return t.IsConst() && t.Val == mask(w) }
		switch op {
		case OBVAdd, OBVOr, OBVXor:
			if zero(a) {
				return b
			}
			if zero(b) {
				return a
			}
		case OBVSub, OBVShl, OBVLShr, OBVAShr:
			if zero(b) {
				return a
			}
		case OBVAnd:
			if zero(a) || zero(b) {
				return c.BVConst(0, w)
			}
			if ones(a) {
				return b
			}
			if ones(b) {
				return a
			}
		case OBVMul:
			if zero(a) || zero(b) {
				return c.BVConst(0, w)
			}
			if a.IsConst() && a.Val == 1 {
				return b
			}
			if b.IsConst() && b.Val == 1 {
				return a
			}
		}
		if op == OBVSub {
			// (x + c) - x = c ; (x + c1) - (x + c2) = c1 - c2
			if a.Op == OBVAdd {
				if a.Args[0] == b {
					return a.Args[1]
				}
				if a.Args[1] == b {
					return a.Args[0]
				}
				if b.Op == OBVAdd {
					for ai := 0; ai < 2; ai++ {
						for bi := 0; bi < 2; bi++ {
							if a.Args[ai] == b.Args[bi] && a.Args[1-ai].IsConst() && b.Args[1-bi].IsConst() {
								return c.BVConst(a.Args[1-ai].Val-b.Args[1-bi].Val, w)
							}
						}
					}
				}
			}
		}
		if a == b {
			switch op {
			case OBVULE, OBVSLE:
				return c.True()
			case OBVULT, OBVSLT:
				return c.False()
			case OBVSub, OBVXor:
				return c.BVConst(0, w)
			case OBVAnd, OBVOr:
				return a
			}
		}
	}
	return c.mk(op, rs, []*Term{a, b}, 0, 0, 0, "")
}

func foldBin(op Op, s Sort, x, y uint64) (uint64, bool) {
	b2u := func(b bool) uint64 {
		if b {
			return 1
		}
		return 0
	}
	if s.K == SFP {
		fx, fy := math.Float64frombits(x), math.Float64frombits(y)
		switch op {
		case OFPAdd:
			return math.Float64bits(fx + fy), true
		case OFPSub:
			return math.Float64bits(fx - fy), true
		case OFPMul:
			return math.Float64bits(fx * fy), true
		case OFPDiv:
			return math.Float64bits(fx / fy), true
		case OFPLT:
			return b2u(fx < fy), true
		case OFPLE:
			return b2u(fx <= fy), true
		case OFPEQ:
			return b2u(fx == fy), true
		}
		return 0, false
	}
	w := s.W
	m := mask(w)
	sx, sy := sext(x, w), sext(y, w)
	switch op {
	case OBVAdd:
		return (x + y) & m, true
	case OBVSub:
		return (x - y) & m, true
	case OBVMul:
		return (x * y) & m, true
	case OBVUDiv:
		if y == 0 {
			return m, true
		}
		return (x / y) & m, true
	case OBVURem:
		if y == 0 {
			return x, true
		}
		return (x % y) & m, true
	case OBVSDiv:
		if y == 0 {
			if sx >= 0 {
				return m, true
			}
			return 1, true
		}
		if sy == -1 {
			return uint64(-sx) & m, true
		}
		return uint64(sx/sy) & m, true
	case OBVSRem:
		if y == 0 {
			return x, true
		}
		if sy == -1 {
			return 0, true
		}
		return uint64(sx%sy) & m, true
	case OBVAnd:
		return x & y, true
	case OBVOr:
		return x | y, true
	case OBVXor:
		return x ^ y, true
	case OBVShl:
		if y >= uint64(w) {
			return 0, true
		}
		return (x << y) & m, true
	case OBVLShr:
		if y >= uint64(w) {
			return 0, true
		}
		return x >> y, true
	case OBVAShr:
		if y >= uint64(w) {
			if sx < 0 {
				return m, true
			}
			return 0, true
		}
		return uint64(sx>>y) & m, true
	case OBVULT:
		return b2u(x < y), true
	case OBVULE:
		return b2u(x <= y), true
	case OBVSLT:
		return b2u(sx < sy), true
	case OBVSLE:
		return b2u(sx <= sy), true
	}
	return 0, false
}

// Un builds a unary operation.
func (c *Ctx) Un(op Op, a *Term) *Term {
	rs := a.Sort
	switch op {
	case OFPIsNaN, OFPIsInf:
		rs = Bool
	case OFPFromSBV, OFPFromUBV, OFPFromBits:
		rs = FP64
	}
	if a.IsConst() {
		if v, ok := foldUn(op, a.Sort, a.Val); ok {
			return c.mk(OConst, rs, nil, v, 0, 0, "")
		}
	}
	if op == OBVNot && a.Op == OBVNot {
		return a.Args[0]
	}
	if op == OBVNeg && a.Op == OBVNeg {
		return a.Args[0]
	}
	if op == OFPFromBits && a.Op == OFPToBits {
		// bits(x) reinterpreted: NaN payload is lost, which FP theory ignores.
		return a.Args[0]
	}
	return c.mk(op, rs, []*Term{a}, 0, 0, 0, "")
}

func foldUn(op Op, s Sort, x uint64) (uint64, bool) {
	b2u := func(b bool) uint64 {
		if b {
			return 1
		}
		return 0
	}
	switch op {
	case OBVNot:
		return ^x & mask(s.W), true
	case OBVNeg:
		return (-x) & mask(s.W), true
	case OFPNeg:
		return x ^ (1 << 63), true
	case OFPAbs:
		return x &^ (1 << 63), true
	case OFPIsNaN:
		f := math.Float64frombits(x)
		return b2u(f != f), true
	case OFPIsInf:
		return b2u(math.IsInf(math.Float64frombits(x), 0)), true
	case OFPFromSBV:
		return math.Float64bits(float64(sext(x, s.W))), true
	case OFPFromUBV:
		return math.Float64bits(float64(x)), true
	case OFPFromBits:
		return x, true
	}
	return 0, false
}

func (c *Ctx) Extract(hi, lo int, a *Term) *Term {
	w := hi - lo + 1
	if lo == 0 && w == a.Sort.W {
		return a
	}
	if a.IsConst() {
		return c.BVConst(a.Val>>uint(lo), w)
	}
	if (a.Op == OZeroExt || a.Op == OSignExt) && hi < a.Args[0].Sort.W {
		return c.Extract(hi, lo, a.Args[0])
	}
	if a.Op == OConcat {
		lw := a.Args[1].Sort.W
		if hi < lw {
			return c.Extract(hi, lo, a.Args[1])
		}
		if lo >= lw {
			return c.Extract(hi-lw, lo-lw, a.Args[0])
		}
	}
	return c.mk(OExtract, BV(w), []*Term{a}, 0, hi, lo, "")
}

func (c *Ctx) ZeroExt(n int, a *Term) *Term {
	if n == 0 {
		return a
	}
	if a.IsConst() {
		return c.BVConst(a.Val, a.Sort.W+n)
	}
	if a.Op == OZeroExt {
		return c.ZeroExt(n+a.A, a.Args[0])
	}
	return c.mk(OZeroExt, BV(a.Sort.W+n), []*Term{a}, 0, n, 0, "")
}

func (c *Ctx) SignExt(n int, a *Term) *Term {
	if n == 0 {
		return a
	}
	if a.IsConst() {
		return c.BVConst(uint64(sext(a.Val, a.Sort.W)), a.Sort.W+n)
	}
	if a.Op == OZeroExt {
		return c.ZeroExt(n+a.A, a.Args[0])
	}
	return c.mk(OSignExt, BV(a.Sort.W+n), []*Term{a}, 0, n, 0, "")
}

func (c *Ctx) Concat(hi, lo *Term) *Term {
	w := hi.Sort.W + lo.Sort.W
	if w > 64 {
		panic("smt.Concat: width > 64 unsupported")
	}
	if hi.IsConst() && lo.IsConst() {
		return c.BVConst(hi.Val<<uint(lo.Sort.W)|lo.Val, w)
	}
	if hi.IsConst() && hi.Val == 0 {
		return c.ZeroExt(hi.Sort.W, lo)
	}
	return c.mk(OConcat, BV(w), []*Term{hi, lo}, 0, 0, 0, "")
}

// FPToSBV converts with round-toward-zero; the result is unspecified (per
// SMT-LIB) when out of range, so callers guard it with a range test.
func (c *Ctx) FPToSBV(w int, a *Term) *Term {
	if a.IsConst() {
		f := math.Float64frombits(a.Val)
		if f == f && f > -9.3e18 && f < 9.2e18 && w == 64 {
			return c.BVConst(uint64(int64(f)), w)
		}
	}
	return c.mk(OFPToSBV, BV(w), []*Term{a}, 0, w, 0, "")
}

// FPToBits is math.Float64bits.
func (c *Ctx) FPToBits(a *Term) *Term {
	if a.IsConst() {
		return c.BVConst(a.Val, 64)
	}
	if a.Op == OFPFromBits {
		return a.Args[0]
	}
	t := c.mk(OFPToBits, BV(64), []*Term{a}, 0, 0, 0, "")
	if t.Aux == nil {
		c.auxN++
		aux := c.Var(fmt.Sprintf("aux!bits%d", c.auxN), BV(64))
		t.Aux = aux
		// aux reinterpreted equals a (NaN: any NaN pattern; we pin the canonical one)
		nan := c.Un(OFPIsNaN, a)
		c.Side[aux.ID] = c.And(
			c.Eq(c.Un(OFPFromBits, aux), a),
			c.Or(c.Not(nan), c.Eq(aux, c.BVConst(0x7ff8000000000001, 64))))
	}
	return t
}

func (c *Ctx) DeclareFun(name string, args []Sort, ret Sort) {
	if _, ok := c.Funs[name]; ok {
		return
	}
	c.Funs[name] = &FunDecl{Name: name, Args: args, Ret: ret}
	c.FunOrder = append(c.FunOrder, name)
}

func (c *Ctx) App(name string, ret Sort, args ...*Term) *Term {
	as := make([]Sort, len(args))
	for i, a := range args {
		as[i] = a.Sort
	}
	c.DeclareFun(name, as, ret)
	return c.mk(OApp, ret, args, 0, 0, 0, name)
}

// ---------------------------------------------------------------- evaluation

// Model maps variable names to values (BV value or bool 0/1).
type Model map[string]uint64

// Eval evaluates t under m. ok=false if the value is not determined by the
// evaluator (uninterpreted function, unspecified conversion).
func (c *Ctx) Eval(t *Term, m Model) (uint64, bool) {
	memo := map[int]uint64{}
	return c.eval(t, m, memo)
}

func (c *Ctx) eval(t *Term, m Model, memo map[int]uint64) (uint64, bool) {
	if v, ok := memo[t.ID]; ok {
		return v, true
	}
	var r uint64
	switch t.Op {
	case OConst:
		return t.Val, true
	case OVar:
		v, ok := m[t.Name]
		if !ok {
			m[t.Name] = 0
		}
		return v & mask64(t.Sort), true
	case OApp, OFPToSBV:
		if t.Op == OFPToSBV {
			x, ok := c.eval(t.Args[0], m, memo)
			if !ok {
				return 0, false
			}
			f := math.Float64frombits(x)
			if f != f || f <= -9.3e18 || f >= 9.2e18 || t.A != 64 {
				return 0, false
			}
			r = uint64(int64(f))
			break
		}
		return 0, false
	case OFPToBits:
		x, ok := c.eval(t.Args[0], m, memo)
		if !ok {
			return 0, false
		}
		f := math.Float64frombits(x)
		if f != f {
			x = 0x7ff8000000000001
		}
		m[t.Aux.Name] = x
		r = x
	case ONot:
		x, ok := c.eval(t.Args[0], m, memo)
		if !ok {
			return 0, false
		}
		r = 1 - x
	case OAnd:
		r = 1
		unk := false
		for _, a := range t.Args {
			x, ok := c.eval(a, m, memo)
			if !ok {
				unk = true
				continue
			}
			if x == 0 {
				r = 0
				unk = false
				break
			}
		}
		if unk {
			return 0, false
		}
	case OOr:
		r = 0
		unk := false
		for _, a := range t.Args {
			x, ok := c.eval(a, m, memo)
			if !ok {
				unk = true
				continue
			}
			if x != 0 {
				r = 1
				unk = false
				break
			}
		}
		if unk {
			return 0, false
		}
	case OIte:
		cnd, ok := c.eval(t.Args[0], m, memo)
		if !ok {
			return 0, false
		}
		if cnd != 0 {
			return c.eval(t.Args[1], m, memo)
		}
		return c.eval(t.Args[2], m, memo)
	case OEq:
		x, ok1 := c.eval(t.Args[0], m, memo)
		y, ok2 := c.eval(t.Args[1], m, memo)
		if !ok1 || !ok2 {
			return 0, false
		}
		if t.Args[0].Sort.K == SFP {
			fx, fy := math.Float64frombits(x), math.Float64frombits(y)
			if fx != fx && fy != fy {
				r = 1
			} else if x == y {
				r = 1
			}
		} else if x == y {
			r = 1
		}
	case OExtract:
		x, ok := c.eval(t.Args[0], m, memo)
		if !ok {
			return 0, false
		}
		r = (x >> uint(t.B)) & mask(t.A-t.B+1)
	case OZeroExt:
		x, ok := c.eval(t.Args[0], m, memo)
		if !ok {
			return 0, false
		}
		r = x
	case OSignExt:
		x, ok := c.eval(t.Args[0], m, memo)
		if !ok {
			return 0, false
		}
		r = uint64(sext(x, t.Args[0].Sort.W)) & mask(t.Sort.W)
	case OConcat:
		x, ok1 := c.eval(t.Args[0], m, memo)
		y, ok2 := c.eval(t.Args[1], m, memo)
		if !ok1 || !ok2 {
			return 0, false
		}
		r = x<<uint(t.Args[1].Sort.W) | y
	default:
		if len(t.Args) == 1 {
			x, ok := c.eval(t.Args[0], m, memo)
			if !ok {
				return 0, false
			}
			v, ok := foldUn(t.Op, t.Args[0].Sort, x)
			if !ok {
				return 0, false
			}
			r = v
		} else if len(t.Args) == 2 {
			x, ok1 := c.eval(t.Args[0], m, memo)
			y, ok2 := c.eval(t.Args[1], m, memo)
			if !ok1 || !ok2 {
				return 0, false
			}
			v, ok := foldBin(t.Op, t.Args[0].Sort, x, y)
			if !ok {
				return 0, false
			}
			r = v
		} else {
			return 0, false
		}
	}
	memo[t.ID] = r
	return r, true
}

func mask64(s Sort) uint64 {
	switch s.K {
	case SBool:
		return 1
	case SBV:
		return mask(s.W)
	}
	return ^uint64(0)
}

// ---------------------------------------------------------------- printing

func constStr(t *Term) string {
	switch t.Sort.K {
	case SBool:
		if t.Val != 0 {
			return "true"
		}
		return "false"
	case SBV:
		if t.Sort.W%4 == 0 {
			return fmt.Sprintf("#x%0*x", t.Sort.W/4, t.Val)
		}
		return fmt.Sprintf("#b%0*b", t.Sort.W, t.Val)
	default:
		return fmt.Sprintf("((_ to_fp 11 53) #x%016x)", t.Val)
	}
}

// Head returns the SMT-LIB text of t with its arguments referred to by ref().
func (t *Term) Head(ref func(*Term) string) string {
	switch t.Op {
	case OConst:
		return constStr(t)
	case OVar:
		return t.Name
	case OFPToBits:
		return t.Aux.Name
	}
	var sb strings.Builder
	sb.WriteByte('(')
	switch t.Op {
	case OExtract:
		fmt.Fprintf(&sb, "(_ extract %d %d)", t.A, t.B)
	case OZeroExt:
		fmt.Fprintf(&sb, "(_ zero_extend %d)", t.A)
	case OSignExt:
		fmt.Fprintf(&sb, "(_ sign_extend %d)", t.A)
	case OFPToSBV:
		fmt.Fprintf(&sb, "(_ fp.to_sbv %d) RTZ", t.A)
	case OApp:
		sb.WriteString(t.Name)
	default:
		sb.WriteString(opNames[t.Op])
	}
	for _, a := range t.Args {
		sb.WriteByte(' ')
		sb.WriteString(ref(a))
	}
	sb.WriteByte(')')
	return sb.String()
}

// String prints the term as a tree (debugging / evidence samples); capped.
func (t *Term) String() string {
	n := 0
	var ref func(x *Term) string
	ref = func(x *Term) string {
		n++
		if n > 200 {
			return "…"
		}
		return x.Head(ref)
	}
	return ref(t)
}

// VarsOf collects the variables (and aux variables) reachable from t.
func VarsOf(t *Term, seen map[int]bool, out *[]*Term) {
	if seen[t.ID] {
		return
	}
	seen[t.ID] = true
	if t.Op == OVar {
		*out = append(*out, t)
	}
	if t.Aux != nil {
		VarsOf(t.Aux, seen, out)
	}
	for _, a := range t.Args {
		VarsOf(a, seen, out)
	}
}

var _ = bits.Len
