package smt

import (
	"bufio"
	"fmt"
	"io"
	"os/exec"
	"strconv"
	"strings"
	"time"
)

type Result int

const (
	Unsat Result = iota
	Sat
	Unknown
)

func (r Result) String() string { return [...]string{"unsat", "sat", "unknown"}[r] }

type Stats struct {
	Queries  int
	Sat      int
	Unsat    int
	Unknown  int
	Errors   int
	Seconds  float64
	Restarts int
}

// Solver is one long-lived solver process whose assertion stack mirrors a
// path condition prefix. Declarations and definitions are global.
type undo struct {
	kind byte // 'd' definition, 'v' variable, 'f' function
	id   int
	name string
}

type Solver struct {
	Kind    string // "z3", "z3-new", "cvc5"
	Timeout time.Duration
	ctx     *Ctx
	cmd     *exec.Cmd
	in      io.WriteCloser
	out     *bufio.Reader
	stack   []*Term
	defined map[int]bool
	declV   map[string]bool
	declF   map[string]bool
	sideOK  map[int]bool
	levels  [][]undo // symbols introduced at each assertion-stack depth
	depth   int
	St      Stats
	Log     io.Writer // optional transcript
	buf     strings.Builder
	LastError string
}

func NewSolver(ctx *Ctx, kind string, timeout time.Duration) (*Solver, error) {
	s := &Solver{Kind: kind, Timeout: timeout, ctx: ctx}
	if err := s.start(); err != nil {
		return nil, err
	}
	return s, nil
}

func (s *Solver) start() error {
	ms := int(s.Timeout / time.Millisecond)
	var cmd *exec.Cmd
	switch s.Kind {
	case "z3", "z3-new":
		cmd = exec.Command(s.Kind, "-in", fmt.Sprintf("-t:%d", ms))
	case "cvc5":
		cmd = exec.Command("cvc5", "--incremental", "--lang=smt2", "--produce-models", fmt.Sprintf("--tlimit-per=%d", ms), "--fp-exp")
	default:
		return fmt.Errorf("unknown solver %q", s.Kind)
	}
	in, err := cmd.StdinPipe()
	if err != nil {
		return err
	}
	out, err := cmd.StdoutPipe()
	if err != nil {
		return err
	}
	cmd.Stderr = cmd.Stdout
	if err := cmd.Start(); err != nil {
		return err
	}
	s.cmd, s.in, s.out = cmd, in, bufio.NewReaderSize(out, 1<<16)
	s.stack = nil
	s.defined = map[int]bool{}
	s.declV = map[string]bool{}
	s.declF = map[string]bool{}
	s.sideOK = map[int]bool{}
	s.levels = [][]undo{nil}
	s.depth = 0
	if s.Kind != "cvc5" {
		s.send("(set-option :produce-models true)\n")
	} else {
		s.send("(set-logic ALL)\n")
	}
	return nil
}

func (s *Solver) Close() {
	if s.cmd != nil {
		s.in.Close()
		s.cmd.Process.Kill()
		s.cmd.Wait()
		s.cmd = nil
	}
}

func (s *Solver) restart() {
	s.Close()
	s.St.Restarts++
	if err := s.start(); err != nil {
		panic("smt: cannot restart solver: " + err.Error())
	}
}

func (s *Solver) send(txt string) {
	if s.Log != nil {
		io.WriteString(s.Log, txt)
	}
	if _, err := io.WriteString(s.in, txt); err != nil {
		panic("smt: solver pipe write failed: " + err.Error())
	}
}

func (s *Solver) readLine() string {
	line, err := s.out.ReadString('\n')
	if err != nil && line == "" {
		panic("smt: solver pipe closed: " + err.Error())
	}
	if s.Log != nil {
		io.WriteString(s.Log, "; <- "+line)
	}
	return strings.TrimSpace(line)
}

// ref returns the name by which t is referred to, emitting definitions for
// everything below it first.
func (s *Solver) ref(t *Term) string {
	switch t.Op {
	case OConst:
		return constStr(t)
	case OVar:
		s.declVar(t)
		return t.Name
	}
	if !s.defined[t.ID] {
		s.define(t)
	}
	return "t" + strconv.Itoa(t.ID)
}

func (s *Solver) declVar(t *Term) {
	if !s.declV[t.Name] {
		s.declV[t.Name] = true
		s.levels[s.depth] = append(s.levels[s.depth], undo{kind: 'v', name: t.Name})
		fmt.Fprintf(&s.buf, "(declare-const %s %s)\n", t.Name, t.Sort)
	}
}

func (s *Solver) define(t *Term) {
	// iterative post-order to keep Go stack shallow on long chains
	type item struct {
		t    *Term
		done bool
	}
	st := []item{{t, false}}
	for len(st) > 0 {
		it := st[len(st)-1]
		st = st[:len(st)-1]
		x := it.t
		if x.Op == OConst || s.defined[x.ID] {
			continue
		}
		if x.Op == OVar {
			s.declVar(x)
			continue
		}
		if !it.done {
			st = append(st, item{x, true})
			for _, a := range x.Args {
				st = append(st, item{a, false})
			}
			if x.Aux != nil {
				st = append(st, item{x.Aux, false})
			}
			continue
		}
		if x.Op == OApp && !s.declF[x.Name] {
			s.declF[x.Name] = true
			s.levels[s.depth] = append(s.levels[s.depth], undo{kind: 'f', name: x.Name})
			d := s.ctx.Funs[x.Name]
			as := make([]string, len(d.Args))
			for i, a := range d.Args {
				as[i] = a.String()
			}
			fmt.Fprintf(&s.buf, "(declare-fun %s (%s) %s)\n", d.Name, strings.Join(as, " "), d.Ret)
		}
		s.defined[x.ID] = true
		s.levels[s.depth] = append(s.levels[s.depth], undo{kind: 'd', id: x.ID})
		fmt.Fprintf(&s.buf, "(define-fun t%d () %s %s)\n", x.ID, x.Sort, x.Head(func(a *Term) string {
			switch a.Op {
			case OConst:
				return constStr(a)
			case OVar:
				return a.Name
			}
			return "t" + strconv.Itoa(a.ID)
		}))
	}
}

// Check decides satisfiability of (and pc...) ∧ extra. When the answer is sat
// and wantModel is set, the model of all declared variables is returned.
func (s *Solver) Check(pc []*Term, extra *Term, wantModel bool) (Result, Model) {
	start := time.Now()
	defer func() { s.St.Seconds += time.Since(start).Seconds() }()
	s.St.Queries++

	s.buf.Reset()
	// auxiliary-variable side constraints live at level 0
	need := false
	seen := map[int]bool{}
	var vs []*Term
	for _, t := range pc {
		VarsOf(t, seen, &vs)
	}
	if extra != nil {
		VarsOf(extra, seen, &vs)
	}
	for _, v := range vs {
		if _, ok := s.ctx.Side[v.ID]; ok && !s.sideOK[v.ID] {
			need = true
		}
	}
	if need {
		s.popTo(0)
		for _, v := range vs {
			if c, ok := s.ctx.Side[v.ID]; ok && !s.sideOK[v.ID] {
				s.sideOK[v.ID] = true
				r := s.ref(c)
				fmt.Fprintf(&s.buf, "(assert %s)\n", r)
			}
		}
	}
	common := 0
	for common < len(s.stack) && common < len(pc) && s.stack[common] == pc[common] {
		common++
	}
	s.popTo(common)
	for _, t := range pc[common:] {
		r := s.ref(t)
		s.push()
		fmt.Fprintf(&s.buf, "(assert %s)\n", r)
		s.stack = append(s.stack, t)
	}
	if extra != nil {
		r := s.ref(extra)
		s.push()
		fmt.Fprintf(&s.buf, "(assert %s)\n", r)
	}
	s.buf.WriteString("(check-sat)\n")
	s.send(s.buf.String())

	res := Unknown
	for {
		line := s.readLine()
		if line == "sat" {
			res = Sat
			break
		}
		if line == "unsat" {
			res = Unsat
			break
		}
		if line == "unknown" || strings.HasPrefix(line, "timeout") {
			res = Unknown
			break
		}
		if strings.HasPrefix(line, "(error") {
			s.St.Errors++
			s.LastError = line
			// inconclusive; solver state may be inconsistent: restart
			s.restart()
			s.St.Unknown++
			return Unknown, nil
		}
		// ignore other chatter (e.g. "success")
	}
	if s.Log != nil {
		fmt.Fprintf(s.Log, "; time %.0f ms pc=%d\n", time.Since(start).Seconds()*1000, len(pc))
	}
	var model Model
	if res == Sat && wantModel {
		model = s.getModel()
	}
	if extra != nil {
		s.buf.Reset()
		s.popTo(len(s.stack))
		s.send(s.buf.String())
	}
	switch res {
	case Sat:
		s.St.Sat++
	case Unsat:
		s.St.Unsat++
	default:
		s.St.Unknown++
	}
	return res, model
}

func (s *Solver) getModel() Model {
	m := Model{}
	if len(s.declV) == 0 {
		return m
	}
	var names []string
	for _, v := range s.ctx.Vars {
		if s.declV[v.Name] {
			names = append(names, v.Name)
		}
	}
	s.send("(get-value (" + strings.Join(names, " ") + "))\n")
	// read a balanced s-expression
	var sb strings.Builder
	depth := 0
	started := false
	for {
		line, err := s.out.ReadString('\n')
		if err != nil && line == "" {
			panic("smt: solver pipe closed while reading model")
		}
		if strings.HasPrefix(strings.TrimSpace(line), "(error") {
			s.St.Errors++
			return nil
		}
		for _, ch := range line {
			if ch == '(' {
				depth++
				started = true
			} else if ch == ')' {
				depth--
			}
		}
		sb.WriteString(line)
		if s.Log != nil {
			io.WriteString(s.Log, "; <= "+line)
		}
		if started && depth <= 0 {
			break
		}
	}
	toks := tokenize(sb.String())
	// pattern: ( ( name value ) ( name value ) ... ); cvc5 may print (_ bvN W)
	i := 0
	for i < len(toks) {
		if toks[i] == "(" && i+6 < len(toks) && toks[i+1] != "(" && toks[i+2] == "(" && toks[i+3] == "_" && strings.HasPrefix(toks[i+4], "bv") {
			if v, err := strconv.ParseUint(toks[i+4][2:], 10, 64); err == nil {
				m[toks[i+1]] = v
				i += 7
				continue
			}
		}
		if toks[i] == "(" && i+2 < len(toks) && toks[i+1] != "(" {
			name := toks[i+1]
			val := toks[i+2]
			if v, ok := parseVal(val); ok {
				m[name] = v
				i += 3
				continue
			}
		}
		i++
	}
	return m
}

func tokenize(s string) []string {
	var toks []string
	cur := strings.Builder{}
	flush := func() {
		if cur.Len() > 0 {
			toks = append(toks, cur.String())
			cur.Reset()
		}
	}
	for _, ch := range s {
		switch ch {
		case '(', ')':
			flush()
			toks = append(toks, string(ch))
		case ' ', '\n', '\t', '\r':
			flush()
		default:
			cur.WriteRune(ch)
		}
	}
	flush()
	return toks
}

func parseVal(v string) (uint64, bool) {
	switch {
	case v == "true":
		return 1, true
	case v == "false":
		return 0, true
	case strings.HasPrefix(v, "#x"):
		x, err := strconv.ParseUint(v[2:], 16, 64)
		return x, err == nil
	case strings.HasPrefix(v, "#b"):
		x, err := strconv.ParseUint(v[2:], 2, 64)
		return x, err == nil
	}
	return 0, false
}

func (s *Solver) push() {
	s.buf.WriteString("(push 1)\n")
	s.depth++
	if len(s.levels) <= s.depth {
		s.levels = append(s.levels, nil)
	}
	s.levels[s.depth] = s.levels[s.depth][:0]
}

// popTo pops the solver's assertion stack down to depth d, forgetting the
// symbols that were introduced above it.
func (s *Solver) popTo(d int) {
	if s.depth <= d {
		return
	}
	fmt.Fprintf(&s.buf, "(pop %d)\n", s.depth-d)
	for lv := s.depth; lv > d; lv-- {
		for _, u := range s.levels[lv] {
			switch u.kind {
			case 'd':
				delete(s.defined, u.id)
			case 'v':
				delete(s.declV, u.name)
			case 'f':
				delete(s.declF, u.name)
			}
		}
		s.levels[lv] = s.levels[lv][:0]
	}
	s.depth = d
	if len(s.stack) > d {
		s.stack = s.stack[:d]
	}
}
