// Copyright 2013 The Go Authors. All rights reserved.
// Use of this source code is governed by a BSD-style
// license that can be found in the LICENSE file.

package interp

// Intrinsics: functions the engine implements itself because they have no Go
// body (assembly), use unsafe/reflect, touch the outside world, or form the
// harness vocabulary (package vf).

import (
	"unicode"
	"fmt"
	"go/token"
	"go/types"
	"math"
	"strings"
	"sync"

	"golang.org/x/tools/go/ssa"

	"verif/engine/smt"
)

// externalFn returns (result, handled). handled=false falls through to the
// function's SSA body.
type externalFn func(fr *frame, args []value) (value, bool)

var externals = make(map[string]externalFn)

var interceptCache sync.Map // *ssa.Function -> externalFn (or nil)

func (e *Engine) intercept(fn *ssa.Function) externalFn {
	if h, ok := interceptCache.Load(fn); ok {
		if h == nil {
			return nil
		}
		return h.(externalFn)
	}
	name := fn.String()
	h, ok := externals[name]
	if !ok {
		// traps: any os/syscall/exec/net entry point is an external effect
		if fn.Pkg != nil {
			switch p := fn.Pkg.Pkg.Path(); {
			case p == "os" || p == "syscall" || p == "os/exec" || p == "io/ioutil" || p == "net" || p == "os/signal" || p == "io/fs":
				if fn.Name() != "init" && token.IsExported(fn.Name()) || strings.HasPrefix(name, "(*os.") {
					nm := name
					h = func(fr *frame, args []value) (value, bool) {
						panic(pathAbort{abExternal, "external effect attempted: " + nm})
					}
					ok = true
				}
			}
		}
	}
	if ok {
		interceptCache.Store(fn, h)
		return h
	}
	interceptCache.Store(fn, nil)
	return nil
}

func ret(v value) (value, bool) { return v, true }

func init() {
	for k, v := range map[string]externalFn{
		// ---- reflect emulation (from x/tools interp)
		"(reflect.Value).Bool":         wrapExt(ext۰reflect۰Value۰Bool),
		"(reflect.Value).CanAddr":      wrapExt(ext۰reflect۰Value۰CanAddr),
		"(reflect.Value).CanInterface": wrapExt(ext۰reflect۰Value۰CanInterface),
		"(reflect.Value).Elem":         wrapExt(ext۰reflect۰Value۰Elem),
		"(reflect.Value).Field":        wrapExt(ext۰reflect۰Value۰Field),
		"(reflect.Value).Float":        wrapExt(ext۰reflect۰Value۰Float),
		"(reflect.Value).Index":        wrapExt(ext۰reflect۰Value۰Index),
		"(reflect.Value).Int":          wrapExt(ext۰reflect۰Value۰Int),
		"(reflect.Value).Interface":    wrapExt(ext۰reflect۰Value۰Interface),
		"(reflect.Value).IsNil":        wrapExt(ext۰reflect۰Value۰IsNil),
		"(reflect.Value).IsValid":      wrapExt(ext۰reflect۰Value۰IsValid),
		"(reflect.Value).Kind":         wrapExt(ext۰reflect۰Value۰Kind),
		"(reflect.Value).Len":          wrapExt(ext۰reflect۰Value۰Len),
		"(reflect.Value).NumField":     wrapExt(ext۰reflect۰Value۰NumField),
		"(reflect.Value).NumMethod":    wrapExt(ext۰reflect۰Value۰NumMethod),
		"(reflect.Value).Pointer":      wrapExt(ext۰reflect۰Value۰Pointer),
		"(reflect.Value).String":       wrapExt(ext۰reflect۰Value۰String),
		"(reflect.Value).Type":         wrapExt(ext۰reflect۰Value۰Type),
		"(reflect.Value).Uint":         wrapExt(ext۰reflect۰Value۰Uint),
		"(reflect.error).Error":        wrapExt(ext۰reflect۰error۰Error),
		"(reflect.rtype).Bits":         wrapExt(ext۰reflect۰rtype۰Bits),
		"(reflect.rtype).Elem":         wrapExt(ext۰reflect۰rtype۰Elem),
		"(reflect.rtype).Field":        wrapExt(ext۰reflect۰rtype۰Field),
		"(reflect.rtype).In":           wrapExt(ext۰reflect۰rtype۰In),
		"(reflect.rtype).Kind":         wrapExt(ext۰reflect۰rtype۰Kind),
		"(reflect.rtype).NumField":     wrapExt(ext۰reflect۰rtype۰NumField),
		"(reflect.rtype).NumIn":        wrapExt(ext۰reflect۰rtype۰NumIn),
		"(reflect.rtype).NumMethod":    wrapExt(ext۰reflect۰rtype۰NumMethod),
		"(reflect.rtype).NumOut":       wrapExt(ext۰reflect۰rtype۰NumOut),
		"(reflect.rtype).Out":          wrapExt(ext۰reflect۰rtype۰Out),
		"(reflect.rtype).Size":         wrapExt(ext۰reflect۰rtype۰Size),
		"(reflect.rtype).String":       wrapExt(ext۰reflect۰rtype۰String),
		"(reflect.rtype).Name":         extRtypeName,
		"reflect.TypeOf":               wrapExt(ext۰reflect۰TypeOf),
		"reflect.ValueOf":              wrapExt(ext۰reflect۰ValueOf),
		"reflect.Zero":                 wrapExt(ext۰reflect۰Zero),

		// ---- math
		"math.Float64bits":     extFloat64bits,
		"math.Float64frombits": extFloat64frombits,
		"math.Float32bits":     func(fr *frame, a []value) (value, bool) { return math.Float32bits(a[0].(float32)), true },
		"math.Float32frombits": func(fr *frame, a []value) (value, bool) { return math.Float32frombits(a[0].(uint32)), true },
		"math.Abs":             extMathAbs,
		"math.IsNaN":           extMathIsNaN,
		"math.IsInf":           extMathIsInf,
		"math.NaN":             func(fr *frame, a []value) (value, bool) { return math.NaN(), true },
		"math.Inf":             func(fr *frame, a []value) (value, bool) { return math.Inf(a[0].(int)), true },

		// ---- sync
		"(*sync.Mutex).Lock":      extMutexLock,
		"(*sync.Mutex).Unlock":    extMutexUnlock,
		"(*sync.Mutex).TryLock":   extMutexTryLock,
		"(*sync.RWMutex).Lock":    extMutexLock,
		"(*sync.RWMutex).Unlock":  extMutexUnlock,
		"(*sync.RWMutex).RLock":   extRWMutexRLock,
		"(*sync.RWMutex).RUnlock": extRWMutexRUnlock,
		"(*sync.Once).Do":         extOnceDo,
		"(*sync.Pool).Get":        extPoolGet,
		"(*sync.Pool).Put":        extPoolPut,

		// ---- sync/atomic
		"sync/atomic.LoadInt64":             extAtomicLoad,
		"sync/atomic.LoadInt32":             extAtomicLoad,
		"sync/atomic.LoadUint32":            extAtomicLoad,
		"sync/atomic.LoadUint64":            extAtomicLoad,
		"sync/atomic.LoadPointer":           extAtomicLoad,
		"sync/atomic.StorePointer":          extAtomicStore,
		"sync/atomic.SwapPointer":           extAtomicSwap,
		"sync/atomic.CompareAndSwapPointer": extAtomicCAS,
		"sync/atomic.StoreInt64":            extAtomicStore,
		"sync/atomic.StoreInt32":            extAtomicStore,
		"sync/atomic.StoreUint32":           extAtomicStore,
		"sync/atomic.StoreUint64":           extAtomicStore,
		"sync/atomic.AddInt64":              extAtomicAdd,
		"sync/atomic.AddInt32":              extAtomicAdd,
		"sync/atomic.AddUint32":             extAtomicAdd,
		"sync/atomic.AddUint64":             extAtomicAdd,
		"sync/atomic.CompareAndSwapInt64":   extAtomicCAS,
		"sync/atomic.CompareAndSwapInt32":   extAtomicCAS,
		"sync/atomic.CompareAndSwapUint32":  extAtomicCAS,
		"sync/atomic.CompareAndSwapUint64":  extAtomicCAS,

		// ---- internal/bytealg and friends
		"internal/bytealg.IndexByte":       extIndexByte,
		"internal/bytealg.IndexByteString": extIndexByte,
		"internal/bytealg.Count":           extCountByte,
		"internal/bytealg.CountString":     extCountByte,
		"internal/bytealg.Equal":           extBytesEqual,
		"internal/bytealg.Compare":         extBytesCompare,
		"internal/bytealg.CompareString":   extBytesCompare,
		"internal/bytealg.MakeNoZero":      extMakeNoZero,
		"internal/bytealg.IndexString":     extIndexString,
		"internal/bytealg.Index":           extIndexString,
		"internal/stringslite.Index":       nil,
		"(*strings.Builder).String":        extBuilderString,
		"(*strings.Builder).copyCheck":     func(fr *frame, a []value) (value, bool) { return nil, true },
		"strings.Clone":                    func(fr *frame, a []value) (value, bool) { return a[0], true },
		"internal/stringslite.Clone":      func(fr *frame, a []value) (value, bool) { return a[0], true },
		"internal/abi.NoEscape":            func(fr *frame, a []value) (value, bool) { return a[0], true },
		"internal/abi.Escape":              func(fr *frame, a []value) (value, bool) { return a[0], true },
		"runtime.KeepAlive":                func(fr *frame, a []value) (value, bool) { return nil, true },
		"runtime.GC":                       func(fr *frame, a []value) (value, bool) { return nil, true },
		"runtime.Gosched":                  func(fr *frame, a []value) (value, bool) { fr.i.yield(); return nil, true },
		"runtime.SetFinalizer":             func(fr *frame, a []value) (value, bool) { return nil, true },
		"runtime.GOROOT":                   func(fr *frame, a []value) (value, bool) { return "/goroot", true },
		"runtime.Goexit":                   func(fr *frame, a []value) (value, bool) { panic(goexit{}) },
		"encoding/gob.Register":            func(fr *frame, a []value) (value, bool) { return nil, true },
		"encoding/gob.RegisterName":        func(fr *frame, a []value) (value, bool) { return nil, true },
		// encoding/gob is reflection driven and cannot be executed: the stream is
		// modelled by two harness closures (vf.SetGob): Encode hands the value to
		// the first, Decode hands the destination pointer to the second. The
		// code around them (Bytecode.Encode/Decode) is the real SSA.
		"encoding/gob.NewEncoder": func(fr *frame, a []value) (value, bool) {
			v := zero(deref(fr.fn.Signature.Results().At(0).Type()))
			return &v, true
		},
		"encoding/gob.NewDecoder": func(fr *frame, a []value) (value, bool) {
			v := zero(deref(fr.fn.Signature.Results().At(0).Type()))
			return &v, true
		},
		"(*encoding/gob.Encoder).Encode": func(fr *frame, a []value) (value, bool) {
			h := fr.i.hooks["gob.enc"]
			if h == nil {
				panic(unsupported("encoding/gob used without a harness model (vf.SetGob)"))
			}
			return call(fr.i, fr, token.NoPos, h, []value{a[1]}), true
		},
		"(*encoding/gob.Decoder).Decode": func(fr *frame, a []value) (value, bool) {
			h := fr.i.hooks["gob.dec"]
			if h == nil {
				panic(unsupported("encoding/gob used without a harness model (vf.SetGob)"))
			}
			return call(fr.i, fr, token.NoPos, h, []value{a[1]}), true
		},
		"internal/godebug.New":             func(fr *frame, a []value) (value, bool) { v := value(structure{"", (*value)(nil), nil}); return &v, true },
		"(*internal/godebug.Setting).Value": func(fr *frame, a []value) (value, bool) { return "", true },
		"(*internal/godebug.Setting).IncNonDefault": func(fr *frame, a []value) (value, bool) { return nil, true },

		// ---- errors / fmt
		"errors.Is":   extErrorsIs,
		"errors.As":   extErrorsAs,
		"fmt.Sprintf": extSprintf,
		"fmt.Errorf":  extErrorf,
		"fmt.Sprint":  extSprint,
		"fmt.Sprintln": extSprintln,
		"fmt.Println": func(fr *frame, a []value) (value, bool) { return tuple{0, iface{}}, true },
		"fmt.Printf":  func(fr *frame, a []value) (value, bool) { return tuple{0, iface{}}, true },
		"fmt.Print":   func(fr *frame, a []value) (value, bool) { return tuple{0, iface{}}, true },
		"fmt.Fprintf": extFprintf,
		"fmt.Fprint":  extFprint,
		"fmt.Fprintln": extFprint,

		// ---- time (clock is nondeterministic)
		"time.initLocal": func(fr *frame, a []value) (value, bool) { return nil, true },
		"time.Now":   extTimeNow,
		"time.now":   extTimeNowRaw,
		"time.Sleep": func(fr *frame, a []value) (value, bool) { fr.i.yield(); return nil, true },
		"time.runtimeNano": func(fr *frame, a []value) (value, bool) { return int64(0), true },
		// timers: the clock is nondeterministic, so a timer may fire at any
		// scheduling point: its channel is ready from the start (a select that
		// also has another ready case becomes a finite choice of the path)
		"time.NewTimer": func(fr *frame, a []value) (value, bool) {
			var v value = structure{extTimerChan(fr), false}
			return &v, true
		},
		"time.After": func(fr *frame, a []value) (value, bool) { return extTimerChan(fr), true },
		"(*time.Timer).Stop":  func(fr *frame, a []value) (value, bool) { return false, true },
		"(*time.Timer).Reset": func(fr *frame, a []value) (value, bool) { return false, true },
	} {
		if v != nil {
			externals[k] = v
		}
	}
	// unicode class predicates on a symbolic rune: exact range-table membership
	// (the host's unicode tables are the target's: same Go release), so a model
	// of the solver is a real letter/digit/... and replays natively
	for name, tabs := range unicodeClassTables {
		nm := "unicode." + name
		tabs := tabs
		extra := unicodeClassExtra[name]
		externals[nm] = func(fr *frame, a []value) (value, bool) {
			s, ok := a[0].(*sym)
			if !ok {
				return nil, false
			}
			return fr.i.mkval(types.Bool, unicodeClassTerm(fr.i.ctx, s.t, tabs, extra)), true
		}
	}
	for name, f := range map[string]func(float64) float64{
		"Sqrt": math.Sqrt, "Floor": math.Floor, "Ceil": math.Ceil, "Trunc": math.Trunc, "Exp": math.Exp,
		"Log": math.Log, "Log2": math.Log2, "Log10": math.Log10, "Sin": math.Sin, "Cos": math.Cos, "Tan": math.Tan,
		"Round": math.Round, "RoundToEven": math.RoundToEven, "Exp2": math.Exp2, "Cbrt": math.Cbrt,
		"Asin": math.Asin, "Acos": math.Acos, "Atan": math.Atan, "Sinh": math.Sinh, "Cosh": math.Cosh, "Tanh": math.Tanh,
		"Asinh": math.Asinh, "Acosh": math.Acosh, "Atanh": math.Atanh, "Erf": math.Erf, "Erfc": math.Erfc,
		"Expm1": math.Expm1, "Log1p": math.Log1p, "Logb": math.Logb, "Gamma": math.Gamma, "J0": math.J0, "J1": math.J1,
		"Y0": math.Y0, "Y1": math.Y1,
	} {
		f := f
		nm := "math." + name
		externals[nm] = func(fr *frame, a []value) (value, bool) {
			x, ok := a[0].(float64)
			if !ok {
				return fr.i.ufFloat(nm, a...), true
			}
			return f(x), true
		}
	}
	for name, f := range map[string]func(float64, float64) float64{
		"Pow": math.Pow, "Mod": math.Mod, "Atan2": math.Atan2, "Hypot": math.Hypot, "Max": math.Max, "Min": math.Min,
		"Dim": math.Dim, "Copysign": math.Copysign, "Remainder": math.Remainder, "Nextafter": math.Nextafter,
	} {
		f := f
		nm := "math." + name
		externals[nm] = func(fr *frame, a []value) (value, bool) {
			x, ok1 := a[0].(float64)
			y, ok2 := a[1].(float64)
			if !ok1 || !ok2 {
				return fr.i.ufFloat(nm, a...), true
			}
			return f(x, y), true
		}
	}
}

func wrapExt(f func(fr *frame, args []value) value) externalFn {
	return func(fr *frame, args []value) (value, bool) { return f(fr, args), true }
}

// ufFloat applies an uninterpreted float64 function to scalar arguments.
func (i *interpreter) ufFloat(name string, args ...value) value {
	ts := make([]*smt.Term, len(args))
	for j, a := range args {
		ts[j] = i.term(a)
	}
	uf := "uf_" + strings.NewReplacer(".", "_", "/", "_").Replace(name)
	return i.mkval(types.Float64, i.ctx.App(uf, smt.FP64, ts...))
}

func extRtypeName(fr *frame, args []value) (value, bool) {
	t := args[0].(rtype).t
	if n, ok := t.(*types.Named); ok {
		return n.Obj().Name(), true
	}
	if b, ok := t.(*types.Basic); ok {
		return b.Name(), true
	}
	return "", true
}

func extFloat64bits(fr *frame, args []value) (value, bool) {
	if s, ok := args[0].(*sym); ok {
		return fr.i.mkval(types.Uint64, fr.i.ctx.FPToBits(s.t)), true
	}
	return math.Float64bits(args[0].(float64)), true
}

func extFloat64frombits(fr *frame, args []value) (value, bool) {
	if s, ok := args[0].(*sym); ok {
		return fr.i.mkval(types.Float64, fr.i.ctx.Un(smt.OFPFromBits, s.t)), true
	}
	return math.Float64frombits(args[0].(uint64)), true
}

func extMathAbs(fr *frame, args []value) (value, bool) {
	if s, ok := args[0].(*sym); ok {
		return fr.i.mkval(types.Float64, fr.i.ctx.Un(smt.OFPAbs, s.t)), true
	}
	return math.Abs(args[0].(float64)), true
}

func extMathIsNaN(fr *frame, args []value) (value, bool) {
	if s, ok := args[0].(*sym); ok {
		return fr.i.mkval(types.Bool, fr.i.ctx.Un(smt.OFPIsNaN, s.t)), true
	}
	return math.IsNaN(args[0].(float64)), true
}

func extMathIsInf(fr *frame, args []value) (value, bool) {
	if _, ok := args[0].(*sym); ok {
		return nil, false // the Go body (comparisons against MaxFloat64) is fine symbolically
	}
	return math.IsInf(args[0].(float64), int(asInt64(args[1]))), true
}

// ---- sync

type lockState struct {
	w     int // writer held (0/1)
	r     int // readers
	owner int // goroutine id of the writer
}

func (i *interpreter) lockOf(p *value) *lockState {
	if i.locks == nil {
		i.locks = map[*value]*lockState{}
	}
	ls := i.locks[p]
	if ls == nil {
		ls = &lockState{}
		i.locks[p] = ls
	}
	return ls
}

func extMutexLock(fr *frame, args []value) (value, bool) {
	i := fr.i
	ls := i.lockOf(args[0].(*value))
	i.blockUntil(func() bool { return ls.w == 0 && ls.r == 0 }, "mutex Lock")
	ls.w = 1
	ls.owner = i.sched.cur.id
	i.lockEvent(args[0].(*value), "Lock")
	return nil, true
}

func extMutexUnlock(fr *frame, args []value) (value, bool) {
	i := fr.i
	ls := i.lockOf(args[0].(*value))
	if ls.w == 0 {
		panic(pathAbort{abFatal, "fatal error: sync: unlock of unlocked mutex"})
	}
	ls.w = 0
	i.lockEvent(args[0].(*value), "Unlock")
	return nil, true
}

func extMutexTryLock(fr *frame, args []value) (value, bool) {
	ls := fr.i.lockOf(args[0].(*value))
	if ls.w == 0 && ls.r == 0 {
		ls.w = 1
		return true, true
	}
	return false, true
}

func extRWMutexRLock(fr *frame, args []value) (value, bool) {
	i := fr.i
	ls := i.lockOf(args[0].(*value))
	i.blockUntil(func() bool { return ls.w == 0 }, "rwmutex RLock")
	ls.r++
	i.lockEvent(args[0].(*value), "RLock")
	return nil, true
}

func extRWMutexRUnlock(fr *frame, args []value) (value, bool) {
	i := fr.i
	ls := i.lockOf(args[0].(*value))
	if ls.r == 0 {
		panic(pathAbort{abFatal, "fatal error: sync: RUnlock of unlocked RWMutex"})
	}
	ls.r--
	i.lockEvent(args[0].(*value), "RUnlock")
	return nil, true
}

func extOnceDo(fr *frame, args []value) (value, bool) {
	i := fr.i
	p := args[0].(*value)
	if i.onceDone == nil {
		i.onceDone = map[*value]bool{}
	}
	if !i.onceDone[p] {
		i.onceDone[p] = true
		call(i, fr, token.NoPos, args[1], nil)
	}
	return nil, true
}

// sync.Pool: a per-path LIFO free list (what a single goroutine observes from
// Go's per-P private slot: Get returns the object Put last, else New()), so
// state that a recycled object carries over is visible to the exploration.
func extPoolPut(fr *frame, args []value) (value, bool) {
	i := fr.i
	p := args[0].(*value)
	if x, ok := args[1].(iface); ok && x.t == nil {
		return nil, true
	}
	if i.pools == nil {
		i.pools = map[*value][]value{}
	}
	i.pools[p] = append(i.pools[p], args[1])
	return nil, true
}

func extPoolGet(fr *frame, args []value) (value, bool) {
	if l := fr.i.pools[args[0].(*value)]; len(l) > 0 {
		x := l[len(l)-1]
		fr.i.pools[args[0].(*value)] = l[:len(l)-1]
		return x, true
	}
	// struct sync.Pool: field New is the last field
	st := (*args[0].(*value)).(structure)
	newf := st[len(st)-1]
	switch f := newf.(type) {
	case *ssa.Function:
		if f == nil {
			return iface{}, true
		}
	}
	return call(fr.i, fr, token.NoPos, newf, nil), true
}

// ---- atomics

func extAtomicLoad(fr *frame, args []value) (value, bool) {
	i := fr.i
	if h := i.hooks["poll"]; h != nil && !i.inHook {
		i.inHook = true
		i.pollCell = args[0].(*value)
		call(i, fr, token.NoPos, h, nil)
		i.inHook = false
	}
	fr.i.atomicPoint(args[0].(*value), false)
	return *args[0].(*value), true
}

func extAtomicStore(fr *frame, args []value) (value, bool) {
	fr.i.atomicPoint(args[0].(*value), true)
	*args[0].(*value) = args[1]
	return nil, true
}

func extAtomicSwap(fr *frame, args []value) (value, bool) {
	p := args[0].(*value)
	fr.i.atomicPoint(p, true)
	old := *p
	*p = args[1]
	return old, true
}

func extAtomicAdd(fr *frame, args []value) (value, bool) {
	p := args[0].(*value)
	fr.i.atomicPoint(p, true)
	*p = binop(fr.i, token.ADD, nil, *p, args[1])
	return *p, true
}

func extAtomicCAS(fr *frame, args []value) (value, bool) {
	p := args[0].(*value)
	fr.i.atomicPoint(p, true)
	if fr.i.truth(binop(fr.i, token.EQL, types.Typ[types.Int64], *p, args[1])) {
		*p = args[2]
		return true, true
	}
	return false, true
}

// ---- bytealg

func seqBytes(i *interpreter, v value) []value {
	switch s := v.(type) {
	case []value:
		return s
	default:
		return i.strBytes(v)
	}
}

func extIndexByte(fr *frame, args []value) (value, bool) {
	i := fr.i
	b := seqBytes(i, args[0])
	for j, e := range b {
		if i.truth(binop(i, token.EQL, types.Typ[types.Uint8], e, args[1])) {
			return j, true
		}
	}
	return -1, true
}

func extCountByte(fr *frame, args []value) (value, bool) {
	i := fr.i
	b := seqBytes(i, args[0])
	n := 0
	for _, e := range b {
		if i.truth(binop(i, token.EQL, types.Typ[types.Uint8], e, args[1])) {
			n++
		}
	}
	return n, true
}

func extBytesEqual(fr *frame, args []value) (value, bool) {
	i := fr.i
	return i.mkval(types.Bool, i.strEq(mkstr(seqBytes(i, args[0])), mkstr(seqBytes(i, args[1])))), true
}

func extBytesCompare(fr *frame, args []value) (value, bool) {
	i := fr.i
	a, b := mkstr(seqBytes(i, args[0])), mkstr(seqBytes(i, args[1]))
	if i.branch(i.strLess(a, b, false)) {
		return -1, true
	}
	if i.branch(i.strEq(a, b)) {
		return 0, true
	}
	return 1, true
}

func extMakeNoZero(fr *frame, args []value) (value, bool) {
	n := int(asInt64(fr.i.concreteInt(args[0], "MakeNoZero")))
	out := make([]value, n)
	for j := range out {
		out[j] = uint8(0)
	}
	return out, true
}

func extIndexString(fr *frame, args []value) (value, bool) {
	i := fr.i
	a, b := seqBytes(i, args[0]), seqBytes(i, args[1])
	for j := 0; j+len(b) <= len(a); j++ {
		if i.branch(i.strEq(mkstr(a[j:j+len(b)]), mkstr(b))) {
			return j, true
		}
	}
	return -1, true
}

func extBuilderString(fr *frame, args []value) (value, bool) {
	st := (*args[0].(*value)).(structure)
	// struct { addr *Builder; buf []byte }
	buf := st[1].([]value)
	return mkstr(buf), true
}

// ---- time

var unicodeClassTables = map[string][]*unicode.RangeTable{
	"IsLetter":  {unicode.Letter},
	"IsDigit":   {unicode.Digit},
	"IsNumber":  {unicode.Number},
	"IsUpper":   {unicode.Upper},
	"IsLower":   {unicode.Lower},
	"IsTitle":   {unicode.Title},
	"IsPunct":   {unicode.Punct},
	"IsMark":    {unicode.Mark},
	"IsSymbol":  {unicode.Symbol},
	"IsControl": {unicode.Cc},
	"IsSpace":   {unicode.White_Space},
	"IsGraphic": {unicode.L, unicode.M, unicode.N, unicode.P, unicode.S, unicode.Zs},
	"IsPrint":   {unicode.L, unicode.M, unicode.N, unicode.P, unicode.S},
}

// single runes that belong to a class besides its tables
var unicodeClassExtra = map[string][]rune{"IsPrint": {' '}}

// unicodeClassTerm: r (a 32-bit rune term) lies in one of the range tables.
func unicodeClassTerm(c *smt.Ctx, r *smt.Term, tabs []*unicode.RangeTable, extra []rune) *smt.Term {
	var ds []*smt.Term
	rng := func(lo, hi, stride uint32) {
		t := c.And(c.Bin(smt.OBVULE, c.BVConst(uint64(lo), 32), r), c.Bin(smt.OBVULE, r, c.BVConst(uint64(hi), 32)))
		if stride > 1 && lo != hi {
			off := c.Bin(smt.OBVSub, r, c.BVConst(uint64(lo), 32))
			t = c.And(t, c.Eq(c.Bin(smt.OBVURem, off, c.BVConst(uint64(stride), 32)), c.BVConst(0, 32)))
		}
		ds = append(ds, t)
	}
	for _, tab := range tabs {
		for _, x := range tab.R16 {
			rng(uint32(x.Lo), uint32(x.Hi), uint32(x.Stride))
		}
		for _, x := range tab.R32 {
			rng(x.Lo, x.Hi, x.Stride)
		}
	}
	for _, e := range extra {
		ds = append(ds, c.Eq(r, c.BVConst(uint64(uint32(e)), 32)))
	}
	return c.Or(ds...)
}

func extTimerChan(fr *frame) *gchan {
	c := fr.i.makeChan(1)
	var tv value
	if p := fr.i.prog.ImportedPackage("time"); p != nil {
		tv = zero(p.Type("Time").Type())
	}
	c.buf = append(c.buf, tv)
	return c
}

func extTimeNow(fr *frame, args []value) (value, bool) {
	panic(pathAbort{abExternal, "clock read (time.Now)"})
}

func extTimeNowRaw(fr *frame, args []value) (value, bool) {
	panic(pathAbort{abExternal, "clock read (time.now)"})
}

var _ = fmt.Sprintf
