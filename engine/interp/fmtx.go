package interp

// Engine-side implementations of fmt.Sprintf/Errorf and errors.Is/As.
// fmt itself is reflection-driven; tengo only uses it to build messages.
// Symbolic scalar arguments are rendered as the placeholder "⟨sym⟩" (message
// text with symbolic arguments is never the subject of a check); symbolic
// strings are spliced in byte for byte.

import (
	"fmt"
	"go/token"
	"go/types"
	"strings"

	"golang.org/x/tools/go/ssa"
)

func (i *interpreter) methodOf(t types.Type, name string) *ssa.Function {
	if t == nil {
		return nil
	}
	ms := i.prog.MethodSets.MethodSet(t)
	sel := ms.Lookup(nil, name)
	if sel == nil {
		return nil
	}
	return i.prog.MethodValue(sel)
}

// stringOf renders an interface value as %v would, as a list of byte values.
func (i *interpreter) fmtValue(fr *frame, verb byte, spec string, a value) []value {
	itf, ok := a.(iface)
	if !ok {
		itf = iface{t: nil, v: a}
	}
	str := func(s string) []value { return i.strBytes(s) }
	if itf.t == nil {
		if verb == 'T' {
			return str("<nil>")
		}
		return str("%!" + string(verb) + "(<nil>)")
	}
	if verb == 'T' {
		return str(types.TypeString(itf.t, func(p *types.Package) string { return p.Name() }))
	}
	// error / Stringer
	switch verb {
	case 'v', 's', 'q':
		if _, isBasic := itf.t.Underlying().(*types.Basic); !isBasic || itf.t != itf.t.Underlying() {
			for _, mname := range []string{"Error", "String"} {
				if m := i.methodOf(itf.t, mname); m != nil && m.Signature.Params().Len() == 0 && m.Signature.Results().Len() == 1 {
					if b, ok := m.Signature.Results().At(0).Type().Underlying().(*types.Basic); ok && b.Kind() == types.String {
						if p, isPtr := itf.v.(*value); isPtr && p == nil {
							return str("<nil>")
						}
						s := call(i, fr, token.NoPos, m, []value{itf.v})
						return i.fmtString(verb, spec, s)
					}
				}
			}
		}
	}
	switch v := itf.v.(type) {
	case string, *symstr:
		return i.fmtString(verb, spec, v)
	case *sym:
		return str("⟨sym⟩")
	case bool, int, int8, int16, int32, int64, uint, uint8, uint16, uint32, uint64, uintptr, float32, float64:
		return str(fmt.Sprintf(spec, v))
	case []value:
		// []byte with %s / %x / %q, otherwise a bracketed list
		if sl, ok := itf.t.Underlying().(*types.Slice); ok {
			if b, ok := sl.Elem().Underlying().(*types.Basic); ok && b.Kind() == types.Uint8 && (verb == 's' || verb == 'q' || verb == 'x') {
				return i.fmtString(verb, spec, mkstr(v))
			}
		}
		out := str("[")
		for k, e := range v {
			if k > 0 {
				out = append(out, uint8(' '))
			}
			var et types.Type
			if sl, ok := itf.t.Underlying().(*types.Slice); ok {
				et = sl.Elem()
			}
			if ei, ok := e.(iface); ok {
				out = append(out, i.fmtValue(fr, 'v', "%v", ei)...)
			} else {
				out = append(out, i.fmtValue(fr, 'v', "%v", iface{t: et, v: e})...)
			}
		}
		return append(out, uint8(']'))
	case *value:
		if v == nil {
			return str("<nil>")
		}
		return str("0xc000000000")
	case iface:
		return i.fmtValue(fr, verb, spec, v)
	}
	return str(fmt.Sprintf("<%s>", types.TypeString(itf.t, func(p *types.Package) string { return p.Name() })))
}

func (i *interpreter) fmtString(verb byte, spec string, s value) []value {
	if cs, ok := s.(string); ok {
		switch verb {
		case 'v', 's', 'q', 'x', 'X':
			return i.strBytes(fmt.Sprintf(spec, cs))
		}
		return i.strBytes(fmt.Sprintf(spec, cs))
	}
	b := i.strBytes(s)
	if verb == 'q' {
		out := []value{uint8('"')}
		out = append(out, b...)
		return append(out, uint8('"'))
	}
	return b
}

// sprintf formats like fmt.Sprintf. wrapped collects %w operands.
func (i *interpreter) sprintf(fr *frame, format value, args []value, wrapped *[]value) value {
	f, ok := format.(string)
	if !ok {
		// symbolic format string: not interpreted
		return format
	}
	var out []value
	argi := 0
	for p := 0; p < len(f); {
		if f[p] != '%' {
			out = append(out, f[p])
			p++
			continue
		}
		q := p + 1
		for q < len(f) && strings.IndexByte("+-# 0123456789.*[]", f[q]) >= 0 {
			q++
		}
		if q >= len(f) {
			out = append(out, i.strBytes("%!(NOVERB)")...)
			break
		}
		verb := f[q]
		spec := f[p : q+1]
		p = q + 1
		if verb == '%' {
			out = append(out, uint8('%'))
			continue
		}
		// '*' width/precision consume arguments
		for k := 0; k < len(spec); k++ {
			if spec[k] == '*' && argi < len(args) {
				w := args[argi]
				argi++
				if wi, ok := w.(iface); ok {
					w = wi.v
				}
				spec = spec[:k] + fmt.Sprint(w) + spec[k+1:]
			}
		}
		if argi >= len(args) {
			out = append(out, i.strBytes("%!"+string(verb)+"(MISSING)")...)
			continue
		}
		a := args[argi]
		argi++
		if verb == 'w' {
			if wrapped != nil {
				*wrapped = append(*wrapped, a)
			}
			verb = 'v'
			spec = spec[:len(spec)-1] + "v"
		}
		out = append(out, i.fmtValue(fr, verb, spec, a)...)
	}
	if argi < len(args) {
		out = append(out, i.strBytes("%!(EXTRA)")...)
	}
	return mkstr(out)
}

func extSprintf(fr *frame, args []value) (value, bool) {
	if fr.i.realFmt {
		return nil, false // run the real fmt.Sprintf (C17)
	}
	return fr.i.sprintf(fr, args[0], args[1].([]value), nil), true
}

func (i *interpreter) namedType(pkg, name string) types.Type {
	p := i.prog.ImportedPackage(pkg)
	if p == nil {
		panic(unsupported("package not loaded: " + pkg))
	}
	return p.Type(name).Type()
}

func extErrorf(fr *frame, args []value) (value, bool) {
	i := fr.i
	var wrapped []value
	msg := i.sprintf(fr, args[0], args[1].([]value), &wrapped)
	var errs []value
	for _, w := range wrapped {
		if wi, ok := w.(iface); ok && wi.t != nil && i.methodOf(wi.t, "Error") != nil {
			errs = append(errs, wi)
		}
	}
	switch len(errs) {
	case 0:
		v := value(structure{msg})
		return iface{t: types.NewPointer(i.namedType("errors", "errorString")), v: &v}, true
	case 1:
		v := value(structure{msg, errs[0]})
		return iface{t: types.NewPointer(i.namedType("fmt", "wrapError")), v: &v}, true
	default:
		v := value(structure{msg, errs})
		return iface{t: types.NewPointer(i.namedType("fmt", "wrapErrors")), v: &v}, true
	}
}

func extSprint(fr *frame, args []value) (value, bool) {
	i := fr.i
	var out []value
	prevString := true
	for k, a := range args[0].([]value) {
		itf, _ := a.(iface)
		_, isStr := itf.v.(string)
		if _, ss := itf.v.(*symstr); ss {
			isStr = true
		}
		if k > 0 && !isStr && !prevString {
			out = append(out, uint8(' '))
		}
		out = append(out, i.fmtValue(fr, 'v', "%v", a)...)
		prevString = isStr
	}
	return mkstr(out), true
}

func extSprintln(fr *frame, args []value) (value, bool) {
	i := fr.i
	var out []value
	for k, a := range args[0].([]value) {
		if k > 0 {
			out = append(out, uint8(' '))
		}
		out = append(out, i.fmtValue(fr, 'v', "%v", a)...)
	}
	out = append(out, uint8('\n'))
	return mkstr(out), true
}

// Fprintf/Fprint: format then call w.Write.
func (i *interpreter) writeTo(fr *frame, w value, s value) value {
	wi := w.(iface)
	m := i.methodOf(wi.t, "Write")
	if m == nil {
		panic(unsupported("Fprintf: writer without Write"))
	}
	b := i.strBytes(s)
	cp := make([]value, len(b))
	copy(cp, b)
	return call(i, fr, token.NoPos, m, []value{wi.v, cp})
}

func extFprintf(fr *frame, args []value) (value, bool) {
	s := fr.i.sprintf(fr, args[1], args[2].([]value), nil)
	return fr.i.writeTo(fr, args[0], s), true
}

func extFprint(fr *frame, args []value) (value, bool) {
	var s value
	if fr.fn.Name() == "Fprintln" {
		s, _ = extSprintln(fr, args[1:])
	} else {
		s, _ = extSprint(fr, args[1:])
	}
	return fr.i.writeTo(fr, args[0], s), true
}

// ---- errors.Is / errors.As

func (i *interpreter) unwrapErr(fr *frame, e iface) (single *iface, multi []iface) {
	m := i.methodOf(e.t, "Unwrap")
	if m == nil || m.Signature.Params().Len() != 0 || m.Signature.Results().Len() != 1 {
		return nil, nil
	}
	r := call(i, fr, token.NoPos, m, []value{e.v})
	switch r := r.(type) {
	case iface:
		return &r, nil
	case []value:
		for _, x := range r {
			multi = append(multi, x.(iface))
		}
		if multi == nil {
			multi = []iface{}
		}
		return nil, multi
	}
	return nil, nil
}

func (i *interpreter) errorsIs(fr *frame, err, target iface) bool {
	if err.t == nil || target.t == nil {
		return err.t == nil && target.t == nil
	}
	comparable := types.Comparable(target.t)
	for {
		if comparable && sameType(err.t, target.t) {
			if i.truth(equalsV(i, err.t, err.v, target.v)) {
				return true
			}
		}
		if m := i.methodOf(err.t, "Is"); m != nil && m.Signature.Params().Len() == 1 {
			if i.truth(call(i, fr, token.NoPos, m, []value{err.v, target})) {
				return true
			}
		}
		single, multi := i.unwrapErr(fr, err)
		switch {
		case single != nil:
			if single.t == nil {
				return false
			}
			err = *single
		case multi != nil:
			for _, e := range multi {
				if e.t != nil && i.errorsIs(fr, e, target) {
					return true
				}
			}
			return false
		default:
			return false
		}
	}
}

func extErrorsIs(fr *frame, args []value) (value, bool) {
	return fr.i.errorsIs(fr, args[0].(iface), args[1].(iface)), true
}

func (i *interpreter) errorsAs(fr *frame, err iface, target iface) bool {
	if err.t == nil {
		return false
	}
	if target.t == nil {
		panic(targetPanic{iface{i.runtimeErrorString, "errors: target cannot be nil"}})
	}
	pt, ok := target.t.Underlying().(*types.Pointer)
	if !ok {
		panic(targetPanic{iface{i.runtimeErrorString, "errors: target must be a non-nil pointer"}})
	}
	T := pt.Elem()
	cell := target.v.(*value)
	for {
		if it, ok := T.Underlying().(*types.Interface); ok {
			if types.Implements(err.t, it) {
				*cell = err
				return true
			}
		} else if types.Identical(err.t, T) {
			store(T, cell, err.v)
			return true
		}
		if m := i.methodOf(err.t, "As"); m != nil && m.Signature.Params().Len() == 1 {
			if i.truth(call(i, fr, token.NoPos, m, []value{err.v, target})) {
				return true
			}
		}
		single, multi := i.unwrapErr(fr, err)
		switch {
		case single != nil:
			if single.t == nil {
				return false
			}
			err = *single
		case multi != nil:
			for _, e := range multi {
				if e.t != nil && i.errorsAs(fr, e, target) {
					return true
				}
			}
			return false
		default:
			return false
		}
	}
}

func extErrorsAs(fr *frame, args []value) (value, bool) {
	return fr.i.errorsAs(fr, args[0].(iface), args[1].(iface)), true
}
