package interp

// Harness vocabulary (package verif/h/vf), intercepted by name.

import (
	"fmt"
	"go/token"
	"go/types"
	"strings"

	"golang.org/x/tools/go/ssa"

	"verif/engine/smt"
)

const vfPkg = "verif/h/vf."

func sanitize(id string) string {
	var sb strings.Builder
	sb.WriteString("in_")
	for _, r := range id {
		switch {
		case r >= 'a' && r <= 'z', r >= 'A' && r <= 'Z', r >= '0' && r <= '9', r == '_':
			sb.WriteRune(r)
		default:
			fmt.Fprintf(&sb, ".%x.", r)
		}
	}
	return sb.String()
}

// msgString renders an assertion message; symbolic bytes are shown as '?'.
func msgString(v value) string {
	switch s := v.(type) {
	case string:
		return s
	case *symstr:
		b := make([]byte, len(s.b))
		for k, e := range s.b {
			if c, ok := e.(uint8); ok {
				b[k] = c
			} else {
				b[k] = '?'
			}
		}
		return string(b)
	}
	return ""
}

func idArg(v value) string {
	s, ok := v.(string)
	if !ok {
		panic(unsupported("vf: input id must be a concrete string"))
	}
	return s
}

func siteOf(fr *frame) string {
	// position of the call in the harness
	for f := fr.caller; f != nil; f = f.caller {
		if f.fn.Pkg != nil && strings.HasPrefix(f.fn.Pkg.Pkg.Path(), "verif/h") && !strings.HasSuffix(f.fn.Pkg.Pkg.Path(), "/vf") {
			return f.fn.Name()
		}
	}
	return ""
}

func init() {
	scalar := func(k types.BasicKind) externalFn {
		return func(fr *frame, a []value) (value, bool) {
			return fr.i.newInput(sanitize(idArg(a[0])), k), true
		}
	}
	vf := map[string]externalFn{
		"Int64":   scalar(types.Int64),
		"Int":     scalar(types.Int),
		"Int32":   scalar(types.Int32),
		"Uint64":  scalar(types.Uint64),
		"Uint32":  scalar(types.Uint32),
		"Uint16":  scalar(types.Uint16),
		"Float64": scalar(types.Float64),
		"Bool":    scalar(types.Bool),
		"Byte":    scalar(types.Uint8),
		"Rune":    scalar(types.Int32),
		"Bytes": func(fr *frame, a []value) (value, bool) {
			id := sanitize(idArg(a[0]))
			n := int(asInt64(fr.i.concreteInt(a[1], "vf.Bytes length")))
			out := make([]value, n)
			for j := range out {
				out[j] = fr.i.newInput(fmt.Sprintf("%s_%d", id, j), types.Uint8)
			}
			return out, true
		},
		"String": func(fr *frame, a []value) (value, bool) {
			id := sanitize(idArg(a[0]))
			n := int(asInt64(fr.i.concreteInt(a[1], "vf.String length")))
			out := make([]value, n)
			for j := range out {
				out[j] = fr.i.newInput(fmt.Sprintf("%s_%d", id, j), types.Uint8)
			}
			return mkstr(out), true
		},
		"Choice": func(fr *frame, a []value) (value, bool) {
			n := int(asInt64(fr.i.concreteInt(a[1], "vf.Choice domain")))
			return fr.i.choose(n), true
		},
		"Assume": func(fr *frame, a []value) (value, bool) {
			fr.i.assume(fr.i.term(a[0]))
			return nil, true
		},
		"Assert": func(fr *frame, a []value) (value, bool) {
			msg := msgString(a[1])
			fr.i.assert(a[0], msg, siteOf(fr))
			return nil, true
		},
		"Fail": func(fr *frame, a []value) (value, bool) {
			msg := msgString(a[0])
			if !fr.i.p.replaying() {
				fr.i.violation("assert", msg, siteOf(fr), fr.i.currentModel(), "")
			}
			panic(pathAbort{abViolation, msg})
		},
		"Reach": func(fr *frame, a []value) (value, bool) {
			fr.i.p.reached[idArg(a[0])] = true
			return nil, true
		},
		"And": func(fr *frame, a []value) (value, bool) { return fr.i.andV(a[0], a[1]), true },
		"Or":  func(fr *frame, a []value) (value, bool) { return fr.i.orV(a[0], a[1]), true },
		"Not": func(fr *frame, a []value) (value, bool) { return fr.i.notV(a[0]), true },
		"Implies": func(fr *frame, a []value) (value, bool) {
			return fr.i.orV(fr.i.notV(a[0]), a[1]), true
		},
		"Iff": func(fr *frame, a []value) (value, bool) {
			i := fr.i
			if isSymbolic(a[0]) || isSymbolic(a[1]) {
				return i.mkval(types.Bool, i.ctx.Eq(i.term(a[0]), i.term(a[1]))), true
			}
			return a[0].(bool) == a[1].(bool), true
		},
		"IteInt64": func(fr *frame, a []value) (value, bool) {
			i := fr.i
			if b, ok := a[0].(bool); ok {
				if b {
					return a[1], true
				}
				return a[2], true
			}
			return i.mkval(types.Int64, i.ctx.Ite(i.term(a[0]), i.term(a[1]), i.term(a[2]))), true
		},
		"MapOrder": func(fr *frame, a []value) (value, bool) {
			fr.i.mapRev = asInt64(a[0]) == 1
			return nil, true
		},
		"Symbolic": func(fr *frame, a []value) (value, bool) { return true, true },
		"Tier":     func(fr *frame, a []value) (value, bool) { return fr.i.eng.cfg.Tier, true },
		"IsSym": func(fr *frame, a []value) (value, bool) {
			v := a[0]
			if it, ok := v.(iface); ok {
				v = it.v
			}
			return isSymbolic(v), true
		},
		"Stop": func(fr *frame, a []value) (value, bool) { panic(pathAbort{abExit, "vf.Stop"}) },
		"Note": func(fr *frame, a []value) (value, bool) {
			if s, ok := a[0].(string); ok && len(fr.i.p.notes) < 8 {
				fr.i.p.notes = append(fr.i.p.notes, s)
			}
			return nil, true
		},
		"Steps": func(fr *frame, a []value) (value, bool) { return fr.i.p.steps, true },
		"Goroutines": func(fr *frame, a []value) (value, bool) {
			return fr.i.liveGoroutines(), true
		},
		// Handoff: deterministically pass the baton to the main goroutine if it
		// can run (models "the waiting goroutine is scheduled now").
		"Handoff": func(fr *frame, a []value) (value, bool) {
			s := fr.i.sched
			main := s.gs[0]
			if s.cur != main && !main.done && (main.blocked == nil || main.blocked()) {
				fr.i.switchTo(main)
			}
			return nil, true
		},
		"Yield": func(fr *frame, a []value) (value, bool) { fr.i.yield(); return nil, true },
		// RealFmt(on): let calls to fmt.Sprintf run Go's real implementation
		// instead of the engine's message formatter.
		"RealFmt": func(fr *frame, a []value) (value, bool) { fr.i.realFmt = a[0].(bool); return nil, true },
		// Concurrent(f1, f2): the two functions are logged as two activities and
		// run one after the other (natively they run on two goroutines under the
		// race detector).
		"Concurrent": func(fr *frame, a []value) (value, bool) {
			i := fr.i
			if i.acc == nil {
				i.acc = &accessLog{cells: map[interface{}]map[int]*actAcc{}}
			}
			i.acc.cur = 1
			call(i, fr, token.NoPos, a[0], nil)
			i.acc.cur = 2
			call(i, fr, token.NoPos, a[1], nil)
			i.acc.cur = 0
			return nil, true
		},
		// Activity(n): attribute subsequent heap accesses to activity n (0 = off).
		"Activity": func(fr *frame, a []value) (value, bool) {
			i := fr.i
			if i.acc == nil {
				i.acc = &accessLog{cells: map[interface{}]map[int]*actAcc{}}
			}
			i.acc.cur = int(asInt64(a[0]))
			return nil, true
		},
		// Races: number of conflicting cells between the logged activities;
		// RaceText(k) describes the k-th.
		"Races": func(fr *frame, a []value) (value, bool) { return len(fr.i.races()), true },
		"RaceText": func(fr *frame, a []value) (value, bool) {
			rs := fr.i.races()
			k := int(asInt64(a[0]))
			if k < len(rs) {
				return rs[k], true
			}
			return "", true
		},
		// PollValue: inside a "poll" hook, the current value of the polled cell.
		"PollValue": func(fr *frame, a []value) (value, bool) {
			if fr.i.pollCell == nil {
				return int64(0), true
			}
			return *fr.i.pollCell, true
		},
		"AtomicYield": func(fr *frame, a []value) (value, bool) {
			fr.i.sched.atomicYield = a[0].(bool)
			return nil, true
		},
		"SetGob": func(fr *frame, a []value) (value, bool) {
			if fr.i.hooks == nil {
				fr.i.hooks = map[string]value{}
			}
			fr.i.hooks["gob.enc"] = a[0]
			fr.i.hooks["gob.dec"] = a[1]
			return nil, true
		},
		"SetHook": func(fr *frame, a []value) (value, bool) {
			if fr.i.hooks == nil {
				fr.i.hooks = map[string]value{}
			}
			switch f := a[1].(type) {
			case *ssa.Function:
				if f == nil {
					delete(fr.i.hooks, idArg(a[0]))
					return nil, true
				}
			case *closure:
				if f == nil {
					delete(fr.i.hooks, idArg(a[0]))
					return nil, true
				}
			}
			fr.i.hooks[idArg(a[0])] = a[1]
			return nil, true
		},
		// Guard(f) runs f and reports how it ended: 0 returned, 1 recoverable
		// panic, 2 step budget exhausted (hang), 3 fatal (stack overflow,
		// deadlock...), 4 external effect. The panic/fatal text is in LastGuard.
		"Guard": func(fr *frame, a []value) (value, bool) {
			return fr.i.guard(fr, a[0], int64(asInt64(a[1]))), true
		},
		"LastGuard": func(fr *frame, a []value) (value, bool) { return fr.i.lastGuard, true },
		// UF: uninterpreted functions for summarised callees
		"UFInt64": func(fr *frame, a []value) (value, bool) {
			i := fr.i
			args := a[1].([]value)
			ts := make([]*smt.Term, 0, len(args))
			allConc := true
			for _, x := range args {
				if isSymbolic(x) {
					allConc = false
				}
				ts = append(ts, i.term(x))
			}
			_ = allConc
			return i.mkval(types.Int64, i.ctx.App("uf_"+idArg(a[0]), smt.BV(64), ts...)), true
		},
	}
	for k, v := range vf {
		externals[vfPkg+k] = v
	}
}

// guard runs fn under its own step budget and classifies how it ended.
func (i *interpreter) guard(fr *frame, fn value, budget int64) (res int) {
	p := i.p
	saved := i.eng.cfg.MaxSteps
	limit := p.steps + budget
	i.guardLimit = append(i.guardLimit, limit)
	// a guarded call is also bounded in symbolic decisions (1 per 1000 steps of
	// budget, at least 64): a loop that forks on every iteration is cut early
	dlim := len(p.decisions) + int(budget/1000)
	if budget/1000 < 64 {
		dlim = len(p.decisions) + 64
	}
	i.guardDecLimit = append(i.guardDecLimit, dlim)
	depth0 := i.depth
	defer func() {
		i.guardLimit = i.guardLimit[:len(i.guardLimit)-1]
		i.guardDecLimit = i.guardDecLimit[:len(i.guardDecLimit)-1]
		i.depth = depth0
		_ = saved
		r := recover()
		if r == nil {
			return
		}
		switch r := r.(type) {
		case pathAbort:
			switch r.kind {
			case abGuardBudget:
				if p.steps > limit || len(p.decisions) >= dlim {
					i.lastGuard = r.reason
					res = 2
					return
				}
			case abFatal, abStackOverflow:
				i.lastGuard = r.reason
				res = 3
				return
			case abExternal:
				i.lastGuard = r.reason
				res = 4
				return
			}
			panic(r)
		case gorKill, goexit:
			panic(r)
		case targetPanic:
			i.lastGuard = toString(r.v)
			if it, ok := r.v.(iface); ok {
				if s, ok := it.v.(string); ok {
					i.lastGuard = s
				} else if m := i.methodOf(it.t, "Error"); m != nil {
					func() {
						defer func() { recover() }()
						if s, ok := call(i, fr, token.NoPos, m, []value{it.v}).(string); ok {
							i.lastGuard = s
						}
					}()
				}
			}
			res = 1
		case error:
			i.lastGuard = r.Error()
			res = 1
		default:
			i.lastGuard = fmt.Sprint(r)
			res = 1
		}
	}()
	call(i, fr, token.NoPos, fn, nil)
	return 0
}
