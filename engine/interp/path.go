package interp

// Path condition management: symbolic branches, assumptions, assertions,
// finite choices. Exploration is depth-first by re-execution: a path is the
// list of decisions taken at symbolic branch points.

import (
	"fmt"
	"os"
	"runtime/debug"
	"go/types"

	"verif/engine/smt"
)

type Decision struct {
	Choice bool // false: 2-way symbolic branch, true: n-way finite choice
	Val    int  // branch: 1=true 0=false; choice: selected value
	Forced bool // the other side was shown infeasible (not to be flipped)
	IsVal  bool // a case-split value of a symbolic integer (U)
	U      uint64
}

type abortKind int

const (
	abInfeasible abortKind = iota // an assumption cannot hold: not a path
	abBudget                      // step/decision budget exhausted: unwinding failure
	abUnsupported                 // engine cannot execute something
	abBound                       // a stated bound (case-split cap) was exceeded
	abViolation                   // an assertion failed; path ends
	abExit                        // harness asked to stop the path (vf.Stop)
	abExternal                    // an os/clock/network entry point was reached
	abFatal                       // the Go process would die (deadlock, unlock of unlocked mutex, goroutine panic)
	abStackOverflow               // unbounded Go recursion (fatal stack overflow)
	abGuardBudget                 // a vf.Guard-ed call ran past its step budget
)

func (k abortKind) String() string {
	return [...]string{"infeasible", "budget", "unsupported", "bound-exceeded", "violation", "exit", "external-effect", "fatal", "stack-overflow", "guard-budget"}[k]
}

// pathAbort is panicked to end the current path; target code cannot recover it.
type pathAbort struct {
	kind   abortKind
	reason string
}

func unsupported(msg string) pathAbort {
	if os.Getenv("SYMGO_DEBUG") == "2" {
		msg += "\n" + string(debug.Stack())
	}
	return pathAbort{abUnsupported, msg}
}

// rtErr is a target-level Go runtime error raised by the engine.
type rtErr struct{ msg string }

func (e rtErr) Error() string { return e.msg }
func (e rtErr) RuntimeError() {}

func runtimeError(msg string) rtErr { return rtErr{msg} }

type Violation struct {
	Harness string            `json:"harness"`
	Msg     string            `json:"msg"`
	Site    string            `json:"site"`
	Inputs  map[string]string `json:"inputs"`  // variable -> value (Go syntax)
	Choices []int             `json:"choices"` // finite choices in order
	Kind    string            `json:"kind"`    // "assert", "panic", "budget"
	Detail  string            `json:"detail,omitempty"`
}

type inputDecl struct {
	Name string
	Kind types.BasicKind
	// For strings/bytes: element variables are Name[0..n)
}

type path struct {
	prefix    []Decision
	pos       int
	decisions []Decision
	pc        []*smt.Term
	known     map[int]bool
	model     smt.Model
	hasModel  bool
	steps     int64
	inputs    []inputDecl
	inputSeen map[string]bool
	choices   []int
	reached   map[string]bool
	asserts   int // assertion queries discharged on this path
	assertsC  int // assertions that were concretely true
	symbolic  bool
	notes     []string
}

func newPath(prefix []Decision, model smt.Model) *path {
	p := &path{prefix: prefix, known: map[int]bool{}, inputSeen: map[string]bool{}, reached: map[string]bool{}}
	if model != nil {
		p.model = model
		p.hasModel = true
	} else {
		p.model = smt.Model{}
		p.hasModel = len(prefix) == 0
	}
	return p
}

func (p *path) replaying() bool { return p.pos < len(p.prefix) }

func (i *interpreter) addPC(t *smt.Term) {
	p := i.p
	if t.IsConst() {
		return
	}
	if p.known[t.ID] {
		return
	}
	p.known[t.ID] = true
	p.pc = append(p.pc, t)
	p.symbolic = true
	// conjunctions: record members as known too
	if t.Op == smt.OAnd {
		for _, a := range t.Args {
			p.known[a.ID] = true
		}
	}
}

// truth forks on a bool value (native or symbolic).
func (i *interpreter) truth(v value) bool {
	switch v := v.(type) {
	case bool:
		return v
	case *sym:
		return i.branch(v.t)
	}
	panic(fmt.Sprintf("truth: %T", v))
}

// branch decides a symbolic condition for this path.
func (i *interpreter) branch(cond *smt.Term) bool {
	if cond.IsConst() {
		return cond.Val != 0
	}
	p := i.p
	c := i.ctx
	ncond := c.Not(cond)
	if p.known[cond.ID] {
		return true
	}
	if p.known[ncond.ID] {
		return false
	}
	if cond.Op == smt.OOr {
		// all disjuncts known false?
		all := true
		for _, a := range cond.Args {
			if !p.known[c.Not(a).ID] {
				all = false
				break
			}
		}
		if all {
			return false
		}
	}
	if n := len(i.guardDecLimit); n > 0 && len(p.decisions) >= i.guardDecLimit[n-1] {
		panic(pathAbort{abGuardBudget, "guarded call exceeded its decision budget (loop forking on every iteration)"})
	}
	if len(p.decisions) >= i.eng.cfg.MaxDecisions {
		panic(pathAbort{abBudget, fmt.Sprintf("decision budget %d exhausted", i.eng.cfg.MaxDecisions)})
	}
	if p.replaying() {
		d := p.prefix[p.pos]
		p.pos++
		if d.Choice || d.IsVal {
			panic(fmt.Sprintf("engine: replay divergence: expected branch, prefix has choice/value at %d", p.pos-1))
		}
		p.decisions = append(p.decisions, d)
		if d.Val != 0 {
			i.addPC(cond)
			return true
		}
		i.addPC(ncond)
		return false
	}
	i.eng.stat.Branches.Add(1)
	// New decision. Use the cached model to pick a side known feasible.
	var side bool
	haveSide := false
	if p.hasModel {
		if v, ok := c.Eval(cond, p.model); ok {
			side = v != 0
			haveSide = true
		}
	}
	if !haveSide {
		r, m := i.solver.Check(p.pc, cond, true)
		switch r {
		case smt.Sat:
			side, haveSide = true, true
			if m != nil {
				p.model, p.hasModel = m, true
			} else {
				p.hasModel = false
			}
		case smt.Unsat:
			// must be the false side (pc is satisfiable by invariant)
			d := Decision{Val: 0, Forced: true}
			p.decisions = append(p.decisions, d)
			i.addPC(ncond)
			return false
		default:
			i.eng.stat.UnknownBranch.Add(1)
			side, haveSide = true, true
			p.hasModel = false
		}
	}
	// Is the other side feasible too?
	other := ncond
	if !side {
		other = cond
	}
	r, m := i.solver.Check(p.pc, other, true)
	d := Decision{Forced: r == smt.Unsat}
	if side {
		d.Val = 1
	}
	if r != smt.Unsat {
		if r == smt.Unknown {
			i.eng.stat.UnknownBranch.Add(1)
			m = nil
		}
		alt := make([]Decision, len(p.decisions)+1)
		copy(alt, p.decisions)
		alt[len(p.decisions)] = Decision{Val: 1 - d.Val}
		i.eng.push(workItem{prefix: alt, model: m})
	}
	p.decisions = append(p.decisions, d)
	if side {
		i.addPC(cond)
	} else {
		i.addPC(ncond)
	}
	return side
}

// choose makes an n-way finite choice (case split without the solver).
func (i *interpreter) choose(n int) int {
	if n <= 0 {
		panic(pathAbort{abInfeasible, "choice over empty domain"})
	}
	p := i.p
	if n == 1 {
		return 0
	}
	if len(p.choices) == 0 && i.eng.firstOnly >= 0 && !p.replaying() {
		// debugging aid: restrict the first finite choice (SYMGO_FIRST)
		v := i.eng.firstOnly
		if v >= n {
			panic(pathAbort{abInfeasible, "SYMGO_FIRST out of range"})
		}
		p.decisions = append(p.decisions, Decision{Choice: true, Val: v})
		p.choices = append(p.choices, v)
		return v
	}
	if p.replaying() {
		d := p.prefix[p.pos]
		p.pos++
		if !d.Choice || d.IsVal {
			panic(fmt.Sprintf("engine: replay divergence: expected choice, prefix has branch/value at %d", p.pos-1))
		}
		p.decisions = append(p.decisions, d)
		p.choices = append(p.choices, d.Val)
		return d.Val
	}
	for v := n - 1; v >= 1; v-- {
		alt := make([]Decision, len(p.decisions)+1)
		copy(alt, p.decisions)
		alt[len(p.decisions)] = Decision{Choice: true, Val: v}
		var m smt.Model
		if p.hasModel {
			m = cloneModel(p.model)
		}
		i.eng.push(workItem{prefix: alt, model: m})
	}
	p.decisions = append(p.decisions, Decision{Choice: true, Val: 0})
	p.choices = append(p.choices, 0)
	return 0
}

func cloneModel(m smt.Model) smt.Model {
	o := make(smt.Model, len(m))
	for k, v := range m {
		o[k] = v
	}
	return o
}

func (i *interpreter) assume(cond *smt.Term) {
	p := i.p
	if cond.IsConst() {
		if cond.Val == 0 {
			panic(pathAbort{abInfeasible, "assumption false"})
		}
		return
	}
	if p.known[cond.ID] {
		return
	}
	if p.replaying() {
		i.addPC(cond)
		return
	}
	if p.hasModel {
		if v, ok := i.ctx.Eval(cond, p.model); ok && v != 0 {
			i.addPC(cond)
			return
		}
	}
	r, m := i.solver.Check(p.pc, cond, true)
	switch r {
	case smt.Unsat:
		panic(pathAbort{abInfeasible, "assumption unsatisfiable"})
	case smt.Sat:
		if m != nil {
			p.model, p.hasModel = m, true
		} else {
			p.hasModel = false
		}
	default:
		i.eng.stat.UnknownBranch.Add(1)
		p.hasModel = false
	}
	i.addPC(cond)
}

// currentModel returns a model of the current path condition.
func (i *interpreter) currentModel() smt.Model {
	p := i.p
	if p.hasModel {
		return p.model
	}
	r, m := i.solver.Check(p.pc, nil, true)
	if r == smt.Sat && m != nil {
		p.model, p.hasModel = m, true
		return m
	}
	return nil
}

func (i *interpreter) assert(cond value, msg string, site string) {
	p := i.p
	if p.replaying() {
		// checked by the run that created this prefix
		if s, ok := cond.(*sym); ok {
			p.known[s.t.ID] = true
		}
		return
	}
	switch cv := cond.(type) {
	case bool:
		if cv {
			p.assertsC++
			return
		}
		i.violation("assert", msg, site, i.currentModel(), "")
	case *sym:
		if p.known[cv.t.ID] {
			p.assertsC++
			return
		}
		i.eng.stat.AssertQueries.Add(1)
		r, m := i.solver.Check(p.pc, i.ctx.Not(cv.t), true)
		switch r {
		case smt.Unsat:
			p.asserts++
			p.known[cv.t.ID] = true
			return
		case smt.Sat:
			if m == nil {
				i.eng.noteUnclean("assertion sat but model unavailable: " + msg)
				panic(pathAbort{abViolation, msg})
			}
			i.violation("assert", msg, site, m, "")
		default:
			i.eng.stat.UnknownAssert.Add(1)
			i.eng.noteUnclean(fmt.Sprintf("assertion query unknown (%s at %s)", msg, site))
			p.known[cv.t.ID] = true
			return
		}
	default:
		panic(fmt.Sprintf("assert: %T", cond))
	}
}

// violation records a counterexample and ends the path.
func (i *interpreter) violation(kind, msg, site string, m smt.Model, detail string) {
	v := Violation{Harness: i.eng.curHarness, Msg: msg, Site: site, Kind: kind, Detail: detail,
		Inputs: map[string]string{}, Choices: append([]int(nil), i.p.choices...)}
	if m == nil {
		i.eng.noteUnclean("violation without model: " + msg)
		m = smt.Model{}
	}
	for _, in := range i.p.inputs {
		v.Inputs[in.Name] = fmt.Sprintf("%d", m[in.Name]&maskKind(in.Kind))
	}
	i.eng.addViolation(v)
	panic(pathAbort{abViolation, msg})
}

func maskKind(k types.BasicKind) uint64 {
	switch k {
	case types.Bool:
		return 1
	case types.Float64:
		return ^uint64(0)
	}
	w := kindWidth(k)
	if w >= 64 {
		return ^uint64(0)
	}
	return (uint64(1) << uint(w)) - 1
}

// concretize case-splits a symbolic integer into its feasible values (at
// most limit of them, found by the solver); each value is one decision.
func (i *interpreter) concretize(s *sym, limit int, what string) uint64 {
	c := i.ctx
	p := i.p
	w := s.t.Sort.W
	if len(p.decisions) >= i.eng.cfg.MaxDecisions {
		panic(pathAbort{abBudget, fmt.Sprintf("decision budget %d exhausted", i.eng.cfg.MaxDecisions)})
	}
	if p.replaying() {
		d := p.prefix[p.pos]
		p.pos++
		if !d.IsVal {
			panic(fmt.Sprintf("engine: replay divergence: expected value decision at %d", p.pos-1))
		}
		p.decisions = append(p.decisions, d)
		i.addPC(c.Eq(s.t, c.BVConst(d.U, w)))
		return d.U
	}
	i.eng.stat.Branches.Add(1)
	var vals []uint64
	var models []smt.Model
	var excl []*smt.Term
	for len(vals) <= limit {
		var m smt.Model
		if len(vals) == 0 && p.hasModel {
			m = p.model
		} else {
			var q *smt.Term
			if len(excl) > 0 {
				q = c.And(excl...)
			}
			r, mm := i.solver.Check(p.pc, q, true)
			if r == smt.Unsat {
				break
			}
			if r != smt.Sat || mm == nil {
				i.eng.stat.UnknownBranch.Add(1)
				i.eng.noteUnclean("case split of symbolic " + what + ": solver unknown, values may be missing")
				break
			}
			m = mm
		}
		v, ok := c.Eval(s.t, m)
		if !ok {
			panic(unsupported("cannot evaluate symbolic " + what + " under the model"))
		}
		vals = append(vals, v)
		models = append(models, m)
		excl = append(excl, c.Not(c.Eq(s.t, c.BVConst(v, w))))
	}
	if len(vals) > limit {
		where := ""
		if os.Getenv("SYMGO_DEBUG") != "" {
			where = i.targetStackFrom(i.curFr)
		}
		panic(pathAbort{abBound, fmt.Sprintf("more than %d feasible values for symbolic %s%s", limit, what, where)})
	}
	if len(vals) == 0 {
		panic(pathAbort{abInfeasible, "no feasible value"})
	}
	for k := len(vals) - 1; k >= 1; k-- {
		alt := make([]Decision, len(p.decisions)+1)
		copy(alt, p.decisions)
		alt[len(p.decisions)] = Decision{IsVal: true, U: vals[k]}
		i.eng.push(workItem{prefix: alt, model: models[k]})
	}
	p.decisions = append(p.decisions, Decision{IsVal: true, U: vals[0], Forced: len(vals) == 1})
	if len(vals) > 1 || !p.hasModel {
		p.model, p.hasModel = cloneModel(models[0]), true
	}
	i.addPC(c.Eq(s.t, c.BVConst(vals[0], w)))
	return vals[0]
}

// newInput declares (or re-uses) an input variable.
func (i *interpreter) newInput(name string, k types.BasicKind) value {
	p := i.p
	var t *smt.Term
	switch k {
	case types.Bool:
		t = i.ctx.Var(name, smt.Bool)
	case types.Float64:
		t = i.ctx.Un(smt.OFPFromBits, i.ctx.Var(name, smt.BV(64)))
	default:
		t = i.ctx.Var(name, smt.BV(kindWidth(k)))
	}
	if !p.inputSeen[name] {
		p.inputSeen[name] = true
		p.inputs = append(p.inputs, inputDecl{Name: name, Kind: k})
	}
	return &sym{k: k, t: t}
}
