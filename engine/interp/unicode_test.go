package interp

import (
	"testing"
	"unicode"

	"verif/engine/smt"
)

// The exact encodings of the unicode class predicates agree with the host's
// functions on every range boundary, its neighbours, and a stride through the
// whole code space (plus negative and out-of-range runes).
func TestUnicodeClassTerms(t *testing.T) {
	fns := map[string]func(rune) bool{"IsLetter": unicode.IsLetter, "IsDigit": unicode.IsDigit, "IsNumber": unicode.IsNumber,
		"IsUpper": unicode.IsUpper, "IsLower": unicode.IsLower, "IsTitle": unicode.IsTitle, "IsPunct": unicode.IsPunct,
		"IsMark": unicode.IsMark, "IsSymbol": unicode.IsSymbol, "IsControl": unicode.IsControl, "IsSpace": unicode.IsSpace,
		"IsGraphic": unicode.IsGraphic, "IsPrint": unicode.IsPrint}
	for name, tabs := range unicodeClassTables {
		c := smt.NewCtx()
		r := c.Var("r", smt.BV(32))
		term := unicodeClassTerm(c, r, tabs, unicodeClassExtra[name])
		var probes []rune
		for _, tab := range tabs {
			for _, x := range tab.R16 {
				for d := -2; d <= 2; d++ {
					probes = append(probes, rune(x.Lo)+rune(d), rune(x.Hi)+rune(d))
				}
			}
			for _, x := range tab.R32 {
				for d := -2; d <= 2; d++ {
					probes = append(probes, rune(x.Lo)+rune(d), rune(x.Hi)+rune(d))
				}
			}
		}
		for q := rune(0); q < 0x110400; q += 37 {
			probes = append(probes, q)
		}
		for q := rune(0); q < 0x300; q++ {
			probes = append(probes, q)
		}
		probes = append(probes, -1, -0x80000000, 0x7fffffff, 0x110000)
		bad := 0
		for _, q := range probes {
			v, ok := c.Eval(term, smt.Model{"r": uint64(uint32(q))})
			if !ok || (v != 0) != fns[name](q) {
				bad++
				if bad < 5 {
					t.Errorf("%s(%#x): term=%v ok=%v host=%v", name, q, v, ok, fns[name](q))
				}
			}
		}
	}
}
