package interp

import (
	"fmt"
	"go/token"
	"go/types"

	"golang.org/x/tools/go/ssa"

	"verif/engine/smt"
)

// concreteInt case-splits a symbolic integer into its feasible values.
func (i *interpreter) concreteInt(v value, what string) value {
	s, ok := v.(*sym)
	if !ok {
		return v
	}
	x := i.concretize(s, i.eng.cfg.CaseCap, what)
	return constOfKind(s.k, x)
}

func (i *interpreter) index(x, idx value, rt types.Type) value {
	switch x := x.(type) {
	case string, *symstr:
		b := i.strBytes(x)
		if s, ok := idx.(*sym); ok {
			t := i.boundsCheck(s, len(b))
			return i.selectElem(b, t, types.Uint8)
		}
		j := asInt64(idx)
		if j < 0 || j >= int64(len(b)) {
			panic(runtimeError(fmt.Sprintf("runtime error: index out of range [%d] with length %d", j, len(b))))
		}
		return b[j]
	case array:
		if s, ok := idx.(*sym); ok {
			t := i.boundsCheck(s, len(x))
			if k, ok := scalarKind(rt); ok {
				return i.selectElem(x, t, k)
			}
			j := i.concretize(&sym{k: types.Int64, t: t}, i.eng.cfg.CaseCap, "array index")
			return x[j]
		}
		j := asInt64(idx)
		if j < 0 || j >= int64(len(x)) {
			panic(runtimeError(fmt.Sprintf("runtime error: index out of range [%d] with length %d", j, len(x))))
		}
		return x[j]
	}
	panic(fmt.Sprintf("unexpected x type in Index: %T", x))
}

func (i *interpreter) symLoad(p *symptr) value {
	k, _ := scalarKind(p.et)
	return i.selectElem(p.base, p.idx, k)
}

func (i *interpreter) symStore(p *symptr, v value) {
	c := i.ctx
	k, _ := scalarKind(p.et)
	vt := i.term(v)
	for j := range p.base {
		cond := c.Eq(p.idx, c.BVConst(uint64(j), 64))
		p.base[j] = i.mkval(k, c.Ite(cond, vt, i.term(p.base[j])))
	}
}

func (i *interpreter) utf8Func(name string) *ssa.Function {
	p := i.prog.ImportedPackage("unicode/utf8")
	if p == nil {
		panic(unsupported("unicode/utf8 not loaded"))
	}
	return p.Func(name)
}

// runeToString is string(r) for a symbolic integer.
func (i *interpreter) runeToString(x *sym) value {
	c := i.ctx
	w := kindWidth(x.k)
	var r value
	// values outside [0, 0x10FFFF] (incl. negatives, via unsigned compare) → U+FFFD,
	// surrogates are handled by utf8.AppendRune itself
	if i.branch(c.Bin(smt.OBVULT, x.t, c.BVConst(0x110000, w))) {
		if w > 32 {
			r = i.mkval(types.Int32, c.Extract(31, 0, x.t))
		} else if w < 32 {
			if kindSigned(x.k) {
				r = i.mkval(types.Int32, c.SignExt(32-w, x.t))
			} else {
				r = i.mkval(types.Int32, c.ZeroExt(32-w, x.t))
			}
		} else {
			r = i.mkval(types.Int32, x.t)
		}
	} else {
		r = int32(0xFFFD)
	}
	out := callSSA(i, nil, token.NoPos, i.utf8Func("AppendRune"), []value{[]value(nil), r}, nil)
	return mkstr(out.([]value))
}

func (i *interpreter) symConv(t_dst, t_src types.Type, x value) (value, bool) {
	ut_dst := t_dst.Underlying()
	switch x := x.(type) {
	case *sym:
		if b, ok := ut_dst.(*types.Basic); ok {
			if b.Kind() == types.String {
				return i.runeToString(x), true
			}
			if b.Kind() == types.UnsafePointer {
				panic(unsupported("symbolic value to unsafe.Pointer"))
			}
			if b.Kind() == types.Float32 || x.k == types.Float32 {
				panic(unsupported("float32 conversion of symbolic value"))
			}
			return i.symConvNum(b.Kind(), x), true
		}
	case *symstr:
		switch d := ut_dst.(type) {
		case *types.Basic:
			return x, true
		case *types.Slice:
			switch d.Elem().Underlying().(*types.Basic).Kind() {
			case types.Byte:
				out := make([]value, len(x.b))
				copy(out, x.b)
				return out, true
			case types.Rune:
				var out []value
				it := &symStringIter{i: i, b: x.b}
				for {
					t := it.next()
					if !t[0].(bool) {
						break
					}
					out = append(out, t[2])
				}
				if out == nil {
					out = []value{}
				}
				return out, true
			}
		}
	case []value:
		if _, ok := ut_dst.(*types.Basic); !ok {
			return nil, false
		}
		anySym := false
		for _, e := range x {
			if _, ok := e.(*sym); ok {
				anySym = true
				break
			}
		}
		if !anySym {
			return nil, false
		}
		src := t_src.Underlying().(*types.Slice)
		switch src.Elem().Underlying().(*types.Basic).Kind() {
		case types.Byte:
			return mkstr(x), true
		case types.Rune:
			var out value = []value(nil)
			ap := i.utf8Func("AppendRune")
			for _, r := range x {
				if s, ok := r.(*sym); ok {
					// string([]rune) maps invalid runes to U+FFFD, as AppendRune does
					out = callSSA(i, nil, token.NoPos, ap, []value{out, s}, nil)
				} else {
					out = callSSA(i, nil, token.NoPos, ap, []value{out, r}, nil)
				}
			}
			return mkstr(out.([]value)), true
		}
	}
	return nil, false
}

// symStringIter ranges over a string with symbolic bytes by running the real
// utf8.DecodeRuneInString on the remaining suffix.
type symStringIter struct {
	i   *interpreter
	b   []value
	pos int
}

func (it *symStringIter) next() tuple {
	if it.pos >= len(it.b) {
		return tuple{false, nil, nil}
	}
	i := it.i
	res := callSSA(i, nil, token.NoPos, i.utf8Func("DecodeRuneInString"), []value{mkstr(it.b[it.pos:])}, nil).(tuple)
	r, n := res[0], res[1]
	at := it.pos
	it.pos += int(asInt64(i.concreteInt(n, "rune size")))
	return tuple{true, at, r}
}

// equalsV is Go's == for type t, returning a bool or a symbolic Bool.
func equalsV(i *interpreter, t types.Type, x, y value) value {
	switch x := x.(type) {
	case *sym:
		return i.symBinop(token.EQL, x, y)
	case *symstr:
		return i.mkval(types.Bool, i.strEq(x, y))
	case structure:
		ys := y.(structure)
		tStruct := t.Underlying().(*types.Struct)
		var acc value = true
		for j, n := 0, tStruct.NumFields(); j < n; j++ {
			if f := tStruct.Field(j); f.Name() != "_" {
				acc = i.andV(acc, equalsV(i, f.Type(), x[j], ys[j]))
				if b, ok := acc.(bool); ok && !b {
					return false
				}
			}
		}
		return acc
	case array:
		ya := y.(array)
		tElt := t.Underlying().(*types.Array).Elem()
		var acc value = true
		for j := range x {
			acc = i.andV(acc, equalsV(i, tElt, x[j], ya[j]))
			if b, ok := acc.(bool); ok && !b {
				return false
			}
		}
		return acc
	case iface:
		yi := y.(iface)
		if !sameType(x.t, yi.t) {
			return false
		}
		if x.t == nil {
			return true
		}
		return equalsV(i, x.t, x.v, yi.v)
	}
	switch y.(type) {
	case *sym:
		return i.symBinop(token.EQL, x, y)
	case *symstr:
		return i.mkval(types.Bool, i.strEq(x, y))
	}
	return equals(t, x, y)
}

func (i *interpreter) andV(a, b value) value {
	if ab, ok := a.(bool); ok {
		if !ab {
			return false
		}
		return b
	}
	if bb, ok := b.(bool); ok {
		if !bb {
			return false
		}
		return a
	}
	return i.mkval(types.Bool, i.ctx.And(a.(*sym).t, b.(*sym).t))
}

func (i *interpreter) orV(a, b value) value {
	if ab, ok := a.(bool); ok {
		if ab {
			return true
		}
		return b
	}
	if bb, ok := b.(bool); ok {
		if bb {
			return true
		}
		return a
	}
	return i.mkval(types.Bool, i.ctx.Or(a.(*sym).t, b.(*sym).t))
}

func (i *interpreter) notV(a value) value {
	if ab, ok := a.(bool); ok {
		return !ab
	}
	return i.mkval(types.Bool, i.ctx.Not(a.(*sym).t))
}
