package interp

// Symbolic scalars and strings.

import (
	"fmt"
	"go/token"
	"go/types"
	"math"

	"verif/engine/smt"
)

// sym is a symbolic scalar of Go basic kind k.
type sym struct {
	k types.BasicKind
	t *smt.Term
}

// symstr is a string of concrete length whose bytes may be symbolic
// (each element is a uint8 or a *sym of kind Uint8). Always used as *symstr.
type symstr struct {
	b []value
}

// symptr is the address of element idx (symbolic) of a slice/array of scalars.
type symptr struct {
	base []value
	idx  *smt.Term // BV64, already bounds-checked
	et   types.Type
}

func isSymbolic(v value) bool {
	switch v.(type) {
	case *sym, *symstr:
		return true
	}
	return false
}

func kindWidth(k types.BasicKind) int {
	switch k {
	case types.Int8, types.Uint8:
		return 8
	case types.Int16, types.Uint16:
		return 16
	case types.Int32, types.Uint32:
		return 32
	case types.Int, types.Int64, types.Uint, types.Uint64, types.Uintptr:
		return 64
	}
	panic(fmt.Sprintf("kindWidth: %v", k))
}

func kindSigned(k types.BasicKind) bool {
	switch k {
	case types.Int, types.Int8, types.Int16, types.Int32, types.Int64:
		return true
	}
	return false
}

func kindIsInt(k types.BasicKind) bool {
	switch k {
	case types.Int, types.Int8, types.Int16, types.Int32, types.Int64,
		types.Uint, types.Uint8, types.Uint16, types.Uint32, types.Uint64, types.Uintptr:
		return true
	}
	return false
}

func kindOf(v value) types.BasicKind {
	switch v := v.(type) {
	case *sym:
		return v.k
	case bool:
		return types.Bool
	case int:
		return types.Int
	case int8:
		return types.Int8
	case int16:
		return types.Int16
	case int32:
		return types.Int32
	case int64:
		return types.Int64
	case uint:
		return types.Uint
	case uint8:
		return types.Uint8
	case uint16:
		return types.Uint16
	case uint32:
		return types.Uint32
	case uint64:
		return types.Uint64
	case uintptr:
		return types.Uintptr
	case float64:
		return types.Float64
	case float32:
		return types.Float32
	}
	return types.Invalid
}

// term lifts a scalar value to a term.
func (i *interpreter) term(v value) *smt.Term {
	c := i.ctx
	switch v := v.(type) {
	case *sym:
		return v.t
	case bool:
		return c.BoolConst(v)
	case int:
		return c.BVConst(uint64(v), 64)
	case int8:
		return c.BVConst(uint64(v), 8)
	case int16:
		return c.BVConst(uint64(v), 16)
	case int32:
		return c.BVConst(uint64(v), 32)
	case int64:
		return c.BVConst(uint64(v), 64)
	case uint:
		return c.BVConst(uint64(v), 64)
	case uint8:
		return c.BVConst(uint64(v), 8)
	case uint16:
		return c.BVConst(uint64(v), 16)
	case uint32:
		return c.BVConst(uint64(v), 32)
	case uint64:
		return c.BVConst(v, 64)
	case uintptr:
		return c.BVConst(uint64(v), 64)
	case float64:
		return c.FPConst(v)
	}
	panic(unsupported(fmt.Sprintf("term: cannot lift %T", v)))
}

// mkval turns a term back into a value of kind k, native if constant.
func (i *interpreter) mkval(k types.BasicKind, t *smt.Term) value {
	if t.IsConst() {
		return constOfKind(k, t.Val)
	}
	return &sym{k: k, t: t}
}

func constOfKind(k types.BasicKind, v uint64) value {
	switch k {
	case types.Bool:
		return v != 0
	case types.Int:
		return int(v)
	case types.Int8:
		return int8(v)
	case types.Int16:
		return int16(v)
	case types.Int32:
		return int32(v)
	case types.Int64:
		return int64(v)
	case types.Uint:
		return uint(v)
	case types.Uint8:
		return uint8(v)
	case types.Uint16:
		return uint16(v)
	case types.Uint32:
		return uint32(v)
	case types.Uint64:
		return v
	case types.Uintptr:
		return uintptr(v)
	case types.Float64:
		return math.Float64frombits(v)
	}
	panic(fmt.Sprintf("constOfKind: %v", k))
}

// symBinop implements binop when at least one operand is a *sym.
func (i *interpreter) symBinop(op token.Token, x, y value) value {
	c := i.ctx
	k := kindOf(x)
	switch {
	case k == types.Bool:
		a, b := i.term(x), i.term(y)
		switch op {
		case token.EQL:
			return i.mkval(types.Bool, c.Eq(a, b))
		case token.NEQ:
			return i.mkval(types.Bool, c.Not(c.Eq(a, b)))
		}
	case k == types.Float64:
		a, b := i.term(x), i.term(y)
		switch op {
		case token.ADD:
			return i.mkval(k, c.Bin(smt.OFPAdd, a, b))
		case token.SUB:
			return i.mkval(k, c.Bin(smt.OFPSub, a, b))
		case token.MUL:
			return i.mkval(k, c.Bin(smt.OFPMul, a, b))
		case token.QUO:
			return i.mkval(k, c.Bin(smt.OFPDiv, a, b))
		case token.LSS:
			return i.mkval(types.Bool, c.Bin(smt.OFPLT, a, b))
		case token.LEQ:
			return i.mkval(types.Bool, c.Bin(smt.OFPLE, a, b))
		case token.GTR:
			return i.mkval(types.Bool, c.Bin(smt.OFPLT, b, a))
		case token.GEQ:
			return i.mkval(types.Bool, c.Bin(smt.OFPLE, b, a))
		case token.EQL:
			return i.mkval(types.Bool, c.Bin(smt.OFPEQ, a, b))
		case token.NEQ:
			return i.mkval(types.Bool, c.Not(c.Bin(smt.OFPEQ, a, b)))
		}
	case kindIsInt(k):
		if op == token.SHL || op == token.SHR {
			return i.symShift(op, k, x, y)
		}
		a, b := i.term(x), i.term(y)
		signed := kindSigned(k)
		w := kindWidth(k)
		pick := func(s, u smt.Op) smt.Op {
			if signed {
				return s
			}
			return u
		}
		switch op {
		case token.ADD:
			return i.mkval(k, c.Bin(smt.OBVAdd, a, b))
		case token.SUB:
			return i.mkval(k, c.Bin(smt.OBVSub, a, b))
		case token.MUL:
			return i.mkval(k, c.Bin(smt.OBVMul, a, b))
		case token.QUO, token.REM:
			if i.branch(c.Eq(b, c.BVConst(0, w))) {
				panic(runtimeError("runtime error: integer divide by zero"))
			}
			if op == token.QUO {
				return i.mkval(k, c.Bin(pick(smt.OBVSDiv, smt.OBVUDiv), a, b))
			}
			return i.mkval(k, c.Bin(pick(smt.OBVSRem, smt.OBVURem), a, b))
		case token.AND:
			return i.mkval(k, c.Bin(smt.OBVAnd, a, b))
		case token.OR:
			return i.mkval(k, c.Bin(smt.OBVOr, a, b))
		case token.XOR:
			return i.mkval(k, c.Bin(smt.OBVXor, a, b))
		case token.AND_NOT:
			return i.mkval(k, c.Bin(smt.OBVAnd, a, c.Un(smt.OBVNot, b)))
		case token.LSS:
			return i.mkval(types.Bool, c.Bin(pick(smt.OBVSLT, smt.OBVULT), a, b))
		case token.LEQ:
			return i.mkval(types.Bool, c.Bin(pick(smt.OBVSLE, smt.OBVULE), a, b))
		case token.GTR:
			return i.mkval(types.Bool, c.Bin(pick(smt.OBVSLT, smt.OBVULT), b, a))
		case token.GEQ:
			return i.mkval(types.Bool, c.Bin(pick(smt.OBVSLE, smt.OBVULE), b, a))
		case token.EQL:
			return i.mkval(types.Bool, c.Eq(a, b))
		case token.NEQ:
			return i.mkval(types.Bool, c.Not(c.Eq(a, b)))
		}
	}
	panic(unsupported(fmt.Sprintf("symBinop: %T %s %T", x, op, y)))
}

func (i *interpreter) symShift(op token.Token, k types.BasicKind, x, y value) value {
	c := i.ctx
	w := kindWidth(k)
	yk := kindOf(y)
	yt := i.term(y)
	if kindSigned(yk) {
		if i.branch(c.Bin(smt.OBVSLT, yt, c.BVConst(0, kindWidth(yk)))) {
			panic(runtimeError("runtime error: negative shift amount"))
		}
	}
	yw := kindWidth(yk)
	// bring the count to width w; counts >= w saturate to w (all SMT shifts
	// then give the Go result: 0 or sign fill)
	var cnt *smt.Term
	if yw == w {
		cnt = yt
	} else if yw < w {
		cnt = c.ZeroExt(w-yw, yt)
	} else {
		big := c.Not(c.Bin(smt.OBVULT, yt, c.BVConst(uint64(w), yw)))
		cnt = c.Ite(big, c.BVConst(uint64(w), w), c.Extract(w-1, 0, yt))
	}
	a := i.term(x)
	switch {
	case op == token.SHL:
		return i.mkval(k, c.Bin(smt.OBVShl, a, cnt))
	case kindSigned(k):
		return i.mkval(k, c.Bin(smt.OBVAShr, a, cnt))
	default:
		return i.mkval(k, c.Bin(smt.OBVLShr, a, cnt))
	}
}

func (i *interpreter) symUnop(op token.Token, x *sym) value {
	c := i.ctx
	switch {
	case x.k == types.Bool && op == token.NOT:
		return i.mkval(types.Bool, c.Not(x.t))
	case x.k == types.Float64 && op == token.SUB:
		return i.mkval(x.k, c.Un(smt.OFPNeg, x.t))
	case kindIsInt(x.k) && op == token.SUB:
		return i.mkval(x.k, c.Un(smt.OBVNeg, x.t))
	case kindIsInt(x.k) && op == token.XOR:
		return i.mkval(x.k, c.Un(smt.OBVNot, x.t))
	}
	panic(unsupported(fmt.Sprintf("symUnop: %s %v", op, x.k)))
}

// symConvNum converts symbolic numeric x to basic kind dst.
func (i *interpreter) symConvNum(dst types.BasicKind, x *sym) value {
	c := i.ctx
	switch {
	case kindIsInt(x.k) && kindIsInt(dst):
		sw, dw := kindWidth(x.k), kindWidth(dst)
		switch {
		case sw == dw:
			return i.mkval(dst, x.t)
		case sw > dw:
			return i.mkval(dst, c.Extract(dw-1, 0, x.t))
		case kindSigned(x.k):
			return i.mkval(dst, c.SignExt(dw-sw, x.t))
		default:
			return i.mkval(dst, c.ZeroExt(dw-sw, x.t))
		}
	case kindIsInt(x.k) && dst == types.Float64:
		if kindSigned(x.k) {
			return i.mkval(dst, c.Un(smt.OFPFromSBV, x.t))
		}
		return i.mkval(dst, c.Un(smt.OFPFromUBV, x.t))
	case x.k == types.Float64 && dst == types.Float64:
		return x
	case x.k == types.Float64 && kindIsInt(dst) && kindSigned(dst) && kindWidth(dst) == 64:
		// amd64: CVTTSD2SQ yields 0x8000000000000000 for NaN / out of range
		lo := c.FPConst(-9223372036854775808.0)
		hi := c.FPConst(9223372036854775808.0)
		in := c.And(c.Bin(smt.OFPLE, lo, x.t), c.Bin(smt.OFPLT, x.t, hi))
		return i.mkval(dst, c.Ite(in, c.FPToSBV(64, x.t), c.BVConst(1<<63, 64)))
	case x.k == types.Float64 && kindIsInt(dst):
		// other targets: fork to a concrete class to stay faithful
		panic(unsupported(fmt.Sprintf("symbolic float64 -> %v conversion", dst)))
	}
	panic(unsupported(fmt.Sprintf("symConvNum %v -> %v", x.k, dst)))
}

// ---- strings

func (i *interpreter) strBytes(v value) []value {
	switch s := v.(type) {
	case string:
		out := make([]value, len(s))
		for j := 0; j < len(s); j++ {
			out[j] = s[j]
		}
		return out
	case *symstr:
		return s.b
	}
	panic(fmt.Sprintf("strBytes: %T", v))
}

// mkstr normalises a byte vector into a string value.
func mkstr(b []value) value {
	for _, e := range b {
		if _, ok := e.(*sym); ok {
			cp := make([]value, len(b))
			copy(cp, b)
			return &symstr{b: cp}
		}
	}
	bs := make([]byte, len(b))
	for j, e := range b {
		bs[j] = e.(uint8)
	}
	return string(bs)
}

func strLen(v value) int {
	switch s := v.(type) {
	case string:
		return len(s)
	case *symstr:
		return len(s.b)
	}
	panic(fmt.Sprintf("strLen: %T", v))
}

// strEq returns the term for x == y.
func (i *interpreter) strEq(x, y value) *smt.Term {
	c := i.ctx
	a, b := i.strBytes(x), i.strBytes(y)
	if len(a) != len(b) {
		return c.False()
	}
	conj := make([]*smt.Term, 0, len(a))
	for j := range a {
		conj = append(conj, c.Eq(i.term(a[j]), i.term(b[j])))
	}
	return c.And(conj...)
}

// strLess returns the term for x < y (orEq: x <= y), bytewise lexicographic.
func (i *interpreter) strLess(x, y value, orEq bool) *smt.Term {
	c := i.ctx
	a, b := i.strBytes(x), i.strBytes(y)
	n := len(a)
	if len(b) < n {
		n = len(b)
	}
	// tail: all of the common prefix equal
	var res *smt.Term
	if len(a) < len(b) || (orEq && len(a) == len(b)) {
		res = c.True()
	} else {
		res = c.False()
	}
	for j := n - 1; j >= 0; j-- {
		aj, bj := i.term(a[j]), i.term(b[j])
		res = c.Or(c.Bin(smt.OBVULT, aj, bj), c.And(c.Eq(aj, bj), res))
	}
	return res
}

func (i *interpreter) strBinop(op token.Token, x, y value) value {
	c := i.ctx
	switch op {
	case token.ADD:
		a, b := i.strBytes(x), i.strBytes(y)
		out := make([]value, 0, len(a)+len(b))
		out = append(out, a...)
		out = append(out, b...)
		return mkstr(out)
	case token.EQL:
		return i.mkval(types.Bool, i.strEq(x, y))
	case token.NEQ:
		return i.mkval(types.Bool, c.Not(i.strEq(x, y)))
	case token.LSS:
		return i.mkval(types.Bool, i.strLess(x, y, false))
	case token.LEQ:
		return i.mkval(types.Bool, i.strLess(x, y, true))
	case token.GTR:
		return i.mkval(types.Bool, i.strLess(y, x, false))
	case token.GEQ:
		return i.mkval(types.Bool, i.strLess(y, x, true))
	}
	panic(unsupported("strBinop " + op.String()))
}

// selectElem builds the value b[idx] for a symbolic idx over scalars. For
// constant tables consecutive equal entries are merged into ranges
// (ite(idx < end, v, ...)), which keeps 256-entry tables small.
func (i *interpreter) selectElem(b []value, idx *smt.Term, k types.BasicKind) value {
	c := i.ctx
	if len(b) == 0 {
		panic("selectElem on empty vector")
	}
	w := idx.Sort.W
	allConst := true
	for _, e := range b {
		if _, ok := e.(*sym); ok {
			allConst = false
			break
		}
	}
	if allConst {
		type run struct {
			end int // exclusive
			v   *smt.Term
		}
		var runs []run
		for j, e := range b {
			t := i.term(e)
			if n := len(runs); n > 0 && runs[n-1].v == t {
				runs[n-1].end = j + 1
			} else {
				runs = append(runs, run{j + 1, t})
			}
		}
		res := runs[len(runs)-1].v
		for j := len(runs) - 2; j >= 0; j-- {
			res = c.Ite(c.Bin(smt.OBVULT, idx, c.BVConst(uint64(runs[j].end), w)), runs[j].v, res)
		}
		return i.mkval(k, res)
	}
	res := i.term(b[len(b)-1])
	for j := len(b) - 2; j >= 0; j-- {
		res = c.Ite(c.Eq(idx, c.BVConst(uint64(j), w)), i.term(b[j]), res)
	}
	return i.mkval(k, res)
}

// boundsCheck forks on 0 <= idx < n (idx of any int kind); returns idx as BV64.
func (i *interpreter) boundsCheck(idx *sym, n int) *smt.Term {
	c := i.ctx
	var t *smt.Term
	w := kindWidth(idx.k)
	switch {
	case w == 64:
		t = idx.t
	case kindSigned(idx.k):
		t = c.SignExt(64-w, idx.t)
	default:
		t = c.ZeroExt(64-w, idx.t)
	}
	// unsigned comparison covers negative values too
	if !i.branch(c.Bin(smt.OBVULT, t, c.BVConst(uint64(n), 64))) {
		panic(runtimeError(fmt.Sprintf("runtime error: index out of range [symbolic] with length %d", n)))
	}
	return t
}

func scalarKind(t types.Type) (types.BasicKind, bool) {
	if b, ok := t.Underlying().(*types.Basic); ok {
		k := b.Kind()
		if k == types.Bool || kindIsIntOrFloat(k) {
			return k, true
		}
	}
	return types.Invalid, false
}

func kindIsIntOrFloat(k types.BasicKind) bool {
	return kindIsInt(k) || k == types.Float64
}
