// Copyright 2013 The Go Authors. All rights reserved.
// Use of this source code is governed by a BSD-style
// license that can be found in the LICENSE file.

package interp

// omap: a deterministic (insertion-ordered) map used for every Go map of the
// target program. Iteration order is insertion order, which is one of the
// orders Go permits and keeps re-execution of a decision prefix deterministic.
// Keys may be symbolic (*sym, *symstr): lookups then compare against every
// live entry through equalsV and fork on the outcome.

import (
	"go/types"
)

type oentry struct {
	key  value
	val  value
	dead bool
}

type omap struct {
	keyType types.Type
	entries []*oentry
	index   map[value]*oentry // concrete hashable keys only
	nsym    int               // number of live entries with symbolic keys
	live    int
}

func makeMap(kt types.Type, reserve int64) value {
	return &omap{keyType: kt, index: map[value]*oentry{}}
}

// fastKey reports whether k can be looked up through the Go map index.
func fastKey(k value) bool {
	switch k.(type) {
	case bool, int, int8, int16, int32, int64, uint, uint8, uint16, uint32, uint64, uintptr,
		string, *value, chan value, float32, float64:
		return true
	}
	return false
}

func isNaNKey(k value) bool {
	switch f := k.(type) {
	case float64:
		return f != f
	case float32:
		return f != f
	}
	return false
}

func (m *omap) find(i *interpreter, k value) *oentry {
	if m == nil {
		return nil
	}
	if isNaNKey(k) {
		return nil
	}
	if fastKey(k) && m.nsym == 0 {
		if len(m.index) == m.live { // all keys are fast keys
			return m.index[k]
		}
		if e := m.index[k]; e != nil {
			return e
		}
	}
	for _, e := range m.entries {
		if e.dead {
			continue
		}
		if fastKey(k) && fastKey(e.key) {
			if e.key == k {
				return e
			}
			continue
		}
		if i.truth(equalsV(i, m.keyType, e.key, k)) {
			return e
		}
	}
	return nil
}

func (m *omap) lookup(i *interpreter, k value) (value, bool) {
	if e := m.find(i, k); e != nil {
		return e.val, true
	}
	return nil, false
}

func (m *omap) insert(i *interpreter, k, v value) {
	if e := m.find(i, k); e != nil {
		e.val = v
		return
	}
	e := &oentry{key: k, val: v}
	m.entries = append(m.entries, e)
	m.live++
	if fastKey(k) && !isNaNKey(k) {
		m.index[k] = e
	} else if isSymbolic(k) {
		m.nsym++
	}
}

func (m *omap) delete(i *interpreter, k value) {
	if m == nil {
		return
	}
	if e := m.find(i, k); e != nil {
		e.dead = true
		m.live--
		if fastKey(e.key) {
			delete(m.index, e.key)
		} else if isSymbolic(e.key) {
			m.nsym--
		}
		if m.live == 0 {
			m.entries = m.entries[:0]
		}
	}
}

// clearAll removes every entry (the clear builtin).
func (m *omap) clearAll() {
	if m == nil {
		return
	}
	m.entries = m.entries[:0]
	m.index = map[value]*oentry{}
	m.nsym, m.live = 0, 0
}

func (m *omap) len() int {
	if m == nil {
		return 0
	}
	return m.live
}

type omapIter struct {
	m   *omap
	pos int
	rev bool // reverse insertion order (vf.MapOrder(1)): another order Go permits
}

func (it *omapIter) next() tuple {
	if it.m != nil && it.rev {
		for it.pos >= 0 {
			if it.pos >= len(it.m.entries) {
				it.pos = len(it.m.entries) - 1
				continue
			}
			e := it.m.entries[it.pos]
			it.pos--
			if !e.dead {
				return tuple{true, e.key, e.val}
			}
		}
		return tuple{false, nil, nil}
	}
	if it.m != nil {
		for it.pos < len(it.m.entries) {
			e := it.m.entries[it.pos]
			it.pos++
			if !e.dead {
				return tuple{true, e.key, e.val}
			}
		}
	}
	return tuple{false, nil, nil}
}
