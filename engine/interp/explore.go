package interp

// Engine: loads the program, boots frozen package state once, and explores
// harness functions path by path on a pool of workers.

import (
	"fmt"
	"go/token"
	"go/types"
	"os"
	"runtime"
	"runtime/debug"
	"sort"
	"strings"
	"sync"
	"sync/atomic"
	"time"

	"golang.org/x/tools/go/packages"
	"golang.org/x/tools/go/ssa"
	"golang.org/x/tools/go/ssa/ssautil"

	"verif/engine/smt"
)

type Config struct {
	Dir          string            // directory of the harness module
	Patterns     []string          // packages to load (default ".")
	Overlay      map[string][]byte // extra/replaced source files
	HarnessPkg   string            // import path of the harness package
	Workers      int
	MaxSteps     int64 // SSA instructions per path
	MaxDecisions int   // symbolic decisions per path
	MaxPaths     int64 // per harness
	CaseCap      int   // cap for case-splitting a symbolic index/size
	Solver       string
	Timeout      time.Duration
	Trace        bool
	Env          []string
	BuildTags    []string
	Tier         int // 0 quick, 1 thorough (vf.Tier)
}

type Stat struct {
	Paths         atomic.Int64
	Branches      atomic.Int64
	AssertQueries atomic.Int64
	UnknownBranch atomic.Int64
	UnknownAssert atomic.Int64
	Steps         atomic.Int64
}

type FirstStat struct {
	Paths   int64
	Solver  float64
	Queries int
	Steps   int64
}

type workItem struct {
	prefix []Decision
	model  smt.Model
}

type PathSample struct {
	Choices []int             `json:"choices,omitempty"`
	PC      []string          `json:"path_condition,omitempty"`
	Witness map[string]string `json:"witness,omitempty"`
	End     string            `json:"end"`
}

type Report struct {
	Harness       string
	Paths         int64
	Completed     int64 // paths that ran to the end of the harness
	Infeasible    int64
	Symbolic      int64 // completed paths with a non-empty path condition
	AbortCounts   map[string]int64
	AbortReasons  map[string]int64
	Branches      int64
	AssertQueries int64
	AssertsUnsat  int64
	AssertsConc   int64
	UnknownBranch int64
	UnknownAssert int64
	Steps         int64
	Reached       map[string]int64
	Violations    []Violation
	Unclean       []string
	Solver        smt.Stats
	Wall          float64
	Funcs         map[string]int64 // functions of the target executed (call counts)
	Samples       []PathSample
	Truncated     bool
	ByFirst       map[int]*FirstStat // profile keyed by the first finite choice of the path
	Decisions     int64 // symbolic/finite decisions taken over all paths
	MaxDepth      int   // longest decision sequence
}

type Engine struct {
	cfg       Config
	prog      *ssa.Program
	pkgs      []*ssa.Package
	harness   *ssa.Package
	sizes     types.Sizes
	frozen    map[*ssa.Global]*value
	frozenPkg map[*ssa.Package]bool
	dynPkg    map[*ssa.Package]bool
	rtErrStr  types.Type
	reflInit  sync.Once
	rtypeM    methodSet
	errM      methodSet
	reflPkg   *ssa.Package
	LoadSecs  float64
	firstOnly int
	dynOrder  []*ssa.Package
	cur       []*interpreter
	tReset, tInit, tRun atomic.Int64
	dynOnce   sync.Once
	dynIndex  map[*ssa.Global]int
	dynTypes  []types.Type

	// per-harness exploration state
	mu         sync.Mutex
	cond       *sync.Cond
	stack      []workItem
	active     int
	stop       bool
	curHarness string
	rep        *Report
	stat       Stat
	vioSeen    map[string]bool
}

// Packages whose init runs once at boot and whose globals are then shared
// read-only by all paths.
var frozenInitAllow = map[string]bool{
	"unicode": true, "unicode/utf8": true, "unicode/utf16": true, "strconv": true,
	"strings": true, "bytes": true, "math": true, "math/bits": true, "sort": true,
	"encoding/base64": true, "encoding/hex": true, "errors": false, "io": true,
	"time": true, "regexp/syntax": true, "regexp": true, "encoding/json": true,
	"context": true, "math/rand": false, "fmt": true, "go/token": true, "go/scanner": true, "internal/fmtsort": true, "slices": true, "cmp": true,
	"html": true, "bufio": true, "encoding": true, "internal/bytealg": false,
}

func Load(cfg Config) (*Engine, error) {
	t0 := time.Now()
	if cfg.Workers <= 0 {
		cfg.Workers = runtime.NumCPU()
	}
	if cfg.MaxSteps == 0 {
		cfg.MaxSteps = 5_000_000
	}
	if cfg.MaxDecisions == 0 {
		cfg.MaxDecisions = 5000
	}
	if cfg.CaseCap == 0 {
		cfg.CaseCap = 16
	}
	if cfg.Solver == "" {
		cfg.Solver = "z3"
	}
	if cfg.Timeout == 0 {
		cfg.Timeout = 10 * time.Second
	}
	if len(cfg.Patterns) == 0 {
		cfg.Patterns = []string{"."}
	}
	env := append(os.Environ(), "GOFLAGS=-mod=mod", "GOPROXY=off", "GOSUMDB=off", "GOTOOLCHAIN=local")
	env = append(env, cfg.Env...)
	pc := &packages.Config{
		Mode:    packages.LoadAllSyntax,
		Dir:     cfg.Dir,
		Overlay: cfg.Overlay,
		Env:     env,
	}
	if len(cfg.BuildTags) > 0 {
		pc.BuildFlags = []string{"-tags=" + strings.Join(cfg.BuildTags, ",")}
	}
	initial, err := packages.Load(pc, cfg.Patterns...)
	if err != nil {
		return nil, err
	}
	var errs []string
	packages.Visit(initial, nil, func(p *packages.Package) {
		for _, e := range p.Errors {
			errs = append(errs, e.Error())
		}
	})
	if len(errs) > 0 {
		return nil, fmt.Errorf("load errors:\n%s", strings.Join(errs, "\n"))
	}
	prog, pkgs := ssautil.AllPackages(initial, ssa.InstantiateGenerics|ssa.SanityCheckFunctions*0)
	prog.Build()
	e := &Engine{cfg: cfg, prog: prog, pkgs: pkgs, frozen: map[*ssa.Global]*value{},
		frozenPkg: map[*ssa.Package]bool{}, dynPkg: map[*ssa.Package]bool{}}
	e.cond = sync.NewCond(&e.mu)
	e.firstOnly = -1
	if v := os.Getenv("SYMGO_FIRST"); v != "" {
		fmt.Sscanf(v, "%d", &e.firstOnly)
	}
	e.sizes = types.SizesFor("gc", "amd64")
	for _, p := range prog.AllPackages() {
		if p.Pkg.Path() == cfg.HarnessPkg {
			e.harness = p
		}
	}
	if e.harness == nil {
		return nil, fmt.Errorf("harness package %q not loaded", cfg.HarnessPkg)
	}
	rt := prog.ImportedPackage("runtime")
	if rt == nil {
		return nil, fmt.Errorf("runtime package not in program")
	}
	e.rtErrStr = rt.Type("errorString").Object().Type()
	for _, p := range prog.AllPackages() {
		path := p.Pkg.Path()
		switch {
		case strings.HasPrefix(path, "github.com/d5/tengo"):
			e.dynPkg[p] = true
			e.dynOrder = append(e.dynOrder, p)
		default:
			e.frozenPkg[p] = true
		}
	}
	sort.Slice(e.dynOrder, func(a, b int) bool { return e.dynOrder[a].Pkg.Path() < e.dynOrder[b].Pkg.Path() })
	if err := e.boot(); err != nil {
		return nil, err
	}
	e.LoadSecs = time.Since(t0).Seconds()
	return e, nil
}

// boot allocates frozen globals and runs the allow-listed package inits once.
func (e *Engine) boot() (err error) {
	for p := range e.frozenPkg {
		for _, m := range p.Members {
			if g, ok := m.(*ssa.Global); ok {
				cell := zero(deref(g.Type()))
				e.frozen[g] = &cell
			}
		}
	}
	i := e.newInterp(nil, nil)
	i.booting = true
	i.resetDynamic()
	i.goroutinesReset()
	i.p = newPath(nil, nil)
	initReflect(i)
	// deterministic order: dependency order is enforced by init functions
	// calling their imports' init; we call each allowed package's init.
	var order []*ssa.Package
	for p := range e.frozenPkg {
		if frozenInitAllow[p.Pkg.Path()] || strings.HasPrefix(p.Pkg.Path(), "verif/") {
			order = append(order, p)
		}
	}
	sort.Slice(order, func(a, b int) bool { return order[a].Pkg.Path() < order[b].Pkg.Path() })
	for _, p := range order {
		func() {
			defer func() {
				if r := recover(); r != nil {
					err = fmt.Errorf("boot: init of %s failed: %v%s\n%s", p.Pkg.Path(), describePanic(r), i.targetStack(), "")
				}
			}()
			call(i, nil, token.NoPos, p.Func("init"), nil)
		}()
		if err != nil {
			return err
		}
	}
	e.reflPkg, e.rtypeM, e.errM = i.reflectPackage, i.rtypeMethods, i.errorMethods
	return nil
}

func describePanic(r interface{}) string {
	switch r := r.(type) {
	case targetPanic:
		return "panic: " + toString(r.v)
	case pathAbort:
		return r.kind.String() + ": " + r.reason
	case error:
		return r.Error()
	}
	return fmt.Sprint(r)
}

func (e *Engine) newInterp(solver *smt.Solver, ctx *smt.Ctx) *interpreter {
	i := &interpreter{
		prog:               e.prog,
		sizes:              e.sizes,
		eng:                e,
		runtimeErrorString: e.rtErrStr,
		solver:             solver,
		funcs:              map[*ssa.Function]int64{},
		envPool:            map[*ssa.Function][][]value{},
	}
	i.ctx = ctx
	if ctx == nil {
		i.ctx = smt.NewCtx()
	}
	i.reflectPackage = e.reflPkg
	i.rtypeMethods = e.rtypeM
	i.errorMethods = e.errM
	return i
}

// resetDynamic gives the interpreter fresh globals for the per-path packages.
func (i *interpreter) resetDynamic() {
	e := i.eng
	e.dynOnce.Do(func() {
		e.dynIndex = map[*ssa.Global]int{}
		for _, p := range e.dynOrder {
			var names []string
			for name, m := range p.Members {
				if _, ok := m.(*ssa.Global); ok {
					names = append(names, name)
				}
			}
			sort.Strings(names)
			for _, name := range names {
				g := p.Members[name].(*ssa.Global)
				e.dynIndex[g] = len(e.dynTypes)
				e.dynTypes = append(e.dynTypes, deref(g.Type()))
			}
		}
	})
	cells := make([]value, len(e.dynTypes))
	for k, t := range e.dynTypes {
		cells[k] = zero(t)
	}
	i.dynCells = cells
	i.dynInited = map[*ssa.Package]bool{}
}

func (e *Engine) push(it workItem) {
	e.mu.Lock()
	e.stack = append(e.stack, it)
	e.mu.Unlock()
	e.cond.Signal()
}

func (e *Engine) noteUnclean(s string) {
	e.mu.Lock()
	if len(e.rep.Unclean) < 200 {
		e.rep.Unclean = append(e.rep.Unclean, s)
	}
	e.mu.Unlock()
}

func (e *Engine) addViolation(v Violation) {
	key := v.Kind + "|" + v.Msg + "|" + v.Site
	e.mu.Lock()
	defer e.mu.Unlock()
	n := 0
	for _, o := range e.rep.Violations {
		if o.Kind+"|"+o.Msg+"|"+o.Site == key {
			n++
		}
	}
	if n < 3 { // keep up to three witnesses per distinct assertion
		e.rep.Violations = append(e.rep.Violations, v)
	}
}

// Harnesses lists the harness functions whose names start with prefix.
func (e *Engine) Harnesses(prefix string) []string {
	var out []string
	for name, m := range e.harness.Members {
		if f, ok := m.(*ssa.Function); ok && strings.HasPrefix(name, prefix) && f.Signature.Params().Len() == 0 && token.IsExported(name) {
			out = append(out, name)
		}
	}
	sort.Strings(out)
	return out
}

// Run explores one harness function exhaustively within the budgets.
func (e *Engine) Run(harness string) *Report {
	fn := e.harness.Func(harness)
	if fn == nil {
		return &Report{Harness: harness, Unclean: []string{"no such harness function"}}
	}
	t0 := time.Now()
	e.rep = &Report{Harness: harness, AbortCounts: map[string]int64{}, AbortReasons: map[string]int64{},
		Reached: map[string]int64{}, Funcs: map[string]int64{}, ByFirst: map[int]*FirstStat{}}
	e.curHarness = harness
	e.stat = Stat{}
	e.stack = []workItem{{}}
	e.active = 0
	e.stop = false
	e.cur = make([]*interpreter, e.cfg.Workers)
	var wg sync.WaitGroup
	stopProgress := make(chan struct{})
	if os.Getenv("SYMGO_PROGRESS") != "" {
		go func() {
			tk := time.NewTicker(10 * time.Second)
			defer tk.Stop()
			for {
				select {
				case <-stopProgress:
					return
				case <-tk.C:
					e.mu.Lock()
					fmt.Fprintf(os.Stderr, "  [%s] paths=%d frontier=%d active=%d violations=%d\n", harness, e.rep.Paths, len(e.stack), e.active, len(e.rep.Violations))
					for w, c := range e.cur {
						if c != nil && c.p != nil {
							fmt.Fprintf(os.Stderr, "      w%d: choices=%v decisions=%d steps=%d queries=%d\n", w, c.p.choices, len(c.p.decisions), c.p.steps, c.solver.St.Queries)
						}
					}
					e.mu.Unlock()
				}
			}
		}()
	}
	var solverStats []smt.Stats
	var smu sync.Mutex
	for w := 0; w < e.cfg.Workers; w++ {
		wg.Add(1)
		go func(w int) {
			defer wg.Done()
			ctx := smt.NewCtx()
			solver, err := smt.NewSolver(ctx, e.cfg.Solver, e.cfg.Timeout)
			if err != nil {
				e.noteUnclean("cannot start solver: " + err.Error())
				return
			}
			defer solver.Close()
			if d := os.Getenv("SYMGO_SMTLOG"); d != "" {
				if f, err := os.Create(fmt.Sprintf("%s/w%d.smt2", d, w)); err == nil {
					solver.Log = f
					defer f.Close()
				}
			}
			i := e.newInterp(solver, ctx)
			e.mu.Lock()
			e.cur[w] = i
			e.mu.Unlock()
			for {
				e.mu.Lock()
				for len(e.stack) == 0 && e.active > 0 && !e.stop {
					e.cond.Wait()
				}
				if e.stop || len(e.stack) == 0 {
					e.mu.Unlock()
					e.cond.Broadcast()
					break
				}
				it := e.stack[len(e.stack)-1]
				e.stack = e.stack[:len(e.stack)-1]
				e.active++
				e.mu.Unlock()

				e.runPath(i, fn, it)

				e.mu.Lock()
				e.active--
				if e.cfg.MaxPaths > 0 && e.rep.Paths >= e.cfg.MaxPaths && !e.stop {
					e.stop = true
					e.rep.Truncated = true
				}
				e.mu.Unlock()
				e.cond.Broadcast()
			}
			smu.Lock()
			solverStats = append(solverStats, solver.St)
			for f, n := range i.funcs {
				e.rep.Funcs[f.String()] += n
			}
			smu.Unlock()
		}(w)
	}
	wg.Wait()
	close(stopProgress)
	for _, s := range solverStats {
		e.rep.Solver.Queries += s.Queries
		e.rep.Solver.Sat += s.Sat
		e.rep.Solver.Unsat += s.Unsat
		e.rep.Solver.Unknown += s.Unknown
		e.rep.Solver.Errors += s.Errors
		e.rep.Solver.Seconds += s.Seconds
		e.rep.Solver.Restarts += s.Restarts
	}
	e.rep.Branches = e.stat.Branches.Load()
	e.rep.AssertQueries = e.stat.AssertQueries.Load()
	e.rep.UnknownBranch = e.stat.UnknownBranch.Load()
	e.rep.UnknownAssert = e.stat.UnknownAssert.Load()
	e.rep.Steps = e.stat.Steps.Load()
	e.rep.Wall = time.Since(t0).Seconds()
	if os.Getenv("SYMGO_DEBUG") != "" {
		fmt.Fprintf(os.Stderr, "  timing: reset=%.2fs init=%.2fs run=%.2fs (summed over workers)\n", float64(e.tReset.Swap(0))/1e9, float64(e.tInit.Swap(0))/1e9, float64(e.tRun.Swap(0))/1e9)
	}
	if e.rep.Truncated {
		e.rep.Unclean = append(e.rep.Unclean, fmt.Sprintf("path budget %d reached: exploration truncated", e.cfg.MaxPaths))
	}
	if e.rep.Solver.Errors > 0 {
		e.rep.Unclean = append(e.rep.Unclean, fmt.Sprintf("%d solver errors (inconclusive queries)", e.rep.Solver.Errors))
	}
	return e.rep
}

// runPath executes the harness once along the given decision prefix.
func (e *Engine) runPath(i *interpreter, fn *ssa.Function, it workItem) {
	tA := time.Now()
	i.resetDynamic()
	e.tReset.Add(int64(time.Since(tA)))
	sec0, q0 := 0.0, 0
	if i.solver != nil {
		sec0, q0 = i.solver.St.Seconds, i.solver.St.Queries
	}
	i.p = newPath(it.prefix, it.model)
	i.hooks = nil
	i.inHook = false
	i.guardLimit = nil
	i.guardDecLimit = nil
	i.acc = nil
	i.realFmt = false
	i.goroutinesReset()
	end := "completed"
	var abort *pathAbort
	func() {
		defer func() {
			r := recover()
			if r == nil {
				return
			}
			switch r := r.(type) {
			case pathAbort:
				if os.Getenv("SYMGO_DEBUG") != "" && (r.kind == abUnsupported || r.kind == abBound || r.kind == abBudget) {
					r.reason += i.panicStack
				}
				abort = &r
				end = r.kind.String() + ": " + r.reason
				switch r.kind {
				case abBudget, abGuardBudget:
					e.recordEnd(i, "hang", "unwinding budget exhausted: "+r.reason)
				case abFatal, abStackOverflow:
					e.recordEnd(i, "fatal", r.reason)
				}
			case targetPanic:
				end = "uncaught panic: " + toString(r.v)
				e.recordPanic(i, end)
			case rtErr:
				end = "uncaught runtime error: " + r.msg
				e.recordPanic(i, end)
			case runtime.Error:
				end = "uncaught runtime error: " + r.Error()
				if os.Getenv("SYMGO_DEBUG") != "" {
					end += "\n" + string(debug.Stack())
				}
				e.recordPanic(i, end)
			default:
				end = fmt.Sprintf("engine failure: %v", r)
				if os.Getenv("SYMGO_DEBUG") != "" {
					end += "\n" + string(debug.Stack())
				}
				e.noteUnclean(end)
			}
		}()
		tC := time.Now()
		defer func() { e.tRun.Add(int64(time.Since(tC))) }()
		call(i, nil, token.NoPos, fn, nil)
		i.finishGoroutines()
	}()
	i.killGoroutines()
	p := i.p
	e.stat.Paths.Add(1)
	e.stat.Steps.Add(p.steps)
	e.mu.Lock()
	defer e.mu.Unlock()
	r := e.rep
	r.Paths++
	if len(p.choices) > 0 && i.solver != nil {
		fs := r.ByFirst[p.choices[0]]
		if fs == nil {
			fs = &FirstStat{}
			r.ByFirst[p.choices[0]] = fs
		}
		fs.Paths++
		fs.Solver += i.solver.St.Seconds - sec0
		fs.Queries += i.solver.St.Queries - q0
		fs.Steps += p.steps
	}
	r.Decisions += int64(len(p.decisions))
	if len(p.decisions) > r.MaxDepth {
		r.MaxDepth = len(p.decisions)
	}
	if abort != nil {
		r.AbortCounts[abort.kind.String()]++
		if abort.kind == abInfeasible {
			r.Infeasible++
		} else if abort.kind != abViolation && abort.kind != abExit {
			key := abort.kind.String() + ": " + abort.reason
			r.AbortReasons[key]++
			if r.AbortReasons[key] == 1 {
				r.Unclean = append(r.Unclean, "path ended: "+key)
			}
		}
	}
	if abort == nil || abort.kind == abExit {
		r.Completed++
		if p.symbolic {
			r.Symbolic++
		}
	}
	r.AssertsUnsat += int64(p.asserts)
	r.AssertsConc += int64(p.assertsC)
	for t := range p.reached {
		r.Reached[t]++
	}
	if len(r.Samples) < 6 && (p.symbolic || len(p.choices) > 0) && (abort == nil || abort.kind == abViolation || abort.kind == abExit) {
		s := PathSample{Choices: append([]int(nil), p.choices...), End: end, Witness: map[string]string{}}
		for k, t := range p.pc {
			if k >= 6 {
				s.PC = append(s.PC, fmt.Sprintf("… (%d more)", len(p.pc)-k))
				break
			}
			s.PC = append(s.PC, t.String())
		}
		if p.hasModel {
			for _, in := range p.inputs {
				s.Witness[in.Name] = fmt.Sprintf("%d", p.model[in.Name]&maskKind(in.Kind))
			}
		}
		r.Samples = append(r.Samples, s)
	}
}

func (e *Engine) recordPanic(i *interpreter, what string) { e.recordEnd(i, "panic", what) }

func (e *Engine) recordEnd(i *interpreter, kind, what string) {
	v := Violation{Harness: e.curHarness, Msg: what, Kind: kind, Inputs: map[string]string{}, Choices: append([]int(nil), i.p.choices...)}
	m := i.currentModelSafe()
	for _, in := range i.p.inputs {
		v.Inputs[in.Name] = fmt.Sprintf("%d", m[in.Name]&maskKind(in.Kind))
	}
	e.addViolation(v)
}

func (i *interpreter) currentModelSafe() (m smt.Model) {
	defer func() {
		if r := recover(); r != nil {
			m = smt.Model{}
		}
	}()
	m = i.currentModel()
	if m == nil {
		m = smt.Model{}
	}
	return
}

func deref(t types.Type) types.Type {
	if p, ok := t.Underlying().(*types.Pointer); ok {
		return p.Elem()
	}
	panic(fmt.Sprintf("deref: not a pointer: %v", t))
}
