package interp

// Cooperative scheduler: target goroutines are real goroutines passing a
// baton, so exactly one runs at a time. Control can change hands only at
// scheduling points (channel operations, select, mutex operations, atomic
// operations, Gosched/Sleep); where more than one goroutine can continue the
// choice is a finite-domain decision of the path (i.choose), which makes the
// schedule part of the explored space.

import (
	"fmt"
	"go/token"
	"go/types"
	"sync"

	"golang.org/x/tools/go/ssa"
)

type goexit struct{}
type gorKill struct{}

type gor struct {
	id      int
	wake    chan struct{}
	done    bool
	blocked func() bool // nil: runnable; else runnable when it returns true
	what    string
}

type scheduler struct {
	gs     []*gor
	cur    *gor
	killed bool
	wg     sync.WaitGroup
	abort  interface{} // panic value raised in a non-main goroutine
	spawned int
	atomicYield bool
}

type pendingSend struct {
	v     value
	taken bool
}

type gchan struct {
	buf    []value
	cap    int
	closed bool
	sendq  []*pendingSend
}

func (c *gchan) length() int {
	if c == nil {
		return 0
	}
	return len(c.buf)
}
func (c *gchan) capacity() int {
	if c == nil {
		return 0
	}
	return c.cap
}

func (i *interpreter) makeChan(n int) *gchan { return &gchan{cap: n} }

func (i *interpreter) goroutinesReset() {
	main := &gor{id: 0, wake: make(chan struct{}, 1)}
	i.sched = &scheduler{gs: []*gor{main}, cur: main}
	i.locks = nil
	i.onceDone = nil
	i.mapRev = false
	i.pools = nil
	i.depth = 0
}

// runnable lists goroutines that can make progress, in id order.
func (s *scheduler) runnable() []*gor {
	var out []*gor
	for _, g := range s.gs {
		if g.done {
			continue
		}
		if g.blocked == nil || g.blocked() {
			out = append(out, g)
		}
	}
	return out
}

func (s *scheduler) liveOthers() int {
	n := 0
	for _, g := range s.gs {
		if !g.done && g != s.cur {
			n++
		}
	}
	return n
}

// switchTo hands the baton to g and parks the current goroutine until it is
// handed back.
func (i *interpreter) switchTo(g *gor) {
	s := i.sched
	me := s.cur
	if g == me {
		return
	}
	s.cur = g
	g.wake <- struct{}{}
	i.park(me)
}

func (i *interpreter) park(me *gor) {
	<-me.wake
	s := i.sched
	if s.killed && me.id != 0 {
		panic(gorKill{})
	}
	if me.id == 0 && s.abort != nil {
		a := s.abort
		s.abort = nil
		panic(a)
	}
}

// yield is a scheduling point for a goroutine that can itself continue.
func (i *interpreter) yield() {
	s := i.sched
	if s == nil || len(s.gs) == 1 || s.liveOthers() == 0 {
		return
	}
	rs := s.runnable()
	if len(rs) <= 1 {
		return // only the current one
	}
	k := i.choose(len(rs))
	i.switchTo(rs[k])
}

// blockUntil parks the current goroutine until pred holds.
func (i *interpreter) blockUntil(pred func() bool, what string) {
	s := i.sched
	for !pred() {
		me := s.cur
		me.blocked, me.what = pred, what
		rs := s.runnable()
		if len(rs) == 0 {
			me.blocked = nil
			panic(pathAbort{abFatal, "fatal error: all goroutines are asleep - deadlock! (" + what + ")"})
		}
		k := 0
		if len(rs) > 1 {
			k = i.choose(len(rs))
		}
		i.switchTo(rs[k])
		me.blocked = nil
	}
}

func (i *interpreter) atomicPoint(p *value, write bool) {
	if i.sched != nil && i.sched.atomicYield {
		i.yield()
	}
}

func (i *interpreter) lockEvent(p *value, what string) {}

func (i *interpreter) spawn(pos token.Pos, fn value, args []value) {
	s := i.sched
	g := &gor{id: len(s.gs), wake: make(chan struct{}, 1)}
	s.gs = append(s.gs, g)
	s.spawned++
	s.wg.Add(1)
	go func() {
		defer s.wg.Done()
		<-g.wake
		if s.killed {
			return
		}
		defer func() {
			r := recover()
			g.done = true
			switch r.(type) {
			case nil, goexit:
			case gorKill:
				return
			default:
				if s.killed {
					return
				}
				// a panic (target or engine) in a non-main goroutine: hand it to main
				if _, isAbort := r.(pathAbort); !isAbort {
					r = pathAbort{abFatal, "panic in goroutine (process crash): " + describePanic(r)}
				}
				s.abort = r
				main := s.gs[0]
				s.cur = main
				main.blocked = nil
				main.wake <- struct{}{}
				return
			}
			// normal termination: pass the baton on
			rs := s.runnable()
			if len(rs) == 0 {
				// everyone else is blocked: deadlock, report through main
				s.abort = pathAbort{abFatal, "fatal error: all goroutines are asleep - deadlock!"}
				main := s.gs[0]
				s.cur = main
				main.wake <- struct{}{}
				return
			}
			k := 0
			if len(rs) > 1 {
				func() {
					defer func() {
						if r := recover(); r != nil {
							s.abort = r
							k = -1
						}
					}()
					k = i.choose(len(rs))
				}()
			}
			if k < 0 {
				main := s.gs[0]
				s.cur = main
				main.wake <- struct{}{}
				return
			}
			s.cur = rs[k]
			rs[k].wake <- struct{}{}
		}()
		call(i, nil, pos, fn, args)
	}()
}

// finishGoroutines lets every remaining goroutine run until done or blocked.
func (i *interpreter) finishGoroutines() {
	s := i.sched
	for {
		var rs []*gor
		for _, g := range s.runnable() {
			if g.id != 0 {
				rs = append(rs, g)
			}
		}
		if len(rs) == 0 {
			return
		}
		// main waits for "some other goroutine finished or blocked"
		k := 0
		if len(rs) > 1 {
			k = i.choose(len(rs))
		}
		me := s.cur
		me.blocked = func() bool { return true }
		i.switchTo(rs[k])
		me.blocked = nil
	}
}

// leaked counts goroutines still alive (blocked) now.
func (i *interpreter) liveGoroutines() int {
	n := 0
	for _, g := range i.sched.gs {
		if !g.done && g.id != 0 {
			n++
		}
	}
	return n
}

// killGoroutines terminates parked goroutines at the end of a path.
func (i *interpreter) killGoroutines() {
	s := i.sched
	if s == nil || len(s.gs) == 1 {
		return
	}
	s.killed = true
	for _, g := range s.gs[1:] {
		if !g.done {
			select {
			case g.wake <- struct{}{}:
			default:
			}
		}
	}
	s.wg.Wait()
}

// ---- channels

func (i *interpreter) chanSend(c *gchan, v value) {
	i.yield()
	if c == nil {
		i.blockUntil(func() bool { return false }, "send on nil channel")
	}
	if c.closed {
		panic(targetPanic{iface{i.runtimeErrorString, "send on closed channel"}})
	}
	if len(c.buf) < c.cap {
		c.buf = append(c.buf, v)
		return
	}
	ps := &pendingSend{v: v}
	c.sendq = append(c.sendq, ps)
	i.blockUntil(func() bool { return ps.taken || c.closed }, "chan send")
	if !ps.taken {
		panic(targetPanic{iface{i.runtimeErrorString, "send on closed channel"}})
	}
}

func recvReady(c *gchan) bool {
	return c != nil && (len(c.buf) > 0 || len(c.sendq) > 0 || c.closed)
}

func (c *gchan) take() (value, bool) {
	if len(c.buf) > 0 {
		v := c.buf[0]
		c.buf = c.buf[1:]
		if len(c.sendq) > 0 {
			ps := c.sendq[0]
			c.sendq = c.sendq[1:]
			c.buf = append(c.buf, ps.v)
			ps.taken = true
		}
		return v, true
	}
	if len(c.sendq) > 0 {
		ps := c.sendq[0]
		c.sendq = c.sendq[1:]
		ps.taken = true
		return ps.v, true
	}
	return nil, false // closed
}

func (i *interpreter) chanRecv(c *gchan) (value, bool) {
	i.yield()
	i.blockUntil(func() bool { return recvReady(c) }, "chan receive")
	return c.take()
}

func (i *interpreter) chanClose(c *gchan) {
	if c == nil {
		panic(targetPanic{iface{i.runtimeErrorString, "close of nil channel"}})
	}
	if c.closed {
		panic(targetPanic{iface{i.runtimeErrorString, "close of closed channel"}})
	}
	c.closed = true
	i.yield()
}

func (i *interpreter) doSelect(fr *frame, instr *ssa.Select) value {
	i.yield()
	type cs struct {
		c    *gchan
		send bool
		v    value
	}
	var cases []cs
	for _, st := range instr.States {
		c := cs{c: fr.get(st.Chan).(*gchan), send: st.Dir == types.SendOnly}
		if c.send {
			c.v = fr.get(st.Send)
		}
		cases = append(cases, c)
	}
	ready := func() []int {
		var r []int
		for k, c := range cases {
			if c.c == nil {
				continue
			}
			if c.send {
				if c.c.closed || len(c.c.buf) < c.c.cap {
					r = append(r, k)
				}
			} else if recvReady(c.c) {
				r = append(r, k)
			}
		}
		return r
	}
	rs := ready()
	chosen := -1
	if len(rs) == 0 {
		if instr.Blocking {
			i.blockUntil(func() bool { return len(ready()) > 0 }, "select")
			rs = ready()
		}
	}
	if len(rs) > 0 {
		k := 0
		if len(rs) > 1 {
			k = i.choose(len(rs))
		}
		chosen = rs[k]
	}
	r := tuple{chosen, false}
	var recvOk bool
	var recv value
	if chosen >= 0 {
		c := cases[chosen]
		if c.send {
			if c.c.closed {
				panic(targetPanic{iface{i.runtimeErrorString, "send on closed channel"}})
			}
			c.c.buf = append(c.c.buf, c.v)
		} else {
			recv, recvOk = c.c.take()
		}
	}
	r[1] = recvOk
	for k, st := range instr.States {
		if st.Dir == types.RecvOnly {
			var v value
			if k == chosen && recvOk {
				v = recv
			} else {
				v = zero(st.Chan.Type().Underlying().(*types.Chan).Elem())
			}
			r = append(r, v)
		}
	}
	return r
}

var _ = fmt.Sprint
