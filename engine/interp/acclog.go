package interp

// Access log and lockset (DESIGN §2.7): every load/store of a heap cell and
// every map operation is attributed to the current harness-declared activity
// together with the strongest lock mode held at that moment. Two activities
// that run sequentially race (for every interleaving of a concurrent run) iff
// one writes a cell the other accesses and the accesses are not ordered by a
// common mutex held in compatible modes.

type actAcc struct {
	read, write bool
	wMode, aMode int // min lock mode over writes / all accesses: 2 Lock, 1 RLock, 0 none
	lock        *value
	mixedLocks  bool
	where       string
}

type accessLog struct {
	cur   int
	cells map[interface{}]map[int]*actAcc
	order []interface{}
}

func (i *interpreter) heldMode() (mode int, lock *value) {
	for p, ls := range i.locks {
		// a goroutine spawned and joined while its parent holds the lock (as
		// RunContext does) is ordered by that lock as well
		if ls.w > 0 {
			return 2, p
		}
	}
	for p, ls := range i.locks {
		if ls.r > 0 {
			return 1, p
		}
	}
	return 0, nil
}

func (i *interpreter) logAccess(cell interface{}, write bool) {
	al := i.acc
	if al == nil || al.cur == 0 {
		return
	}
	m := al.cells[cell]
	if m == nil {
		m = map[int]*actAcc{}
		al.cells[cell] = m
		al.order = append(al.order, cell)
	}
	a := m[al.cur]
	mode, lock := i.heldMode()
	if a == nil {
		a = &actAcc{wMode: 2, aMode: 2, lock: lock}
		if i.curFr != nil {
			a.where = i.curFr.fn.String()
		}
		m[al.cur] = a
	}
	if lock != a.lock {
		a.mixedLocks = true
	}
	if write {
		a.write = true
		if mode < a.wMode {
			a.wMode = mode
		}
		if i.curFr != nil {
			a.where = i.curFr.fn.String()
		}
	} else {
		a.read = true
	}
	if mode < a.aMode {
		a.aMode = mode
	}
}

// races lists conflicting cells between activities.
func (i *interpreter) races() []string {
	var out []string
	al := i.acc
	if al == nil {
		return nil
	}
	for _, cell := range al.order {
		m := al.cells[cell]
		if len(m) < 2 {
			continue
		}
		for x, ax := range m {
			for y, ay := range m {
				if x >= y {
					continue
				}
				if !ax.write && !ay.write {
					continue
				}
				ok := true
				check := func(w, o *actAcc) {
					if !w.write {
						return
					}
					if !(w.wMode == 2 && o.aMode >= 1 && w.lock != nil && w.lock == o.lock && !w.mixedLocks && !o.mixedLocks) {
						ok = false
					}
				}
				check(ax, ay)
				check(ay, ax)
				if !ok {
					w := ax
					if !ax.write {
						w = ay
					}
					out = append(out, "cell written in "+w.where+" is accessed by another activity without a common exclusive lock")
				}
			}
		}
	}
	return out
}
