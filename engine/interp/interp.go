// Copyright 2013 The Go Authors. All rights reserved.
// Use of this source code is governed by a BSD-style
// license that can be found in the LICENSE file.

// Package ssa/interp defines an interpreter for the SSA
// representation of Go programs.
//
// This interpreter is provided as an adjunct for testing the SSA
// construction algorithm.  Its purpose is to provide a minimal
// metacircular implementation of the dynamic semantics of each SSA
// instruction.  It is not, and will never be, a production-quality Go
// interpreter.
//
// The following is a partial list of Go features that are currently
// unsupported or incomplete in the interpreter.
//
// * Unsafe operations, including all uses of unsafe.Pointer, are
// impossible to support given the "boxed" value representation we
// have chosen.
//
// * The reflect package is only partially implemented.
//
// * The "testing" package is no longer supported because it
// depends on low-level details that change too often.
//
// * "sync/atomic" operations are not atomic due to the "boxed" value
// representation: it is not possible to read, modify and write an
// interface value atomically. As a consequence, Mutexes are currently
// broken.
//
// * recover is only partially implemented.  Also, the interpreter
// makes no attempt to distinguish target panics from interpreter
// crashes.
//
// * the sizes of the int, uint and uintptr types in the target
// program are assumed to be the same as those of the interpreter
// itself.
//
// * all values occupy space, even those of types defined by the spec
// to have zero size, e.g. struct{}.  This can cause asymptotic
// performance degradation.
//
// * os.Exit is implemented using panic, causing deferred functions to
// run.
package interp // import "golang.org/x/tools/go/ssa/interp"

import (
	"fmt"
	"sync"
	"go/token"
	"go/types"
	"log"
	"os"
	"runtime"
	"slices"
	"strings"

	"golang.org/x/tools/go/ssa"

	"verif/engine/smt"
)

type continuation int

const (
	kNext continuation = iota
	kReturn
	kJump
)

// Mode is a bitmask of options affecting the interpreter.
type Mode uint

const (
	DisableRecover Mode = 1 << iota // Disable recover() in target programs; show interpreter crash instead.
	EnableTracing                   // Print a trace of all instructions as they are interpreted.
)

type methodSet map[string]*ssa.Function

// State shared between all interpreted goroutines.
type interpreter struct {
	osArgs             []value                // the value of os.Args
	prog               *ssa.Program           // the SSA program
	dynCells           []value                // per-path globals of the dynamic (tengo) packages
	mode               Mode                   // interpreter options
	reflectPackage     *ssa.Package           // the fake reflect package
	errorMethods       methodSet              // the method set of reflect.error, which implements the error interface.
	rtypeMethods       methodSet              // the method set of rtype, which implements the reflect.Type interface.
	runtimeErrorString types.Type             // the runtime.errorString type
	sizes              types.Sizes            // the effective type-sizing function
	goroutines         int32                  // atomically updated

	eng     *Engine
	ctx     *smt.Ctx
	solver  *smt.Solver
	p       *path
	booting bool
	funcs   map[*ssa.Function]int64
	sched   *scheduler
	depth   int
	locks    map[*value]*lockState
	onceDone map[*value]bool
	mapRev   bool // iterate Go maps in reverse insertion order (vf.MapOrder)
	pools    map[*value][]value // sync.Pool free lists (per path)
	hooks    map[string]value // harness-registered callbacks (vf.OnPoll etc.)
	curFr      *frame
	envPool    map[*ssa.Function][][]value
	unwinding  bool
	panicStack string
	dynInited  map[*ssa.Package]bool
	realFmt    bool
	acc        *accessLog
	inHook     bool
	pollCell   *value
	guardLimit []int64
	guardDecLimit []int
	lastGuard  string
}

type deferred struct {
	fn    value
	args  []value
	instr *ssa.Defer
	tail  *deferred
}

type frame struct {
	i                *interpreter
	caller           *frame
	fn               *ssa.Function
	block, prevBlock *ssa.BasicBlock
	env              []value // dynamic values of SSA variables, indexed by info.index
	info             *fnInfo
	locals           []value
	defers           *deferred
	result           value
	panicking        bool
	panic            interface{}
	phitemps         []value // temporaries for parallel phi assignment
}

func (fr *frame) get(key ssa.Value) value {
	switch key := key.(type) {
	case nil:
		// Hack; simplifies handling of optional attributes
		// such as ssa.Slice.{Low,High}.
		return nil
	case *ssa.Function, *ssa.Builtin:
		return key
	case *ssa.Const:
		return constValue(key)
	case *ssa.Global:
		if idx, ok := fr.i.eng.dynIndex[key]; ok {
			if p := key.Pkg; p != nil && !fr.i.dynInited[p] {
				fr.i.ensureInit(p)
			}
			return &fr.i.dynCells[idx]
		}
		if r, ok := fr.i.eng.frozen[key]; ok {
			return r
		}
	}
	if idx, ok := fr.info.index[key]; ok {
		if r := fr.env[idx]; r != nil {
			return r
		}
	}
	panic(fmt.Sprintf("get: no value for %T: %v", key, key.Name()))
}

// runDefer runs a deferred call d.
// It always returns normally, but may set or clear fr.panic.
func (fr *frame) runDefer(d *deferred) {
	if fr.i.mode&EnableTracing != 0 {
		fmt.Fprintf(os.Stderr, "%s: invoking deferred function call\n",
			fr.i.prog.Fset.Position(d.instr.Pos()))
	}
	var ok bool
	defer func() {
		if !ok {
			// Deferred call created a new state of panic.
			fr.panicking = true
			fr.panic = recover()
			switch fr.panic.(type) {
			case pathAbort, goexit, gorKill:
				panic(fr.panic)
			}
		}
	}()
	call(fr.i, fr, d.instr.Pos(), d.fn, d.args)
	ok = true
}

// runDefers executes fr's deferred function calls in LIFO order.
//
// On entry, fr.panicking indicates a state of panic; if
// true, fr.panic contains the panic value.
//
// On completion, if a deferred call started a panic, or if no
// deferred call recovered from a previous state of panic, then
// runDefers itself panics after the last deferred call has run.
//
// If there was no initial state of panic, or it was recovered from,
// runDefers returns normally.
func (fr *frame) runDefers() {
	for d := fr.defers; d != nil; d = d.tail {
		fr.runDefer(d)
	}
	fr.defers = nil
	if fr.panicking {
		panic(fr.panic) // new panic, or still panicking
	}
}

// lookupMethod returns the method set for type typ, which may be one
// of the interpreter's fake types.
func lookupMethod(i *interpreter, typ types.Type, meth *types.Func) *ssa.Function {
	switch typ {
	case rtypeType:
		return i.rtypeMethods[meth.Id()]
	case errorType:
		return i.errorMethods[meth.Id()]
	}
	return i.prog.LookupMethod(typ, meth.Pkg(), meth.Name())
}

// visitInstr interprets a single ssa.Instruction within the activation
// record frame.  It returns a continuation value indicating where to
// read the next instruction from.
func visitInstr(fr *frame, instr ssa.Instruction) continuation {
	i := fr.i
	i.p.steps++
	if n := len(i.guardLimit); n > 0 && i.p.steps > i.guardLimit[n-1] {
		panic(pathAbort{abGuardBudget, "guarded call exceeded its step budget"})
	}
	if i.p.steps > i.eng.cfg.MaxSteps && !i.booting {
		panic(pathAbort{abBudget, fmt.Sprintf("step budget %d exhausted", i.eng.cfg.MaxSteps)})
	}
	switch instr := instr.(type) {
	case *ssa.DebugRef:
		// no-op

	case *ssa.UnOp:
		fr.set(instr, unop(i, instr, fr.get(instr.X)))

	case *ssa.BinOp:
		fr.set(instr, binop(i, instr.Op, instr.X.Type(), fr.get(instr.X), fr.get(instr.Y)))

	case *ssa.Call:
		fn, args := prepareCall(fr, &instr.Call)
		fr.set(instr, call(fr.i, fr, instr.Pos(), fn, args))

	case *ssa.ChangeInterface:
		fr.set(instr, fr.get(instr.X))

	case *ssa.ChangeType:
		fr.set(instr, fr.get(instr.X)) // (can't fail)

	case *ssa.Convert:
		fr.set(instr, conv(i, instr.Type(), instr.X.Type(), fr.get(instr.X)))

	case *ssa.SliceToArrayPointer:
		fr.set(instr, sliceToArrayPointer(instr.Type(), instr.X.Type(), fr.get(instr.X)))

	case *ssa.MakeInterface:
		fr.set(instr, iface{t: instr.X.Type(), v: fr.get(instr.X)})

	case *ssa.Extract:
		fr.set(instr, fr.get(instr.Tuple).(tuple)[instr.Index])

	case *ssa.Slice:
		fr.set(instr, slice(i, fr.get(instr.X), fr.get(instr.Low), fr.get(instr.High), fr.get(instr.Max)))

	case *ssa.Return:
		switch len(instr.Results) {
		case 0:
		case 1:
			fr.result = fr.get(instr.Results[0])
		default:
			var res []value
			for _, r := range instr.Results {
				res = append(res, fr.get(r))
			}
			fr.result = tuple(res)
		}
		fr.block = nil
		return kReturn

	case *ssa.RunDefers:
		fr.runDefers()

	case *ssa.Panic:
		panic(targetPanic{fr.get(instr.X)})

	case *ssa.Send:
		i.chanSend(fr.get(instr.Chan).(*gchan), fr.get(instr.X))

	case *ssa.Store:
		switch addr := fr.get(instr.Addr).(type) {
		case *value:
			if i.acc != nil {
				i.logAccess(addr, true)
			}
			store(deref(instr.Addr.Type()), addr, fr.get(instr.Val))
		case *symptr:
			i.symStore(addr, fr.get(instr.Val))
		default:
			panic(fmt.Sprintf("store: bad address %T", addr))
		}

	case *ssa.If:
		succ := 1
		if i.truth(fr.get(instr.Cond)) {
			succ = 0
		}
		fr.prevBlock, fr.block = fr.block, fr.block.Succs[succ]
		return kJump

	case *ssa.Jump:
		fr.prevBlock, fr.block = fr.block, fr.block.Succs[0]
		return kJump

	case *ssa.Defer:
		fn, args := prepareCall(fr, &instr.Call)
		defers := &fr.defers
		if into := fr.get(instr.DeferStack); into != nil {
			defers = into.(**deferred)
		}
		*defers = &deferred{
			fn:    fn,
			args:  args,
			instr: instr,
			tail:  *defers,
		}

	case *ssa.Go:
		fn, args := prepareCall(fr, &instr.Call)
		i.spawn(instr.Pos(), fn, args)

	case *ssa.MakeChan:
		fr.set(instr, i.makeChan(int(asInt64(i.concreteInt(fr.get(instr.Size), "chan size")))))

	case *ssa.Alloc:
		var addr *value
		if instr.Heap {
			// new
			addr = new(value)
			fr.set(instr, addr)
		} else {
			// local
			addr = fr.env[fr.info.index[instr]].(*value)
		}
		*addr = zero(deref(instr.Type()))

	case *ssa.MakeSlice:
		for _, sz := range []ssa.Value{instr.Len, instr.Cap} {
			if s, ok := fr.get(sz).(*sym); ok {
				// negative sizes panic; fork on that before case-splitting the rest
				if i.branch(i.ctx.Bin(smt.OBVSLT, s.t, i.ctx.BVConst(0, s.t.Sort.W))) {
					panic(runtimeError("runtime error: makeslice: len out of range"))
				}
			}
		}
		c := asInt64(i.concreteInt(fr.get(instr.Cap), "make cap"))
		l := asInt64(i.concreteInt(fr.get(instr.Len), "make len"))
		if l < 0 || c < l {
			panic(runtimeError("runtime error: makeslice: len out of range"))
		}
		if c > 1<<26 {
			panic(pathAbort{abBound, fmt.Sprintf("makeslice cap %d exceeds engine bound", c)})
		}
		slice := make([]value, c)
		tElt := instr.Type().Underlying().(*types.Slice).Elem()
		for i := range slice {
			slice[i] = zero(tElt)
		}
		fr.set(instr, slice[:l])

	case *ssa.MakeMap:
		fr.set(instr, makeMap(instr.Type().Underlying().(*types.Map).Key(), 0))

	case *ssa.Range:
		fr.set(instr, rangeIter(i, fr.get(instr.X), instr.X.Type()))

	case *ssa.Next:
		fr.set(instr, fr.get(instr.Iter).(iter).next())

	case *ssa.FieldAddr:
		fr.set(instr, &(*fr.get(instr.X).(*value)).(structure)[instr.Field])

	case *ssa.Field:
		fr.set(instr, fr.get(instr.X).(structure)[instr.Field])

	case *ssa.IndexAddr:
		x := fr.get(instr.X)
		idx := fr.get(instr.Index)
		var base []value
		switch x := x.(type) {
		case []value:
			base = x
		case *value: // *array
			base = (*x).(array)
		default:
			panic(fmt.Sprintf("unexpected x type in IndexAddr: %T", x))
		}
		if s, ok := idx.(*sym); ok {
			t := i.boundsCheck(s, len(base))
			et := deref(instr.Type())
			if _, ok := scalarKind(et); ok && len(base) <= 4096 {
				fr.set(instr, &symptr{base: base, idx: t, et: et})
			} else {
				j := i.concretize(&sym{k: types.Int64, t: t}, i.eng.cfg.CaseCap, "index")
				fr.set(instr, &base[j])
			}
		} else {
			j := asInt64(idx)
			if j < 0 || j >= int64(len(base)) {
				panic(runtimeError(fmt.Sprintf("runtime error: index out of range [%d] with length %d", j, len(base))))
			}
			fr.set(instr, &base[j])
		}

	case *ssa.Index:
		x := fr.get(instr.X)
		idx := fr.get(instr.Index)
		fr.set(instr, i.index(x, idx, instr.Type()))

	case *ssa.Lookup:
		fr.set(instr, lookup(i, instr, fr.get(instr.X), fr.get(instr.Index)))

	case *ssa.MapUpdate:
		m := fr.get(instr.Map)
		key := fr.get(instr.Key)
		v := fr.get(instr.Value)
		switch m := m.(type) {
		case *omap:
			if m == nil {
				panic(runtimeError("assignment to entry in nil map"))
			}
			if i.acc != nil {
				i.logAccess(m, true)
			}
			m.insert(i, key, v)
		default:
			panic(fmt.Sprintf("illegal map type: %T", m))
		}

	case *ssa.TypeAssert:
		fr.set(instr, typeAssert(fr.i, instr, fr.get(instr.X).(iface)))

	case *ssa.MakeClosure:
		var bindings []value
		for _, binding := range instr.Bindings {
			bindings = append(bindings, fr.get(binding))
		}
		fr.set(instr, &closure{instr.Fn.(*ssa.Function), bindings})

	case *ssa.Phi:
		log.Fatal("unreachable") // phis are processed at block entry

	case *ssa.Select:
		fr.set(instr, i.doSelect(fr, instr))

	default:
		panic(fmt.Sprintf("unexpected instruction: %T", instr))
	}

	return kNext
}

// prepareCall determines the function value and argument values for a
// function call in a Call, Go or Defer instruction, performing
// interface method lookup if needed.
func prepareCall(fr *frame, call *ssa.CallCommon) (fn value, args []value) {
	v := fr.get(call.Value)
	if call.Method == nil {
		// Function call.
		fn = v
	} else {
		// Interface method invocation.
		recv := v.(iface)
		if recv.t == nil {
			panic("method invoked on nil interface")
		}
		if f := lookupMethod(fr.i, recv.t, call.Method); f == nil {
			// Unreachable in well-typed programs.
			panic(fmt.Sprintf("method set for dynamic type %v does not contain %s", recv.t, call.Method))
		} else {
			fn = f
		}
		args = append(args, recv.v)
	}
	for _, arg := range call.Args {
		args = append(args, fr.get(arg))
	}
	return
}

// call interprets a call to a function (function, builtin or closure)
// fn with arguments args, returning its result.
// callpos is the position of the callsite.
func call(i *interpreter, caller *frame, callpos token.Pos, fn value, args []value) value {
	switch fn := fn.(type) {
	case *ssa.Function:
		if fn == nil {
			panic("call of nil function") // nil of func type
		}
		return callSSA(i, caller, callpos, fn, args, nil)
	case *closure:
		return callSSA(i, caller, callpos, fn.Fn, args, fn.Env)
	case *ssa.Builtin:
		return callBuiltin(caller, callpos, fn, args)
	}
	panic(fmt.Sprintf("cannot call %T", fn))
}

func loc(fset *token.FileSet, pos token.Pos) string {
	if pos == token.NoPos {
		return ""
	}
	return " at " + fset.Position(pos).String()
}

// callSSA interprets a call to function fn with arguments args,
// and lexical environment env, returning its result.
// callpos is the position of the callsite.
func callSSA(i *interpreter, caller *frame, callpos token.Pos, fn *ssa.Function, args []value, env []value) value {
	if i.mode&EnableTracing != 0 {
		fset := fn.Prog.Fset
		// TODO(adonovan): fix: loc() lies for external functions.
		fmt.Fprintf(os.Stderr, "Entering %s%s.\n", fn, loc(fset, fn.Pos()))
		suffix := ""
		if caller != nil {
			suffix = ", resuming " + caller.fn.String() + loc(fset, callpos)
		}
		defer fmt.Fprintf(os.Stderr, "Leaving %s%s.\n", fn, suffix)
	}
	fr := &frame{
		i:      i,
		caller: caller, // for panic/recover
		fn:     fn,
	}
	if fn.Parent() == nil {
		if h := i.eng.intercept(fn); h != nil {
			if res, handled := h(fr, args); handled {
				return res
			}
		}
		if fn.Pkg != nil && fn.Name() == "init" && fn.Signature.Recv() == nil && fn == fn.Pkg.Func("init") {
			if i.eng.frozenPkg[fn.Pkg] {
				if !i.booting || !(frozenInitAllow[fn.Pkg.Pkg.Path()] || strings.HasPrefix(fn.Pkg.Pkg.Path(), "verif/")) {
					return nil
				}
			}
		}
		if fn.Blocks == nil {
			panic(unsupported("no code for function: " + fn.String()))
		}
	}
	if fn.Pkg != nil && i.eng.dynPkg[fn.Pkg] {
		if !i.dynInited[fn.Pkg] {
			i.ensureInit(fn.Pkg)
		}
		i.funcs[fn]++
	} else if fn.Pkg == nil {
		if o := fn.Origin(); o != nil && o.Pkg != nil && i.eng.dynPkg[o.Pkg] {
			i.funcs[fn]++
		}
	}
	i.depth++
	i.unwinding = false
	prevFr := i.curFr
	i.curFr = fr
	defer func() { i.depth--; i.curFr = prevFr }()
	if i.depth > maxCallDepth {
		panic(pathAbort{abStackOverflow, "Go call depth exceeded " + fmt.Sprint(maxCallDepth) + " frames in " + fn.String()})
	}

	// generic function body?
	if fn.TypeParams().Len() > 0 && len(fn.TypeArgs()) == 0 {
		panic("interp requires ssa.BuilderMode to include InstantiateGenerics to execute generics")
	}

	fr.info = infoOf(fn)
	if pool := i.envPool[fn]; len(pool) > 0 {
		// reuse: SSA definitions dominate their uses, so stale entries are never read
		fr.env = pool[len(pool)-1]
		i.envPool[fn] = pool[:len(pool)-1]
	} else {
		fr.env = make([]value, fr.info.n)
	}
	fr.block = fn.Blocks[0]
	fr.locals = make([]value, len(fn.Locals))
	for i, l := range fn.Locals {
		fr.locals[i] = zero(deref(l.Type()))
		fr.set(l, &fr.locals[i])
	}
	for i, p := range fn.Params {
		fr.set(p, args[i])
	}
	for i, fv := range fn.FreeVars {
		fr.set(fv, env[i])
	}
	for fr.block != nil {
		runFrame(fr)
	}
	// Destroy the locals to avoid accidental use after return.
	for i := range fn.Locals {
		fr.locals[i] = bad{}
	}
	if fr.info.n >= 64 {
		i.envPool[fn] = append(i.envPool[fn], fr.env)
	}
	return fr.result
}

// runFrame executes SSA instructions starting at fr.block and
// continuing until a return, a panic, or a recovered panic.
//
// After a panic, runFrame panics.
//
// After a normal return, fr.result contains the result of the call
// and fr.block is nil.
//
// A recovered panic in a function without named return parameters
// (NRPs) becomes a normal return of the zero value of the function's
// result type.
//
// After a recovered panic in a function with NRPs, fr.result is
// undefined and fr.block contains the block at which to resume
// control.
func runFrame(fr *frame) {
	defer func() {
		if fr.block == nil {
			return // normal return
		}
		if fr.i.mode&DisableRecover != 0 {
			return // let interpreter crash
		}
		fr.panicking = true
		fr.panic = recover()
		if !fr.i.unwinding {
			fr.i.unwinding = true
			fr.i.panicStack = fr.i.targetStackFrom(fr)
		}
		switch fr.panic.(type) {
		case pathAbort, goexit, gorKill:
			panic(fr.panic) // engine-level termination: target defers do not run
		}
		if fr.i.mode&EnableTracing != 0 {
			fmt.Fprintf(os.Stderr, "Panicking: %T %v.\n", fr.panic, fr.panic)
		}
		fr.runDefers()
		fr.block = fr.fn.Recover
	}()

	for {
		if fr.i.mode&EnableTracing != 0 {
			fmt.Fprintf(os.Stderr, ".%s:\n", fr.block)
		}

		nonPhis := executePhis(fr)
		for _, instr := range nonPhis {
			if fr.i.mode&EnableTracing != 0 {
				if v, ok := instr.(ssa.Value); ok {
					fmt.Fprintln(os.Stderr, "\t", v.Name(), "=", instr)
				} else {
					fmt.Fprintln(os.Stderr, "\t", instr)
				}
			}
			if visitInstr(fr, instr) == kReturn {
				return
			}
			// Inv: kNext (continue) or kJump (last instr)
		}
	}
}

// executePhis executes the phi-nodes at the start of the current
// block and returns the non-phi instructions.
func executePhis(fr *frame) []ssa.Instruction {
	firstNonPhi := -1
	for i, instr := range fr.block.Instrs {
		if _, ok := instr.(*ssa.Phi); !ok {
			firstNonPhi = i
			break
		}
	}
	// Inv: 0 <= firstNonPhi; every block contains a non-phi.

	nonPhis := fr.block.Instrs[firstNonPhi:]
	if firstNonPhi > 0 {
		phis := fr.block.Instrs[:firstNonPhi]
		// Execute parallel assignment of phis.
		//
		// See "the swap problem" in Briggs et al's "Practical Improvements
		// to the Construction and Destruction of SSA Form" for discussion.
		predIndex := slices.Index(fr.block.Preds, fr.prevBlock)
		fr.phitemps = fr.phitemps[:0]
		for _, phi := range phis {
			phi := phi.(*ssa.Phi)
			if fr.i.mode&EnableTracing != 0 {
				fmt.Fprintln(os.Stderr, "\t", phi.Name(), "=", phi)
			}
			fr.phitemps = append(fr.phitemps, fr.get(phi.Edges[predIndex]))
		}
		for i, phi := range phis {
			fr.set(phi.(*ssa.Phi), fr.phitemps[i])
		}
	}
	return nonPhis
}

// doRecover implements the recover() built-in.
func doRecover(caller *frame) value {
	// recover() must be exactly one level beneath the deferred
	// function (two levels beneath the panicking function) to
	// have any effect.  Thus we ignore both "defer recover()" and
	// "defer f() -> g() -> recover()".
	if caller.i.mode&DisableRecover == 0 &&
		caller != nil && !caller.panicking &&
		caller.caller != nil && caller.caller.panicking {
		caller.caller.panicking = false
		p := caller.caller.panic
		caller.caller.panic = nil

		// TODO(adonovan): support runtime.Goexit.
		switch p := p.(type) {
		case targetPanic:
			// The target program explicitly called panic().
			return p.v
		case runtime.Error:
			// The interpreter encountered a runtime error.
			return iface{caller.i.runtimeErrorString, p.Error()}
		case string:
			// The interpreter explicitly called panic().
			return iface{caller.i.runtimeErrorString, p}
		default:
			panic(fmt.Sprintf("unexpected panic type %T in target call to recover()", p))
		}
	}
	return iface{}
}


const maxCallDepth = 2500

var _ = strings.HasPrefix
var _ = runtime.GOOS
var _ = slices.Index[[]int]

// targetStack renders the interpreted call stack (innermost first).
func (i *interpreter) targetStack() string { return i.panicStack }

func (i *interpreter) targetStackFrom(fr *frame) string {
	var sb strings.Builder
	n := 0
	for f := fr; f != nil && n < 25; f = f.caller {
		fmt.Fprintf(&sb, "\n      in %s", f.fn.String())
		if f.block != nil {
			fmt.Fprintf(&sb, " (block %d)", f.block.Index)
		}
		n++
	}
	return sb.String()
}

// fnInfo numbers the SSA values of a function so that frames can keep them in
// a slice (built once per function, read-only afterwards).
type fnInfo struct {
	index map[ssa.Value]int
	n     int
}

var fnInfos sync.Map // *ssa.Function -> *fnInfo

func infoOf(fn *ssa.Function) *fnInfo {
	if v, ok := fnInfos.Load(fn); ok {
		return v.(*fnInfo)
	}
	fi := &fnInfo{index: map[ssa.Value]int{}}
	add := func(v ssa.Value) {
		if _, ok := fi.index[v]; !ok {
			fi.index[v] = fi.n
			fi.n++
		}
	}
	for _, p := range fn.Params {
		add(p)
	}
	for _, fv := range fn.FreeVars {
		add(fv)
	}
	for _, l := range fn.Locals {
		add(l)
	}
	for _, b := range fn.Blocks {
		for _, in := range b.Instrs {
			if v, ok := in.(ssa.Value); ok {
				add(v)
			}
		}
	}
	if os.Getenv("SYMGO_DEBUG") == "3" && fi.n > 1000 {
		fmt.Fprintf(os.Stderr, "fnInfo %s: %d values\n", fn.String(), fi.n)
	}
	v, _ := fnInfos.LoadOrStore(fn, fi)
	return v.(*fnInfo)
}

func (fr *frame) set(key ssa.Value, v value) {
	fr.env[fr.info.index[key]] = v
}

// ensureInit runs the package initialiser of a per-path (tengo) package the
// first time the path touches one of its functions or globals.
func (i *interpreter) ensureInit(p *ssa.Package) {
	if i.dynInited[p] {
		return
	}
	i.dynInited[p] = true
	if f := p.Func("init"); f != nil {
		savedHook := i.inHook
		i.inHook = true // no harness hooks while initialising
		call(i, nil, token.NoPos, f, nil)
		i.inHook = savedHook
	}
}
