// symgo: symbolic execution of Go harnesses over d5/tengo (see DESIGN.md §2).
package main

import (
	"encoding/json"
	"flag"
	"fmt"
	"os"
	"runtime/pprof"
	"strings"
	"time"

	"verif/engine/interp"
)

func main() {
	dir := flag.String("dir", "/verif/harness", "harness module directory")
	pkg := flag.String("pkg", "verif/h", "harness package import path")
	prefix := flag.String("run", "", "harness name prefix (comma separated)")
	workers := flag.Int("workers", 0, "parallel workers")
	maxSteps := flag.Int64("maxsteps", 0, "SSA steps per path")
	maxPaths := flag.Int64("maxpaths", 0, "paths per harness (0 = unlimited)")
	solver := flag.String("solver", "z3-new", "z3 | z3-new | cvc5")
	timeout := flag.Duration("timeout", 10*time.Second, "per-query solver timeout")
	out := flag.String("out", "", "write JSON reports to this file")
	overlay := flag.String("overlay", "", "JSON file {\"path\": \"replacement file\"} of source overlays")
	tier := flag.String("tier", "quick", "quick | thorough")
	maxDec := flag.Int("maxdecisions", 0, "symbolic decisions per path")
	caseCap := flag.Int("casecap", 0, "cap for case-splitting symbolic sizes/indices")
	cpuprof := flag.String("cpuprofile", "", "write a CPU profile")
	flag.Parse()
	if *cpuprof != "" {
		f, err := os.Create(*cpuprof)
		if err != nil {
			fatal(err)
		}
		pprof.StartCPUProfile(f)
		defer pprof.StopCPUProfile()
	}

	cfg := interp.Config{Dir: *dir, HarnessPkg: *pkg, Workers: *workers, MaxSteps: *maxSteps,
		MaxPaths: *maxPaths, Solver: *solver, Timeout: *timeout, CaseCap: *caseCap, MaxDecisions: *maxDec, Patterns: []string{"."}}
	if *tier == "thorough" {
		cfg.Tier = 1
	}
	if *overlay != "" {
		b, err := os.ReadFile(*overlay)
		if err != nil {
			fatal(err)
		}
		var m map[string]string
		if err := json.Unmarshal(b, &m); err != nil {
			fatal(err)
		}
		cfg.Overlay = map[string][]byte{}
		for k, v := range m {
			c, err := os.ReadFile(v)
			if err != nil {
				fatal(err)
			}
			cfg.Overlay[k] = c
		}
	}
	if mf := os.Getenv("SYMGO_MODFILE"); mf != "" {
		// alternative go.mod (the tengo replace directive points at another tree)
		cfg.Env = append(cfg.Env, "GOFLAGS=-mod=mod -modfile="+mf)
	}
	eng, err := interp.Load(cfg)
	if err != nil {
		fatal(err)
	}
	fmt.Fprintf(os.Stderr, "loaded in %.1fs\n", eng.LoadSecs)
	var names []string
	for _, p := range strings.Split(*prefix, ",") {
		names = append(names, eng.Harnesses(p)...)
	}
	var reports []*interp.Report
	for _, n := range names {
		r := eng.Run(n)
		reports = append(reports, r)
		fmt.Fprintf(os.Stderr, "%-40s paths=%d completed=%d infeasible=%d sym=%d branches=%d assertQ=%d unsat=%d conc=%d viol=%d unclean=%d queries=%d solver=%.2fs wall=%.2fs\n",
			n, r.Paths, r.Completed, r.Infeasible, r.Symbolic, r.Branches, r.AssertQueries, r.AssertsUnsat, r.AssertsConc,
			len(r.Violations), len(r.Unclean), r.Solver.Queries, r.Solver.Seconds, r.Wall)
		for _, u := range r.Unclean {
			fmt.Fprintf(os.Stderr, "    unclean: %s\n", u)
		}
		for _, v := range r.Violations {
			fmt.Fprintf(os.Stderr, "    VIOL %s: %s @%s inputs=%v choices=%v\n", v.Kind, v.Msg, v.Site, v.Inputs, v.Choices)
		}
	}
	if *out != "" {
		b, _ := json.MarshalIndent(reports, "", " ")
		if err := os.WriteFile(*out, b, 0o644); err != nil {
			fatal(err)
		}
	}
}

func fatal(err error) {
	fmt.Fprintln(os.Stderr, "symgo:", err)
	os.Exit(2)
}
