"""Source overlays regenerated from /repo's current files on every run.

generate(kinds, workdir) -> ({virtual path: real file}, notes)
  'access' : /repo/zz_verif_access.go  (in-package accessors for harnesses)
  'noopt'  : /repo/compiler.go with an optimizer switch (C03 twin)
"""
import os, re, shutil

ROOT = os.path.dirname(os.path.dirname(os.path.abspath(__file__)))
REPO = os.environ.get('VERIF_REPO', '/repo')


class OverlayError(Exception):
    pass


def generate(kinds, workdir):
    mapping, notes = {}, []
    for k in kinds:
        if k == 'access':
            src = os.path.join(ROOT, 'overlays', 'zz_verif_access.go')
            dst = os.path.join(workdir, 'zz_verif_access.go')
            shutil.copy(src, dst)
            mapping[os.path.join(REPO, 'zz_verif_access.go')] = dst
            notes.append('access: in-package accessor file injected as /repo/zz_verif_access.go')
        elif k == 'noopt':
            p = os.path.join(REPO, 'compiler.go')
            s = open(p).read()
            pat = r'func \(c \*Compiler\) optimizeFunc\(node parser\.Node\) \{'
            if len(re.findall(pat, s)) != 1:
                # keep package h compiling; C03 reports itself broken
                stub = os.path.join(workdir, 'zz_verif_noopt_stub.go')
                open(stub, 'w').write('package tengo\n\n// VerifNoOpt stub: the optimizeFunc anchor was not found.\nvar VerifNoOpt bool\nvar VerifNoOptBroken = true\n')
                mapping[os.path.join(REPO, 'zz_verif_noopt_stub.go')] = stub
                notes.append('BROKEN noopt: anchor "func (c *Compiler) optimizeFunc(node parser.Node) {" not found exactly once in compiler.go')
                continue
                raise OverlayError('noopt: anchor "func (c *Compiler) optimizeFunc(node parser.Node) {" not found exactly once in compiler.go')
            s = re.sub(pat, 'func (c *Compiler) optimizeFuncReal(node parser.Node) {', s)
            s += '''

// ---- added by the verification overlay (tools/overlays.py: noopt) ----

// VerifNoOpt, when true, makes optimizeFunc skip dead-code elimination and
// only append the trailing return (what the compiler relies on).
var VerifNoOpt bool
var VerifNoOptBroken = false

func (c *Compiler) optimizeFunc(node parser.Node) {
	if !VerifNoOpt {
		c.optimizeFuncReal(node)
		return
	}
	// unoptimized twin: keep every instruction; make sure the function ends
	// in a return, as the optimizer's last step does.
	c.emit(node, parser.OpReturn, 0)
}
'''
            dst = os.path.join(workdir, 'compiler_noopt.go')
            open(dst, 'w').write(s)
            mapping[p] = dst
            notes.append('noopt: compiler.go regenerated with optimizeFunc -> optimizeFuncReal and a VerifNoOpt switch')
        else:
            raise OverlayError('unknown overlay kind ' + k)
    return mapping, notes
