"""Per-property configuration of the checks (harness sets, tier budgets, evidence texts)."""

COMMON_STUBS = [
    "package init: only d5/tengo packages are initialised per path; unicode, utf8, utf16, strconv, strings, bytes, math, bits, sort, base64, hex, io, time, regexp, regexp/syntax, encoding/json, context, slices, bufio, html run once at boot and are shared read-only; all other package globals are zero",
    "intrinsics (hand-written semantics): internal/bytealg.{IndexByte,IndexByteString,Count,CountString,Equal,Compare,IndexString,Index,MakeNoZero}, math.{Float64bits,Float64frombits,Abs,IsNaN}, sync.{Mutex,RWMutex,Once,Pool}, sync/atomic Load/Store/Add/CompareAndSwap, strings.Builder.String, unsafe.{String,StringData,Slice,SliceData}, errors.{Is,As}, fmt.{Sprintf,Errorf,Sprint,Fprintf} (message text with symbolic scalar arguments is a placeholder), encoding/gob.Register (no-op)",
    "traps: every exported os/syscall/os/exec/io/ioutil/net entry point and time.Now end the path as 'external effect'",
    "Go maps iterate in insertion order (one of the orders Go permits)",
    "float64->int64 conversion uses the amd64 result (0x8000000000000000 for NaN/out of range)",
]

PROPS = {
    "C10": {
        "level": "model_checking",
        "harness": ["C10_"],
        "tiers": {
            "quick": {"timeout": "20s", "bounds": "value universe U(1,2): 13 runtime types; strings/bytes of 0..2 symbolic bytes; containers of 0..2 elements from {int, 1-byte string, undefined, bool}; full int64/float64/rune/sec,nsec payloads; copy checked on U(2,2)", "cross": 2},
            "thorough": {"timeout": "60s", "bounds": "value universe U(1,3): strings/bytes of 0..3 symbolic bytes; containers of 0..3 elements; copy on U(2,3)", "cross": 3},
        },
        "reach": {"C10_EqSymmetric": ["eqsym"], "C10_EqScript": ["eqscript"], "C10_EqSelf": ["eqself"], "C10_OrderDual": ["orderdual"], "C10_Trichotomy": ["tricho"],
                  "C10_IntChar": ["intchar"], "C10_Truthy": ["truthy"], "C10_TruthyScript": ["truthyscript"], "C10_Copy": ["copy"], "C10_CopyNest": ["copynest"], "C10_Conv": ["conv"]},
        "assumptions": [
            "time values are time.Unix(sec,nsec) with 0<=nsec<1e9 and |sec|<2^55 (no monotonic reading, Local location)",
            "trichotomy assumes non-NaN floats, as the property states",
            "map keys in containers are the concrete names a,b,c; element payloads are symbolic",
            "string(float), string(time), string(container) conversions are checked on a concrete boundary set (strconv float formatting and time formatting are outside the solver's reach); string(int) for |i|<1000",
            "int(string)/float(string): the real strconv.ParseInt/ParseFloat are executed on the symbolic bytes on both sides (strconv is trusted, the plumbing is decided)",
        ],
        "outside": "longer strings/containers; map keys with symbolic content; NaN ordering; user-defined Object types",
        "stubs": COMMON_STUBS,
    },
}

PROPS["C16"] = {
    "level": "model_checking",
    "harness": ["C16_"],
    "tiers": {
        "quick": {"timeout": "20s", "maxsteps": 12000000, "bounds": "19 self-recursion skeletons (8 tail, 5 non-tail, 4 mixing returned and discarded self calls, 2 with other calls after a discarded self call); depth n symbolic in 0..3, accumulator a symbolic int64; base case at concrete depth 1100 (> MaxFrames) for 4 tail skeletons; tail loop of symbolic depth 1..3 entered at call nesting MaxFrames-6..MaxFrames+2 (the last usable frame)", "cross": 2},
        "thorough": {"timeout": "60s", "maxsteps": 12000000, "bounds": "same skeletons; depth n symbolic in 0..6", "cross": 3},
    },
    "reach": {"C16_GenRec": ["genrec"], "C16_Step": ["step"], "C16_Deep": ["deep"], "C16_LastFrame": ["lastframe", "lastframe-unreachable"], "C16_StackBand": ["stackband", "stackband-unreachable"]},
    "assumptions": [
        "frame-space constancy at depth 10^6 is claimed by induction: at every tail re-entry observed at the VM's poll, frame index and operand-stack height equal their values at first entry (checked for all arguments within the depth bound) plus the concrete base case at depth 1100; depth 10^6 itself is not executed",
        "the VM probe is the engine's interception of atomic.LoadInt64(&v.aborting) (once per VM instruction); natively the same probe is not available, so the replay checks results only",
    ],
    "outside": "skeletons outside the list; mutual recursion; depth beyond 1100 executed concretely",
    "stubs": COMMON_STUBS,
}

# Properties not claimed, with the reason (kept current; see DESIGN.md).
NOT_APPLICABLE = {}

PROPS["C02"] = {
    "level": "model_checking",
    "harness": ["C02_", "C03_Lemma"],
    "tiers": {
        "quick": {"timeout": "20s", "maxsteps": 400000000, "casecap": 1100, "bounds": "encoding lemmas: all 42 opcodes x full operand ranges (8/16/32 bit); VM decoders: 4 jump opcodes x all 2^32 targets, OpConstant/OpGetGlobal/OpSetGlobal/OpGetLocal x full index range; monitor: 44 catalog programs, int inputs a,b (full int64, or -1..3 where they bound a loop), bool c. Generated grammar family (gen.go): every statement sequence of <= 2 nodes from 13 atoms (r += x, x = y + 1, y++, m.k += x, block-scoped declaration, immediately-invoked closure reading a captured variable, closure writing a captured variable, closure over three variables, block-local escaping in a closure, self-recursive local function, break, continue, return) and 8 wrappers (if, if-else, if with init, 3-clause for, for-in, condition-only for, endless for with break, function literal + call), plus every nesting W(W'(atom)) and sibling blocks W(escape); W'(atom), rendered in 4 variable-placement contexts (top level: globals; function body: parameters/locals; closure: captured parameter/locals; loop inside a function) - 2506 programs, inputs a, b full int64 and c bool symbolic: static verifier + VM monitor on each; the optimizer lemma of C03 (arbitrary streams of 2..3 instructions with symbolic operand bytes, 4 instructions over the control-flow core) for the clause 'every path ends in a return'", "cross": 1},
        "thorough": {"timeout": "60s", "maxsteps": 400000000, "casecap": 1100, "bounds": "as quick (the catalog and operand ranges are the bound). Generated grammar family (gen.go): every statement sequence of <= 3 nodes (13 atoms, 8 wrappers) in 4 variable-placement contexts - 22092 programs, inputs a, b full int64 and c bool symbolic: static verifier + VM monitor on each", "cross": 2},
    },
    "reach": {"C02_LargeFunction": ["large"], "C02_GenMonitor": ["genmonitor"], "C02_Encoding": ["enc"], "C02_DecodeJump": ["decjump"], "C02_DecodeIndex": ["decidx"], "C02_Monitor": ["monitor"], "C03_Lemma": ["lemma"]},
    "assumptions": [
        "the static well-formedness pass (jump targets, operand ranges, one operand-stack height per instruction, every path ends in a return) is an ordinary Go function run by the engine on each compiled program: it has no symbolic input; the solver decides the encoding lemmas, the VM decoders and the dynamic monitor over all inputs",
        "stack effect of OpCall is taken as -(numArgs) also for spread calls (the VM replaces callee and arguments by one result)",
    ],
    "outside": "programs outside the catalog; functions of source modules (covered by C13's programs only for behaviour); cross-path comparison of stack heights is done statically, not between solver paths",
    "stubs": COMMON_STUBS,
}

PROPS["C03"] = {
    "replay_retries": 4,
    "level": "translation_validation",
    "harness": ["C03_"],
    "tiers": {
        "quick": {"timeout": "20s", "maxsteps": 8000000, "bounds": "twin compile (with / without dead-code elimination) of 12 dead-code programs + 44 catalog + 9 failing programs, inputs a,b int64 (or -1..3 where they bound loops), c bool: identical globals, identical error text incl. positions; optimizer lemma on arbitrary streams of 2..3 instructions from {TRUE,POP,RET 0/1,JMP,JMPF,ANDJMP,ORJMP,GETL,BINARYOP,CONST,CALL} and of 4 instructions from {POP,RET 0/1,JMP,JMPF,ORJMP} with jump targets case-split over every instruction boundary and the end. Generated grammar family (gen.go): every statement sequence of <= 2 nodes from 13 atoms (r += x, x = y + 1, y++, m.k += x, block-scoped declaration, immediately-invoked closure reading a captured variable, closure writing a captured variable, closure over three variables, block-local escaping in a closure, self-recursive local function, break, continue, return) and 8 wrappers (if, if-else, if with init, 3-clause for, for-in, condition-only for, endless for with break, function literal + call), plus every nesting W(W'(atom)) and sibling blocks W(escape); W'(atom), rendered in 4 variable-placement contexts (top level: globals; function body: parameters/locals; closure: captured parameter/locals; loop inside a function) - 2506 programs, inputs a, b full int64 and c bool symbolic: twin compile of each; twin compile of the generated failing programs (one failing statement - int + undefined, -map, for-in over an int, call of an int - at every atom position of every sequence of <= 2 nodes, every nesting W(W'(fail)), and directly after eliminated code W(exit; atom); fail), under both Go-map iteration orders the engine offers; decode/re-encode lemma of iterateInstructions: all 42 opcodes x full operand ranges; optimizer lemma with symbolic operand bytes of GETL/BINARYOP (8 bit), CONST (16 bit), CALL (2 x 8 bit)", "cross": 1},
        "thorough": {"timeout": "60s", "maxsteps": 8000000, "bounds": "as quick; optimizer lemma on streams of 2..5 instructions. Generated grammar family (gen.go): every statement sequence of <= 3 nodes (13 atoms, 8 wrappers) in 4 variable-placement contexts - 22092 programs, inputs a, b full int64 and c bool symbolic: twin compile of each", "cross": 2},
    },
    "reach": {"C03_TwinGen": ["twingen"], "C03_TwinFail": ["twinfail"], "C03_Iterate": ["iterate"], "C03_TwinDead": ["twin"], "C03_TwinCatalog": ["twincat"], "C03_Lemma": ["lemma"]},
    "assumptions": [
        "the unoptimized twin is produced by an overlay of compiler.go generated from the current file (optimizeFunc renamed, a switch added that only appends the trailing return); if the anchor is missing the check reports itself broken",
        "in the lemma, jump targets are finite-domain choices, not wide variables: it is an exhaustive case split within the stream-length bound",
    ],
    "outside": "streams longer than the bound; programs outside the catalog",
    "stubs": COMMON_STUBS,
    "level_text": "translation validation: each program is compiled twice by the real compiler (with and without dead-code elimination) and both are executed symbolically on the same inputs; the optimizer itself is run on arbitrary small streams and its output is checked against a reachability reference",
}

PROPS["C09"] = {
    "level": "model_checking",
    "harness": ["C09_"],
    "tiers": {
        "quick": {"timeout": "20s", "maxsteps": 8000000, "bounds": "10 constructions (immutable/freeze of arrays and maps, nested, storage with spare capacity, freeze of immutable, module export, builtin-module table) x sequences of 1..2 operations from 34 array / 15 map operation templates (incl. the value spread into variadic and fixed parameters) (index/selector assignment, slicing (also empty slices i:i) + writes/append/splice, append + writes, + + writes, copy + writes, splice, delete, for-in with writes, writes through nested/derived/wrapped values and through a function parameter); indices i, j, written value v and element payloads a, b are symbolic int64", "cross": 2},
        "thorough": {"timeout": "60s", "maxsteps": 8000000, "bounds": "as quick (sequence length 1..2); freeze laws on 5 shapes incl. shared sub-structure", "cross": 3},
    },
    "reach": {"C09_FreezeNest": ["freezenest"], "C09_Ops": ["ops"], "C09_Freeze": ["freeze"]},
    "assumptions": [
        "the written value v differs from every original element payload, so 'unchanged' is observable",
        "for shallow-immutable values (immutable(...), module export, builtin table) only the value's own slots are protected: nested mutable containers may change (property: 'merely shallow-immutable')",
        "no mutable alias of the storage exists before: constructions use fresh literals",
    ],
    "outside": "operation sequences longer than 2; user-defined Object types; pre-existing mutable aliases",
    "stubs": COMMON_STUBS,
}

PROPS["C05"] = {
    "level": "model_checking",
    "harness": ["C05_"],
    "tiers": {
        "quick": {"timeout": "20s", "maxsteps": 40000000, "casecap": 40, "bounds": "every builtin x 0..2 arguments (0..3 for range/splice; first from U(1,2), others from an 8-shape lite universe); 15 binary operators x U(1,2) x lite; IndexGet/IndexSet/Iterate/Copy/String/Equals/Call on U(1,2) x lite; each call must end within 60k SSA steps and 64 symbolic decisions (operand sizes <= 3); 36 hostile programs (ill-typed ops, /0, runaway recursion, operand-stack exhaustion, mutation during iteration, builtin misuse, cyclic containers incl. cycles through immutable aliases, range overflow, host functions that panic with a string / error / run-time error / other value) with symbolic int inputs through Compiled.RunContext under the cooperative scheduler, with a live, a never-cancellable and an already-cancelled context (the last also with 3 programs that never terminate on their own)", "cross": 1},
        "thorough": {"timeout": "60s", "maxsteps": 40000000, "casecap": 40, "bounds": "as quick with U(1,3)", "cross": 2},
    },
    "reach": {"C05_Builtins": ["builtins"], "C05_Operators": ["operators"], "C05_Methods": ["methods"], "C05_RunContext": ["runcontext"]},
    "replay_timeout": 40,
    "assumptions": [
        "bytes(N) is called with N <= 16 and range(a,b,step) with |b-a| <= 8: single allocations proportional to an argument are outside the claim; the step is unconstrained",
        "'hang' = a single operation exceeds its unwinding bound of 60k SSA steps / 64 decisions (the native replay confirms with a wall-clock timeout); 'fatal' = Go call depth beyond 2500 interpreted frames (Go's unrecoverable stack overflow), deadlock, or a panic in a goroutine without recover",
        "RunContext is executed with the real goroutine, channel, select, recover and deferred Unlock; the context is a harness-defined context.Context that is never cancelled (cancellation is C07)",
        "String() of a symbolic float or time is skipped (strconv/time formatting loops)",
    ],
    "outside": "out-of-memory, concurrent map access and other fatal errors that are not stack overflow/deadlock; format() (C17); stdlib modules",
    "stubs": COMMON_STUBS,
}

PROPS["C06"] = {
    "level": "model_checking",
    "harness": ["C06_"],
    "tiers": {
        "quick": {"timeout": "20s", "maxsteps": 12000000, "bounds": "MaxStringLen and MaxBytesLen symbolic in 0..12, operand lengths 0..4 (case split), 33 string/bytes-producing operations of the core language (+, string(), bytes(), slicing, format incl. width/*/x/X/q/v, left-justified and padded directives as the last write, literals, host input); allocation budget N symbolic int64 (full range) over 14 allocation programs with symbolic inputs, compared with the unlimited run and with a second budget N2 >= N; tracked-allocation count for N in 0..40; OpCall step from frame indexes {1,2,512,MaxFrames-2..MaxFrames} x stack pointers {1,2,1000,StackSize-3..StackSize}", "cross": 2},
        "thorough": {"timeout": "60s", "maxsteps": 12000000, "bounds": "as quick", "cross": 3},
    },
    "reach": {"C06_StringLimits": ["ok", "limit-error"], "C06_AllocBudget": ["allocs"], "C06_AllocCount": ["count"], "C06_FrameStep": ["frame"]},
    "assumptions": [
        "which operations are tracked allocations is the VM's definition (the property is about the budget the VM tracks)",
        "string contents are concrete ('a'*n): the limit checks compare lengths only",
        "frame index and stack pointer of the OpCall step are boundary values (finite choice), not wide variables",
    ],
    "outside": "limits above 12, operand lengths above 4; stdlib text functions (not core language); type_name() returning fixed names longer than a tiny limit",
    "stubs": COMMON_STUBS,
}

PROPS["C01"] = {
    "level": "model_checking",
    "harness": ["C01_"],
    "tiers": {
        "quick": {"timeout": "20s", "maxsteps": 12000000, "bounds": "out := a OP b for 19 binary operators x U(0,2) x 8-shape lite universe; 4 unary operators x U(1,2); 10 index/slice/selector read+write programs x U(1,2) with symbolic int (or lite) indices; 31 builtins x 0..2 arguments (3 for splice, range); 44 catalog + 9 failing programs with symbolic int/bool inputs; every run compared with the reference evaluator refsem (outcome class and every global). Generated grammar family (gen.go): every statement sequence of <= 2 nodes from 13 atoms (r += x, x = y + 1, y++, m.k += x, block-scoped declaration, immediately-invoked closure reading a captured variable, closure writing a captured variable, closure over three variables, block-local escaping in a closure, self-recursive local function, break, continue, return) and 8 wrappers (if, if-else, if with init, 3-clause for, for-in, condition-only for, endless for with break, function literal + call), plus every nesting W(W'(atom)) and sibling blocks W(escape); W'(atom), rendered in 4 variable-placement contexts (top level: globals; function body: parameters/locals; closure: captured parameter/locals; loop inside a function) - 2506 programs, inputs a, b full int64 and c bool symbolic, each compared with the reference evaluator", "cross": 1},
        "thorough": {"timeout": "60s", "maxsteps": 12000000, "bounds": "as quick with U(.,3). Generated grammar family (gen.go): every statement sequence of <= 3 nodes (13 atoms, 8 wrappers) in 4 variable-placement contexts - 22092 programs, inputs a, b full int64 and c bool symbolic, each compared with the reference evaluator", "cross": 2},
    },
    "reach": {"C01_Alias": ["alias"], "C01_Gen": ["gen"], "C01_BinaryOps": ["binops"], "C01_UnaryOps": ["unops"], "C01_Indexing": ["indexing"], "C01_Builtins": ["builtins"], "C01_Catalog": ["catalog"]},
    "assumptions": [
        "oracle: package refsem (harness/refsem), an AST-walking evaluator written from docs/*.md (see refsem/NOTES.md for every decision where the documents are silent or inconsistent); it is validated natively against the real implementation on 1489 programs + operator/builtin matrices (go test ./refsem/) and is itself executed symbolically here",
        "the right operand of * / % comes from a boundary set (symbolic-by-symbolic 64-bit multiply/divide stalls every solver back end); values that get rendered as decimal text (string + x, string(x), map index) come from boundary sets",
        "error text is compared by class (prefix), not verbatim",
    ],
    "outside": "programs beyond the catalog; format() (C17); modules (C13); map iteration order, append capacity, cyclic containers, clock/random/OS (excluded by the property)",
    "stubs": COMMON_STUBS,
}

PROPS["C04"] = {
    "level": "model_checking",
    "harness": ["C04_", "C03_Lemma"],
    "tiers": {
        "quick": {"timeout": "20s", "maxsteps": 12000000, "casecap": 128, "bounds": "every byte string of length 1..3 (all 256 values per byte) as script source, 1..2 as module body; scanner progress on every byte string of length 1..2; 5 seed programs (one ending in block + line comments) with one arbitrary byte replaced or inserted at every position; 13 literal/comment openers (/* // \" ` ' 0x 1e 1. a. ...) followed by 1..2 arbitrary bytes; 7 templates whose identifier is 1..4 arbitrary identifier-shaped bytes; 20 templates x 17 identifier substitutions x 13 statement substitutions x 4 configurations (module maps, predeclared variables); repetition: an arbitrary unit of 1 byte (2 thorough) repeated 1,2,9..13,20 times, directly or one per line, after 11 literal/comment/bracket openers and before 4 endings, through parser.NewParser/ParseFile and Script.Compile", "cross": 2},
        "thorough": {"timeout": "60s", "maxsteps": 12000000, "casecap": 128, "bounds": "byte strings of length 1..4 (module body 1..3); 10 seed programs with one arbitrary byte replaced/inserted; templates as quick", "cross": 3},
    },
    "reach": {"C04_Repeat": ["repeat"], "C04_Bytes": ["bytes"], "C04_ModuleBody": ["module"], "C04_SeedHole": ["seedhole"], "C04_Openers": ["openers"], "C04_Templates": ["templates"], "C04_ScannerProgress": ["scanner"], "C04_SymIdent": ["symident"]},
    "assumptions": [
        "unicode.IsLetter/IsDigit/IsSpace on a symbolic (non-ASCII) rune are uninterpreted predicates of the rune (over-approximation, sound for totality; counterexamples are replayed natively)",
        "the template family is a finite-domain case split (no wide variable); the byte families are decided for all 256 values of every byte",
        "'returns' = within 3M SSA steps; Go stack exhaustion from deeply nested input needs inputs longer than the bound",
    ],
    "outside": "inputs longer than the bound with more than one arbitrary byte; file import enabled (reaches the OS)",
    "stubs": COMMON_STUBS,
}

PROPS["C11"] = {
    "level": "model_checking",
    "harness": ["C11_"],
    "tiers": {
        "quick": {"timeout": "20s", "maxsteps": 12000000, "bounds": "20 scope programs (copied closures, a block-scoped variable captured by a closure that outlives the block followed by for-in loops re-using its slot, compound assignment, ++/--, selector assignment through global/local/free variables, closures, shadowing, loops, variadics, recursion, failing operations) x {function body, module function, consistent renaming, each marked sub-expression wrapped in an immediately-invoked function literal}; inputs a, b int64 (or -1..3 where they bound loops/recursion), c bool. Generated grammar family (gen.go): the 1085 bodies of <= 2 nodes (and nestings W(W'(atom))) without top-level break/continue/return, each at top level vs inside a function body, inside a closure (captured parameter and locals) and inside a module function", "cross": 2},
        "thorough": {"timeout": "60s", "maxsteps": 12000000, "bounds": "as quick. Generated grammar family: the 4825 relocatable bodies of <= 3 nodes, same four placements", "cross": 3},
    },
    "reach": {"C11_GenRec": ["genrec"], "C11_GenRelocate": ["genrelocate"], "C11_Relocate": ["relocate"]},
    "assumptions": ["transformations are applied to marked program templates by text substitution in the harness; programs in which a closure outlives the loop iteration that declared a captured variable (the documented scope-dependent case) are not in the list",
                    "failing programs are compared by error class, not by position text (positions legitimately move)"],
    "outside": "programs and transformations beyond the list",
    "stubs": COMMON_STUBS,
}

PROPS["C12"] = {
    "level": "translation_validation",
    "harness": ["C12_"],
    "tiers": {
        "quick": {"timeout": "20s", "maxsteps": 12000000, "bounds": "11 constant-heavy programs (source modules imported twice, nested functions, two builtin modules math/text, two object modules without __module_name__ holding bools/undefined/arrays/maps/errors/bytes, a failing program with a multi-line position) + 44 catalog + 9 failing programs compiled with the raw Compiler API. De-duplication: run before and after the real RemoveDuplicates on the same symbolic inputs a, b (int64), c (bool); globals, error text and positions compared; pool soundness checked. Write/read-back: the same programs, with and without de-duplication first, run before and after the codec; pools of 2..4 constants with symbolic int/float/char/string values. Generated grammar family (gen.go): every statement sequence of <= 2 nodes from 13 atoms (r += x, x = y + 1, y++, m.k += x, block-scoped declaration, immediately-invoked closure reading a captured variable, closure writing a captured variable, closure over three variables, block-local escaping in a closure, self-recursive local function, break, continue, return) and 8 wrappers (if, if-else, if with init, 3-clause for, for-in, condition-only for, endless for with break, function literal + call), plus every nesting W(W'(atom)) and sibling blocks W(escape); W'(atom), rendered in 4 variable-placement contexts (top level: globals; function body: parameters/locals; closure: captured parameter/locals; loop inside a function) - 2506 programs, inputs a, b full int64 and c bool symbolic: compile, run; RemoveDuplicates, run; write out/read back, run", "cross": 2},
        "thorough": {"timeout": "60s", "maxsteps": 12000000, "bounds": "as quick. Generated grammar family (gen.go): every statement sequence of <= 3 nodes (13 atoms, 8 wrappers) in 4 variable-placement contexts - 22092 programs, inputs a, b full int64 and c bool symbolic: compile, run; RemoveDuplicates, run; write out/read back, run", "cross": 3},
    },
    "reach": {"C12_ModulePositions": ["modpos"], "C12_Gen": ["gen"], "C12_WriteRead": ["writeread"], "C12_Dedup": ["dedup"], "C12_SymbolicPool": ["pool"]},
    "assumptions": [
        "encoding/gob is reflection-driven and cannot be executed by the engine: in the engine the codec is a MODEL (harness/c12.go gobModel: structurally equal value, every pointer fresh so the true/false/undefined singletons are lost, func fields dropped, empty slices and maps nil, SourceFile.set unset) followed by the REAL fixDecodedObject; the native replay of every counterexample and of sampled passing paths uses the real Bytecode.Encode/Decode, which is what validates the model",
        "constants are the kinds the compiler and RemoveDuplicates accept at top level (int, float, char, string, compiled function, immutable map); RemoveDuplicates panics by design on any other top-level constant type",
    ],
    "outside": "the gob wire format itself (version skew, truncated or hostile input to Decode); user functions inside object-module constants (Decode rejects them by design); the CLI's file handling",
    "stubs": COMMON_STUBS + ["encoding/gob Encode+Decode replaced by gobModel in the engine (real codec in native replay)"],
    "level_text": "translation validation: each program is run on symbolic inputs before and after the real RemoveDuplicates, and before and after write-out/read-back (gob modelled, tengo's decode fix-up real), comparing results, errors and positions; structural post-conditions of the pool are checked",
}

PROPS["C13"] = {
    "level": "model_checking",
    "harness": ["C13_"],
    "tiers": {
        "quick": {"timeout": "20s", "maxsteps": 12000000, "bounds": "all 64 import graphs on 2 source modules + main (edges are finite choices); 9 hand-picked larger graphs (chains, deep diamonds, cycles not through the first module); 13 isolation/immutability/freshness cases with a symbolic input; 29 export expression forms (literals, identifiers, + on arrays, || && ?: yielding containers, slices, calls, copy/append/splice results, nested imports) that must arrive immutable; all ordered pairs of 11 module-map names (several equal after path cleaning), each with its own export; 12 import names (plain, path-like, module-map names) x 3 configurations with file import disabled; file import: up to 3 further configuration calls from {SetImportDir, EnableFileImport(false), SetImports(map), SetImports(empty)} in every order; two embedder-supplied object modules of 3 shapes with symbolic payloads imported in 5 arrangements (directly, twice, through a source module)", "cross": 2},
        "thorough": {"timeout": "60s", "maxsteps": 12000000, "bounds": "all 4096 import graphs on 3 source modules + main; rest as quick", "cross": 3},
    },
    "reach": {"C13_ObjectModules": ["objmods"], "C13_Shapes": ["shape-cycle", "shape-acyclic"], "C13_Graphs": ["cycle", "acyclic"], "C13_Isolation": ["iso-ok", "iso-compile-error", "iso-run-error"], "C13_NoFileSystem": ["nofs"], "C13_ExportImmutable": ["export-immutable"], "C13_Names": ["names"]},
    "assumptions": ["the graph family has no wide variable: it is an exhaustive case split of the edge set (stated in DESIGN.md); 'never consults the file system' = no path reaches an os/io/ioutil/filepath entry point, all of which the engine traps",
                    "'compiled once' is observed as the number of distinct module functions in the constant pool after de-duplication"],
    "outside": "larger graphs; file import enabled (real files)",
    "stubs": COMMON_STUBS,
}

PROPS["C14"] = {
    "replay_retries": 4,
    "level": "model_checking",
    "harness": ["C14_"],
    "tiers": {
        "quick": {"timeout": "20s", "maxsteps": 40000000, "bounds": "systematic placement of the failing statement (C14_Marked): 7 failing forms x {main, function, module body, module function} x {at byte 0, after a lead statement} x 4 dead-code prefixes x 4 tails (no return / return / return + dead code) x {1, 2 modules} x {run once, twice}, expected file and line computed from a marker; 4 multi-line programs (flat, calls nested 3 deep, dead code after returns/continues that shifts instruction offsets, loop + closure) where a symbolic input selects the failing operation; a module program; 6 sentinel/host-error cases; through Run and RunContext. Generated failing programs (gen.go): one statement per line, one failing statement (int + undefined) substituted at every atom position of every sequence of <= 2 nodes and every nesting W(W'(fail)), 4 contexts - 294 programs; whenever the run fails the whole trace (failing line, then the call line of each enclosing function literal and context function, innermost first) must equal the lines computed from the construction; four failing forms (int + undefined, -map, for-in over an int, call of an int), also placed directly after eliminated code, 1640 programs, under both Go-map iteration orders the engine offers", "cross": 2},
        "thorough": {"timeout": "60s", "maxsteps": 40000000, "bounds": "as quick. Generated failing programs: sequences of <= 3 nodes - 1840 programs", "cross": 3},
    },
    "reach": {"C14_Gen": ["gen", "gen-nofail"], "C14_Positions": ["positions"], "C14_Module": ["module"], "C14_Unwrap": ["unwrap"], "C14_Marked": ["marked"]},
    "assumptions": ["locations are compared by file and line (one statement per line in the programs); columns and message wording are not compared",
                    "Go runtime panics converted by RunContext (e.g. 1/0) carry no location and are not in the list"],
    "outside": "programs beyond the list; column accuracy",
    "stubs": COMMON_STUBS,
}

PROPS["C15"] = {
    "level": "model_checking",
    "harness": ["C15_"],
    "tiers": {
        "quick": {"timeout": "20s", "maxsteps": 12000000, "bounds": "Go universe: nil, string(0..2 bytes), int, int64, bool, rune, byte, float64, []byte, error, time.Time, []interface{} of 0..2 scalars, map[string]interface{} with a nested slice, []Object, map[string]Object, Object, payloads symbolic; accessors on U(1,2); histories: 2 Add/Remove steps, Compile, then 3 calls from {Set, Run, Get/IsDefined, Clone (the history may continue on the clone), GetAll} over 4 scripts and 3 names (the third a fresh name or the name of a builtin function) with symbolic values, against a map model; nil/undefined host variables (added, set after compile, through 0..2 clones, run once or twice) inspected by the script", "cross": 2},
        "thorough": {"timeout": "60s", "maxsteps": 12000000, "bounds": "as quick with 5 post-compile calls", "cross": 3},
    },
    "reach": {"C15_CancelledRun": ["cancelledrun"], "C15_AccessorStrings": ["accessorstrings"], "C15_RoundTrip": ["roundtrip"], "C15_Accessors": ["accessors"], "C15_History": ["history"], "C15_Undefined": ["undefined"]},
    "assumptions": ["String() of symbolic floats/times in the accessor check uses boundary values; ints there are in (-1000, 1000)"],
    "outside": "tengo.Eval's templating; user Object implementations; longer histories",
    "stubs": COMMON_STUBS,
}

PROPS["C07"] = {
    "level": "model_checking",
    "harness": ["C07_"],
    "tiers": {
        "quick": {"timeout": "20s", "maxsteps": 12000000, "bounds": "5 programs (counting loop, unbounded self tail call, nested calls, straight-line, builtin-heavy; each terminating and, where possible, running forever) x cancellation instant {before the run starts, at VM poll k for k in 0..7, never} x delay {immediately, 1 poll} before the waiting goroutine is scheduled x goroutine start order; followed by a second RunContext on the same Compiled; the loop bound of the second run is a symbolic input in 0..2; cancellation before or during a host function call that outlasts 1..3 hand-offs to the waiting goroutine (timers, if any, may fire at any scheduling point)", "cross": 0},
        "thorough": {"timeout": "60s", "maxsteps": 12000000, "bounds": "as quick with k in 0..59 and delays up to 2 polls", "cross": 0},
    },
    "reach": {"C07_Cancel": ["cancel"], "C07_HostCall": ["hostcall"]},
    "assumptions": [
        "schedules are explored by a cooperative scheduler: control changes hands only at channel operations, select, mutex operations and where the harness hands off; the VM polls its abort flag once per instruction and the cancellation instant is the poll index",
        "'bounded delay' is claimed as 'no VM instruction is dispatched after the VM observed the abort flag, and RunContext returns once the waiting goroutine has been scheduled (at most 2 polls after the cancellation)', not in wall-clock time",
        "the context is a harness-defined context.Context (Done channel + Err); the context package itself is not executed",
        "natively the replay runs the harness without the poll hook (results only)",
    ],
    "outside": "real goroutine scheduling and real time; a long-running native call (excluded by the property); more than one cancellation",
    "stubs": COMMON_STUBS,
}

PROPS["C08"] = {
    "level": "model_checking",
    "harness": ["C08_"],
    "tiers": {
        "quick": {"timeout": "20s", "maxsteps": 20000000, "bounds": "15 programs that index/iterate/slice shared string constants, use array/map constants, closures, a source module, a builtin module, mutable input containers (array; error value with a map/array payload; nested map/array/bytes), state left in globals by a previous run, failing programs (error-position formatting); clones taken from a fresh or an already-run original; two clones run as two logged activities with symbolic inputs (a, b per clone); the original compared with an identically built object afterwards; 8x8 method pairs {Run, RunContext, Get, GetAll, Set, IsDefined, Clone, Size} on one Compiled over 3 programs", "cross": 0},
        "thorough": {"timeout": "60s", "maxsteps": 20000000, "bounds": "as quick", "cross": 0},
    },
    "replay_retries": 4,
    "reach": {"C08_Clones": ["clones"], "C08_Methods": ["methods"]},
    "race": True,
    "assumptions": [
        "data-race freedom is decided sequentially: two activities race in some interleaving iff one writes a heap cell (interpreter cell: variable, struct field, slice element, map object) that the other reads or writes and the accesses are not ordered by a common sync.Mutex/RWMutex held exclusively by the writer and at least shared by the other; interleavings are not enumerated",
        "K > 2 concurrent clones: pairwise disjointness extends by symmetry (argument, not checked)",
        "accesses inside engine intrinsics (fmt, errors, strings.Builder) are not logged; appends into spare capacity are logged through the element stores of the SSA code only",
    ],
    "outside": "objects a caller keeps after Get and mutates during a Run; user-supplied Go callables; more than two activities",
    "stubs": COMMON_STUBS,
}

PROPS["C17"] = {
    "level": "model_checking",
    "harness": ["C17_"],
    "tiers": {
        "quick": {"timeout": "20s", "maxsteps": 12000000, "casecap": 128, "bounds": "directive = '%' + 1..2 symbolic bytes within the documented directive alphabet (flags # 0 + - space, digits 1 2 3 9, . * [ ], all documented verbs) x 17 argument values of the five mapped types (boundary ints incl. MinInt64 and a non-BMP code point, special floats -0 NaN Inf 1e21 1e-7, non-UTF-8 string, bytes) with '*' widths in -2..2; totality on '%' + 1..3 arbitrary bytes with 0..2 arguments; 24 explicit-index/flag/width formats x 3 argument kinds", "cross": 2},
        "thorough": {"timeout": "60s", "maxsteps": 12000000, "casecap": 128, "bounds": "directive of 1..3 symbolic bytes; rest as quick", "cross": 3},
    },
    "reach": {"C17_FlagPairs": ["flagpairs"], "C17_StarOperand": ["staroperand"], "C17_Star": ["star"], "C17_Sequence": ["sequence"], "C17_Directive": ["directive"], "C17_Total": ["total"], "C17_Indexed": ["indexed"]},
    "assumptions": [
        "both formatters are executed by the engine: tengo.Format and Go's real fmt.Sprintf (non-reflective paths for int64/float64/string/bool/[]byte; reflect.TypeOf(x).String() emulated for %T and bad-verb texts)",
        "argument values are a boundary set (decimal and shortest-float rendering of symbolic numbers is outside the solver's reach); the directive bytes are symbolic",
        "excluded by the property: %q on ints that are not code points, '#' with %x/%X on floats, rendering of surplus arguments",
    ],
    "outside": "directives longer than the bound; widths beyond 2 digits; floats outside the boundary set",
    "stubs": COMMON_STUBS,
}

PROPS["C18"] = {
    "level": "model_checking",
    "harness": ["C18_"],
    "tiers": {
        "quick": {"timeout": "20s", "maxsteps": 12000000, "casecap": 128, "bounds": "decoder input: every byte string of length 1..4 (all 256 values per byte): no panic, fails iff encoding/json.Valid (executed by the engine) rejects it, scalar documents and one-element arrays compared with Go's strconv reading of the literal; round trip on values of depth <= 1: ints and floats from boundary sets, strings of 0..2 symbolic ASCII bytes (incl. control characters, quotes, backslash), bools, undefined, arrays/maps of 0..2 such values", "cross": 2},
        "thorough": {"timeout": "60s", "maxsteps": 12000000, "casecap": 128, "bounds": "decoder input of length 1..5; round-trip strings of arbitrary bytes", "cross": 3},
    },
    "reach": {"C18_DecodeInContext": ["ctx-valid", "ctx-invalid"], "C18_DecodeBytes": ["valid", "invalid"], "C18_RoundTrip": ["roundtrip"]},
    "assumptions": [
        "the reference for validity is Go's encoding/json.Valid (its scanner is executed by the engine); the reference for decoded values is strconv.ParseInt/ParseFloat of the literal text and the body of plain ASCII strings (encoding/json's value decoder is reflective and not executed)",
        "ints in the round trip come from a boundary set (decimal rendering)",
    ],
    "outside": "documents longer than the bound; escapes and non-ASCII text in decoded string *values* (validity is still compared); json.indent/html_escape",
    "stubs": COMMON_STUBS,
}

PROPS["C19"] = {
    "level": "model_checking",
    "harness": ["C19_"],
    "tiers": {
        "quick": {"timeout": "20s", "maxsteps": 12000000, "bounds": "all 47 text, 53 math, 10 base64/hex, 32 clock-independent times functions and the 11 enum functions; 25 math and 33 times constants. Right-typed arguments: strings of 0..1-3 symbolic bytes (the maximum is per function; 7-bit where the function walks Unicode tables) plus concrete non-ASCII samples, ints/floats symbolic where the wrapped Go function is arithmetic and from boundary sets where it renders or parses decimal text (itoa, format_*, parse_*, times), patterns from a fixed list of valid and invalid regular expressions, times as Unix seconds from a boundary set; wrong-typed: every other runtime type per position (13 type tags), every argument count 0..n+1; limits: MaxStringLen/MaxBytesLen symbolic in 0..8 for the size-limited functions", "cross": 2},
        "thorough": {"timeout": "90s", "maxsteps": 20000000, "bounds": "as quick with strings of 0..3 symbolic bytes (any byte value) and longer boundary sets", "cross": 3},
    },
    "reach": {"C19_TextPred": ["text-pred"], "C19_TextXform": ["text-xform"], "C19_TextConv": ["text-conv"], "C19_TextRe": ["text-re"], "C19_TextArgs": ["text-args"], "C19_TextCoerce": ["text-coerce"],
              "C19_Codec": ["codec"], "C19_CodecRoundTrip": ["codec-roundtrip"], "C19_CodecArgs": ["codec-args"], "C19_Limit": ["limit"], "C19_MathConst": ["math-const"], "C19_Math": ["math"], "C19_MathArgs": ["math-args"],
              "C19_TimesConst": ["times-const"], "C19_Times": ["times"], "C19_TimesArgs": ["times-args"], "C19_Enum": ["enum"]},
    "assumptions": [
        "the expected tables (name -> Go function, coercion class per parameter, result wrapping) are written from docs/stdlib-*.md and the conversion table of docs/runtime-types.md, not from the implementation tables; the wrapped Go functions themselves (strings, strconv, regexp, math, encoding/*, time) are executed by the engine on the same symbolic arguments and trusted",
        "parameters documented with a plain type name (not '(compatible)') must accept that type and reject types with no conversion to it; a type that merely converts may be converted or rejected",
        "jn/yn orders, inf sign, time_month/time_day, sub and every function that renders numbers or times take arguments from boundary sets (decimal rendering / 64-bit division stall the solver)",
        "math functions are compared bit-for-bit with the Go function executed by the engine's float intrinsics; NaN results compare equal as NaN",
    ],
    "outside": "clock functions (now, sleep, since, until; date/in_location with zone names other than UTC/Local need the environment); rand, os, fmt, json modules; the Name/Found fields of argument-type errors; strings longer than the bound; MaxStringLen on base64.encode/hex.encode (no limit rule stated by the property)",
    "stubs": COMMON_STUBS,
}

PROPS["C20"] = {
    "level": "model_checking",
    "harness": ["C20_"],
    "tiers": {
        "quick": {"timeout": "20s", "maxsteps": 12000000, "bounds": "precedence: `a OP1 b OP2 c` with OP1 of 1..2 arbitrary bytes and OP2 over the 19 documented binary operators; 19 unary/ternary groupings read off the AST (not the printer); literals: 1..3 arbitrary bytes starting with a digit, '.', or a quote, compared with go/scanner + strconv (executed by the engine); semicolons: a line of 1..2 arbitrary bytes followed by one of 8 newline / comment layouts (line comment, block comment, block then line comment, two block comments, multi-line block comment), compared with go/scanner; print/re-parse: 12 statement forms x expression trees of depth 1 over 14 leaves (incl. signed operands, so nested unary operators occur), 19 binary and 4 unary operators, ternary, parentheses", "cross": 2},
        "thorough": {"timeout": "60s", "maxsteps": 12000000, "bounds": "precedence with both operators of 1..2 arbitrary bytes; literals of 1..4 bytes; lines of 1..3 bytes; print/re-parse with expression depth 2", "cross": 3},
    },
    "reach": {"C20_Precedence": ["left", "right"], "C20_UnaryTernary": ["unary"], "C20_Literals": ["literals"], "C20_LiteralFrames": ["literalframes"], "C20_PrintReparse": ["reparse"], "C20_Semicolons": ["semicolons"]},
    "assumptions": [
        "Go's own go/scanner and strconv are the reference for literals and semicolon insertion and are executed by the engine on the same symbolic bytes",
        "print/re-parse is a finite case split (no wide variable); map keys and module names are plain identifiers as the property requires",
        "float literal values are compared through strconv.ParseFloat on both sides (strconv trusted)",
    ],
    "outside": "longer operators/literals/lines; comments in every legal position (only end-of-line positions)",
    "stubs": COMMON_STUBS,
}


# ---- additions (appended to the bounds texts of both tiers)
CALL_FAMILIES = (" Call families (gen2.go), run like the grammar family: (A) 1668 programs with two function literals f, g, each one of the 15 well-formed combinations of"
                 " 5 signatures (no parameter, one, two, variadic, one + variadic) and 5 bodies that mention only parameters (bodies of different signatures compile to the same instructions; one body fails at run time for a variadic second parameter),"
                 " called with 6 argument forms (0..3 arguments, a spread array, an argument + a spread array), at top level (all pairs) and inside a function (same-body pairs);"
                 " (B) 72 self-recursion programs f(i, n, acc): 6 per-activation preludes (closure over a parameter / over a local / a self-referencing local helper escaping the activation,"
                 " a write through a captured parameter, block-locals of sibling blocks one of which is a self-referencing function) x 6 forms of the recursive call (returned, discarded last statement,"
                 " inside an expression, assigned then returned, wrapped in an immediately-invoked function literal, arm of ?:) x f global / local of a function; depth a & 3 (a symbolic), b symbolic.")
EXTRA = {
    "C01": CALL_FAMILIES,
    "C02": CALL_FAMILIES,
    "C03": CALL_FAMILIES,
    "C12": CALL_FAMILIES + " Module positions (C12_ModulePositions): 10 forms of source-module names (plain, directory parts, absolute, extension, dotted, doubled separator) x 4 failing sites"
           " (module function, module body, through a second module, main after the import) x {de-duplicated first or not}: error text and positions after de-duplication and after write/read-back,"
           " and the file set's answers for the first and last position of every file. Encode/Decode: the real Bytecode.Encode and Bytecode.Decode are executed; only (*gob.Encoder).Encode and"
           " (*gob.Decoder).Decode are a model (values queued; decoded as structurally equal fresh copies: no pointer sharing, unexported fields dropped, empty slices/maps nil).",
    "C11": " Recursion family (C11_GenRec): the 36 programs f(i, n, acc) of gen2.go (6 preludes x 6 call forms, depth a & 3) with f global vs f local to a function body, inside a module function,"
           " and with the recursive call wrapped in an immediately-invoked function literal.",
    "C16": " Recursion family (C16_GenRec): 72 programs of gen2.go (6 preludes with closures that escape the activation x 6 call forms x f global/local), depth a & 3 with a, b symbolic: result and every"
           " value reported by the escaped closures equal the equivalent loop (recRef); for the two tail forms f gets one fresh frame and n in-place re-entries (VM probe), natively depth 3000."
           " Value stack nearly full (C16_StackBand): call nesting 504..511 x 0..3 pending operands (every stack height in a 32-slot window around the capacity of the 2048-slot value stack) x 2 local counts:"
           " where one pass through the body of the tail-recursive function fits, depth n in 1..3 (symbolic) fits.",
    "C17": " '*' operands (C17_Star): 28 directives with one '*' width or precision (d x X o b U c q s f e g t v with flags # 0 + - space) x the boundary values of the kinds the verb applies to,"
           " the '*' operand a solver variable in -70..70 (beyond the formatter's 68-byte scratch buffers). Directive sequences (C17_Sequence): 10 first directives that leave width/precision/flags behind x 18 second"
           " directives without width and precision (the fast path) x 3 ints x the boundary values, in one call and in two consecutive calls (pooled printers).",
    "C18": " Bytes in context (C18_DecodeInContext): 1..3 (thorough 4) arbitrary bytes inside 14 container contexts ([ ], {\"a\": }, [[ ]], [0, ], { :1}, nested object/array, after a partial number/string/literal,"
           " surrounded by white space): validity vs encoding/json.Valid, no panic; flat arrays element-wise against strconv.",
    "C05": " Endless programs (run with a context that is cancelled; natively the cancellation arrives 3 ms after the start): loop, for-in over a growing array, self tail recursion (returned, discarded, with builtin calls).",
}
for _k, _t in EXTRA.items():
    for _tier in ("quick", "thorough"):
        PROPS[_k]["tiers"][_tier]["bounds"] += _t

EXTRA2 = {
    "C01": " Aliasing family (C01_Alias, alias.go): 4 container sources x 15 derivations (copy, freeze, append, slices, +, splice of a copy, array/map literal element, freeze/copy of a wrapper, argument of a call, spread call, immutable(copy)) x writes through the source, through the derived value, and a second derivation from the same source - 420 programs, a, b symbolic.",
    "C02": " Large functions (C02_LargeFunction): function bodies of 7281..7282 repeated statements (65529..65538 bytes of instructions, so jump operands and source-map keys cross 65535) x 3 endings that jump to or over the end of the body; static verifier + monitored run for both values of the final condition (per-path step budget 400M for these).",
    "C04": " Optimizer totality (C03_Lemma, shared with C03): the real optimizeFunc on arbitrary instruction streams of 2..3 instructions (11 opcodes, symbolic operand bytes, every jump target) and of 4 instructions over {POP, RET 0/1, JMP, JMPF, ORJMP}: returns without panic.",
    "C05": " For programs that never terminate on their own the poll at which the waiting goroutine first gets its turn is a choice (1..5); jump-only loops (for {}, for { continue }) are in the list.",
    "C07": " Cancellation by the script's own last statement (mode 3: a host function closes the context, so the result and the cancellation are both pending when RunContext looks; natively the scenario is repeated 60 times); programs whose loop consists of jumps only (for {}, for { continue }, in a function, empty for-in body).",
    "C08": " Method pairs (C08_Methods) also on two programs that update containers held by input variables in place.",
    "C09": " Freeze nestings (C09_FreezeNest): every nesting of up to three of 5 container constructors (mutable / shallow-immutable arrays and maps) around a leaf - 155 shapes: freeze(o) == o, o unchanged, everything reachable immutable, and overwriting every mutable container reachable from o afterwards does not reach the result.",
    "C10": " Copy nestings (C10_CopyNest): the same 155 shapes: copy(o) == o and overwriting every mutable container reachable from the copy (or from the original) leaves the other as it was. Same-object comparisons (C10_EqSelf): alias, the same argument twice, a shared element fetched from two containers, a container holding a function - for every runtime type incl. NaN.",
    "C12": " A data-only object module that carries a module name of its own (application-defined Importable) among the modules.",
    "C14": " C14_Marked also with a twin function literal of the same text (same instructions where the body mentions no literal) defined earlier and never called.",
    "C15": " C15_CancelledRun: Set, RunContext cancelled by the script's last statement, Set, Run, Get on the object or a clone (natively 60 rounds). C15_AccessorStrings: 27 numeric-looking strings at and beyond the int64/float64 range and in other bases, through Variable accessors, a script variable and a clone (concrete boundary set).",
    "C17": " Flag pairs (C17_FlagPairs): '%' + two symbolic flag bytes + ('*' with operand 12 / -12 | literal 12.2) + a symbolic verb byte (restricted to the verbs that apply to the argument's kind) x 8 argument values of every kind (signed and unsigned). '*' operands that are rejected or not ints (C17_StarOperand): 5 formats with a following directive x 9 operands (above 10^6 in magnitude, MinInt64, strings, bytes, float, bool), following int symbolic in -9..9.",
    "C18": " Escape contexts: arbitrary bytes after a partial \\u escape (BMP, surrogate pair, in a key) and after a backslash; decoded strings with escapes are compared with the same Go string literal (strconv.Unquote) where the text is also a Go literal.",
    "C19": " (the engine now implements the Go builtin clear: 200 regexp paths that ended as engine failures are explored)",
    "C20": " Literal frames (C20_LiteralFrames): 1..2 (thorough 3) arbitrary bytes inside 8 char/string literal frames (hex, octal, unicode and single-character escapes, multi-byte runes).",
}
for _k, _t in EXTRA2.items():
    for _tier in ("quick", "thorough"):
        PROPS[_k]["tiers"][_tier]["bounds"] += _t
