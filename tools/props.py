"""Per-property configuration of the checks (harness sets, tier budgets, evidence texts)."""

COMMON_STUBS = [
    "package init: only d5/tengo packages are initialised per path; unicode, utf8, utf16, strconv, strings, bytes, math, bits, sort, base64, hex, io, time, regexp, regexp/syntax, encoding/json, context, slices, bufio, html run once at boot and are shared read-only; all other package globals are zero",
    "intrinsics (hand-written semantics): internal/bytealg.{IndexByte,IndexByteString,Count,CountString,Equal,Compare,IndexString,Index,MakeNoZero}, math.{Float64bits,Float64frombits,Abs,IsNaN}, sync.{Mutex,RWMutex,Once,Pool}, sync/atomic Load/Store/Add/CompareAndSwap, strings.Builder.String, unsafe.{String,StringData,Slice,SliceData}, errors.{Is,As}, fmt.{Sprintf,Errorf,Sprint,Fprintf} (message text with symbolic scalar arguments is a placeholder), encoding/gob.Register (no-op)",
    "traps: every exported os/syscall/os/exec/io/ioutil/net entry point and time.Now end the path as 'external effect'",
    "Go maps iterate in insertion order (one of the orders Go permits)",
    "float64->int64 conversion uses the amd64 result (0x8000000000000000 for NaN/out of range)",
]

PROPS = {
    "C10": {
        "level": "model_checking",
        "harness": ["C10_"],
        "tiers": {
            "quick": {"timeout": "20s", "bounds": "value universe U(1,2): 13 runtime types; strings/bytes of 0..2 symbolic bytes; containers of 0..2 elements from {int, 1-byte string, undefined, bool}; full int64/float64/rune/sec,nsec payloads; copy checked on U(2,2)", "cross": 2},
            "thorough": {"timeout": "60s", "bounds": "value universe U(1,3): strings/bytes of 0..3 symbolic bytes; containers of 0..3 elements; copy on U(2,3)", "cross": 3},
        },
        "reach": {"C10_EqSymmetric": ["eqsym"], "C10_EqScript": ["eqscript"], "C10_OrderDual": ["orderdual"], "C10_Trichotomy": ["tricho"],
                  "C10_IntChar": ["intchar"], "C10_Truthy": ["truthy"], "C10_TruthyScript": ["truthyscript"], "C10_Copy": ["copy"], "C10_Conv": ["conv"]},
        "assumptions": [
            "time values are time.Unix(sec,nsec) with 0<=nsec<1e9 and |sec|<2^55 (no monotonic reading, Local location)",
            "trichotomy assumes non-NaN floats, as the property states",
            "map keys in containers are the concrete names a,b,c; element payloads are symbolic",
            "string(float), string(time), string(container) conversions are checked on a concrete boundary set (strconv float formatting and time formatting are outside the solver's reach); string(int) for |i|<1000",
            "int(string)/float(string): the real strconv.ParseInt/ParseFloat are executed on the symbolic bytes on both sides (strconv is trusted, the plumbing is decided)",
        ],
        "outside": "longer strings/containers; map keys with symbolic content; NaN ordering; user-defined Object types",
        "stubs": COMMON_STUBS,
    },
}

PROPS["C16"] = {
    "level": "model_checking",
    "harness": ["C16_"],
    "tiers": {
        "quick": {"timeout": "20s", "maxsteps": 12000000, "bounds": "13 self-recursion skeletons (8 tail, 5 non-tail); depth n symbolic in 0..3, accumulator a symbolic int64; base case at concrete depth 1100 (> MaxFrames) for 4 tail skeletons", "cross": 2},
        "thorough": {"timeout": "60s", "maxsteps": 12000000, "bounds": "same skeletons; depth n symbolic in 0..6", "cross": 3},
    },
    "reach": {"C16_Step": ["step"], "C16_Deep": ["deep"]},
    "assumptions": [
        "frame-space constancy at depth 10^6 is claimed by induction: at every tail re-entry observed at the VM's poll, frame index and operand-stack height equal their values at first entry (checked for all arguments within the depth bound) plus the concrete base case at depth 1100; depth 10^6 itself is not executed",
        "the VM probe is the engine's interception of atomic.LoadInt64(&v.aborting) (once per VM instruction); natively the same probe is not available, so the replay checks results only",
    ],
    "outside": "skeletons outside the list; mutual recursion; depth beyond 1100 executed concretely",
    "stubs": COMMON_STUBS,
}

# Properties not claimed, with the reason (kept current; see DESIGN.md).
NOT_APPLICABLE = {}
