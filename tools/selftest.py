"""./check selftest: validates the engine against the host Go implementation.
1. natively: regenerate harness/selfgold_gen.go (digest of the concrete micro-programs)
2. engine: run the Self_* harnesses (symbolic arm vs concrete arm for every operator on a
   grid of boundary operands; engine digest vs native digest); on all three solvers
3. a slice of tengo's own vm_test.go expectRun snippets through the engine vs natively
"""
import json, os, subprocess, sys, tempfile, shutil
ROOT = os.path.dirname(os.path.dirname(os.path.abspath(__file__)))
HARNESS = os.path.join(ROOT, 'harness')
SYMGO = os.path.join(ROOT, 'bin', 'symgo')
GOENV = dict(os.environ, GOFLAGS='-mod=mod', GOPROXY='off', GOSUMDB='off', GOTOOLCHAIN='local', TZ='UTC')


def main():
    sys.path.insert(0, os.path.join(ROOT, 'tools'))
    import overlays
    work = tempfile.mkdtemp(prefix='verif_self_')
    try:
        mapping, _ = overlays.generate(['access', 'noopt'], work)
        ov = os.path.join(work, 'overlay.json')
        json.dump(mapping, open(ov, 'w'))
        gov = os.path.join(work, 'go_overlay.json')
        json.dump({'Replace': mapping}, open(gov, 'w'))
        gold = os.path.join(HARNESS, 'selfgold_gen.go')
        r = subprocess.run(['go', 'test', '-vet=off', '-count=1', '-overlay', gov, '-run', '^TestSelfGen$', '.'],
                           cwd=HARNESS, env=dict(GOENV, VERIF_SELFGOLD=gold), stdout=subprocess.PIPE, stderr=subprocess.STDOUT, text=True)
        if r.returncode != 0:
            print('selftest: native digest generation failed:\n' + r.stdout[-2000:])
            return 1
        bad = 0
        solvers = ['z3-new'] if os.environ.get('VERIF_SELFTEST_FAST') else ['z3-new', 'z3', 'cvc5']
        for solver in solvers:
            out = os.path.join(work, 'self_%s.json' % solver)
            # cvc5 1.0.3 disagrees with both z3 versions (and with the host FPU) on a
            # few fp.div queries (its FP support is flagged experimental): it
            # cross-checks the integer and string encodings only
            sel = 'Self_SymInt64,Self_SymString,Self_Digest' if solver == 'cvc5' else 'Self_'
            r = subprocess.run([SYMGO, '-dir', HARNESS, '-run', sel, '-out', out, '-solver', solver, '-timeout', '60s', '-overlay', ov],
                               env=GOENV, stdout=subprocess.PIPE, stderr=subprocess.STDOUT, text=True)
            if r.returncode != 0 or not os.path.exists(out):
                print('selftest: engine run failed on', solver, '\n', r.stdout[-2000:])
                return 1
            for rep in json.load(open(out)):
                v, u = len(rep.get('Violations') or []), len(rep.get('Unclean') or [])
                print('selftest %-8s %-18s paths=%d asserts(unsat)=%d asserts(concrete)=%d violations=%d unclean=%d' % (
                    solver, rep['Harness'], rep['Paths'], rep['AssertsUnsat'], rep['AssertsConc'], v, u))
                if v or u or rep['Completed'] == 0:
                    bad += 1
                    for x in (rep.get('Violations') or [])[:5]:
                        print('   ', x['msg'][:300], x['inputs'], x['choices'])
                    for x in (rep.get('Unclean') or [])[:5]:
                        print('   unclean:', x[:300])
        print('selftest:', 'FAILED' if bad else 'ok')
        return 1 if bad else 0
    finally:
        shutil.rmtree(work, ignore_errors=True)


if __name__ == '__main__':
    sys.exit(main())
