#!/bin/bash
# seedcheck.sh <PROP> <worktree> <k> [extra check ids...]
# Confirms a seeded mutant (suite passes, demo fails with / passes without),
# stores it under /verif/seeded/<PROP>-m<k>/ and runs the check(s) against it.
set -u
VROOT=${VROOT:-$(cd "$(dirname "$0")/.." && pwd)}
PROP=$1; WT=$2; K=$3; shift 3
CHECKS="$PROP $*"
[ -n "${SEED_NOCHECK:-}" ] && CHECKS=""   # confirm and store only
export GOFLAGS=-mod=mod GOPROXY=off GOSUMDB=off GOTOOLCHAIN=local
D=$VROOT/seeded/$PROP-m$K
mkdir -p $D
cp $WT/mut$K.diff $D/patch.diff
cp $WT/mut${K}_demo_test.go.txt $D/demo_test.go.txt
cp $WT/mut${K}_meta.txt $D/meta.txt 2>/dev/null
pkg=$(grep -m1 '^package ' $D/demo_test.go.txt | awk '{print $2}')
case "$pkg" in
  parser|parser_test) dir=parser;;
  stdlib|stdlib_test) dir=stdlib;;
  json|json_test) dir=stdlib/json;;
  *) dir=.;;
esac
cd $WT && git checkout -q -- . && git clean -fdq -e 'mut*' >/dev/null
res_suite=FAIL; res_with=PASS; res_without=FAIL
git apply mut$K.diff || { echo "PATCH DOES NOT APPLY"; exit 3; }
if go build ./... && go test -vet=off -count=1 ./... >/tmp/seed_suite.log 2>&1; then res_suite=PASS; fi
cp $D/demo_test.go.txt $dir/zz_demo_test.go
if ! timeout 120 go test -vet=off -count=1 -run 'Demo|Mut|Seed|Test' ./$dir/ -run "$(grep -o 'func Test[A-Za-z0-9_]*' $dir/zz_demo_test.go | sed 's/func //' | paste -sd'|')" >/tmp/seed_with.log 2>&1; then res_with=FAIL; fi
git checkout -q -- .
if timeout 120 go test -vet=off -count=1 ./$dir/ -run "$(grep -o 'func Test[A-Za-z0-9_]*' $dir/zz_demo_test.go | sed 's/func //' | paste -sd'|')" >/tmp/seed_without.log 2>&1; then res_without=PASS; fi
rm -f $dir/zz_demo_test.go
echo "confirm: suite-with-mutant=$res_suite demo-with-mutant=$res_with demo-on-clean=$res_without"
detected=""
if [ "$res_suite" = PASS ] && [ "$res_with" = FAIL ] && [ "$res_without" = PASS ]; then
  # TARGET: the tree the change is applied to for the checks: /repo itself (default), or a
  # scratch worktree of /repo given as SEED_TARGET (then the checks run with VERIF_REPO)
  TARGET=${SEED_TARGET:-/repo}
  [ "$TARGET" = /repo ] || export VERIF_REPO=$TARGET
  cd $TARGET && git apply $D/patch.diff || { echo "cannot apply to $TARGET"; exit 3; }
  for c in $CHECKS; do
    cd $VROOT && timeout 3000 ./check $c quick > /tmp/seed_check_$c.log 2>&1; rc=$?
    nv=$(grep -c '^VIOLATION' /tmp/seed_check_$c.log)
    echo "check $c: exit=$rc violations=$nv"
    grep -m3 'counterexample' /tmp/seed_check_$c.log | cut -c1-300
    if [ $rc -eq 1 ] && [ $nv -gt 0 ]; then detected="$detected $c"; fi
  done
  git -C $TARGET checkout -- .
  git -C $TARGET status --short | head -3
fi
python3 - <<PY
import json
json.dump({"property":"$PROP","mutant":$K,"suite_passes_with_mutant":"$res_suite"=="PASS","demo_fails_with_mutant":"$res_with"=="FAIL","demo_passes_on_clean_tree":"$res_without"=="PASS",
 "needs": open("$D/meta.txt").read() if __import__('os').path.exists("$D/meta.txt") else "",
 "checks_run":"$CHECKS".split(),"detected_by":"$detected".split(),
 "ran":"git apply patch.diff in a scratch worktree; go test -vet=off -count=1 ./... ; demo test with and without the patch; then git apply to ${SEED_TARGET:-/repo} (/repo or a scratch worktree of it selected with VERIF_REPO), ./check <id> quick, git checkout -- ."},
 open("$D/meta.json","w"),indent=1)
PY
echo "stored in $D (detected by:$detected)"
