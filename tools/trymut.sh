#!/bin/bash
# trymut.sh <patch.diff> <PROP> [harness,...]: apply a seeded change to the scratch tree
# /tmp/repo3 (a worktree of /repo), run the quick check (optionally only some harnesses)
# against it with VERIF_REPO, undo the change. Developer aid.
set -u
T=${TRY_TARGET:-/tmp/repo3}
git -C $T checkout -q -- . && git -C $T apply "$1" || { echo "cannot apply"; exit 3; }
export VERIF_REPO=$T
[ $# -ge 3 ] && export VERIF_ONLY=$3
cd "$(dirname "$0")/.." && timeout 3000 ./check $2 quick 2>&1 | grep -E "^C[0-9]+_|VIOLATION|counterexample|KNOWN|UNCONF|NOTE|^check" | cut -c1-${COLS:-330} | head -${LINES_MAX:-14}
git -C $T checkout -q -- .
