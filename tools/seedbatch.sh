#!/bin/bash
# seedbatch.sh <seed-name> [check ids...]: run quick checks against a scratch worktree of
# /repo with the stored seeded change applied (VERIF_REPO), record the result in meta.json.
# /repo itself is not touched. Logs: $SEEDLOG (default /tmp/seedrun).
set -u
VROOT=${VROOT:-$(cd "$(dirname "$0")/.." && pwd)}
N=$1; shift
P=${N%%-*}
CH=${*:-$P}
LOG=${SEEDLOG:-/tmp/seedrun}; mkdir -p $LOG
WT=$LOG/wt_$N
git -C /repo worktree remove --force $WT >/dev/null 2>&1
git -C /repo worktree add --detach $WT HEAD >/dev/null 2>&1 || { echo "$N worktree fail"; exit 3; }
git -C $WT apply $VROOT/seeded/$N/patch.diff || { echo "$N cannot apply"; git -C /repo worktree remove --force $WT; exit 3; }
detected=""
for c in $CH; do
  s=$(date +%s)
  (cd $VROOT && VERIF_REPO=$WT timeout 3000 ./check $c quick > $LOG/$N.$c.log 2>&1); rc=$?
  nv=$(grep -a -c '^VIOLATION' $LOG/$N.$c.log)
  hs=$(grep -a -o "counterexample: harness=[A-Za-z0-9_]*" $LOG/$N.$c.log | sed 's/.*=//' | sort -u | tr '\n' ' ')
  echo "$N check=$c exit=$rc violations=$nv $(( $(date +%s)-s ))s harnesses: $hs"
  if [ $rc -eq 1 ] && [ $nv -gt 0 ]; then detected="$detected $c"; fi
done
git -C /repo worktree remove --force $WT
python3 - <<PY
import json
p="$VROOT/seeded/$N/meta.json"; m=json.load(open(p))
run="$CH".split(); det="$detected".split()
m["checks_run"]=sorted(set(m.get("checks_run",[]))|set(run))
m["detected_by"]=sorted((set(m.get("detected_by",[]))-set(run))|set(det))
json.dump(m,open(p,"w"),indent=1)
PY
