#!/bin/bash
# nativetest.sh <go test args...>: run `go test` in harness/ natively against /repo
# with the same generated overlays the checks use (developer helper).
export GOFLAGS=-mod=mod GOPROXY=off GOSUMDB=off GOTOOLCHAIN=local
W=$(mktemp -d); trap 'rm -rf $W' EXIT
python3 - "$W" <<PY
import sys, json; sys.path.insert(0,'/verif/tools'); import overlays
m,_=overlays.generate(['access','noopt'], sys.argv[1]); json.dump({'Replace':m}, open(sys.argv[1]+'/ov.json','w'))
PY
cd /verif/harness && go test -vet=off -count=1 -overlay $W/ov.json "$@"
