#!/usr/bin/env python3
"""check <ID> quick|thorough | check <ID> --replay <file> | check selftest | check build

Runs the symbolic engine (bin/symgo) on the harnesses of one property against
/repo's current working tree, replays every counterexample natively, matches
confirmed ones against findings/known_findings.json, writes
evidence/<ID>.json and exits 0 / 1 (VIOLATION line) as MANIFEST.json promises.
"""
import json, os, subprocess, sys, time, shutil, tempfile, hashlib, re

ROOT = os.path.dirname(os.path.dirname(os.path.abspath(__file__)))
HARNESS = os.path.join(ROOT, 'harness')
ENGINE = os.path.join(ROOT, 'engine')
SYMGO = os.path.join(ROOT, 'bin', 'symgo')
GOENV = dict(os.environ, GOFLAGS='-mod=mod', GOPROXY='off', GOSUMDB='off', GOTOOLCHAIN='local',
             TZ='UTC')

sys.path.insert(0, os.path.dirname(os.path.abspath(__file__)))
from props import PROPS  # noqa: E402


def use_alt_repo(workdir):
    """VERIF_REPO=<dir> (developer aid, used to run the checks against a scratch copy of
    d5/tengo with a seeded change while /repo stays untouched): a go.mod whose replace
    directive points at that tree."""
    alt = os.environ.get('VERIF_REPO')
    if not alt or alt == '/repo':
        return
    mod = open(os.path.join(HARNESS, 'go.mod')).read().replace('=> /repo', '=> ' + alt)
    mf = os.path.join(workdir, 'alt.mod')
    open(mf, 'w').write(mod)
    shutil.copy(os.path.join(HARNESS, 'go.sum'), os.path.join(workdir, 'alt.sum'))
    GOENV['GOFLAGS'] = '-mod=mod -modfile=' + mf
    GOENV['SYMGO_MODFILE'] = mf


def log(*a):
    print(*a, flush=True)


def sh(cmd, **kw):
    return subprocess.run(cmd, **kw)


def build_engine():
    """(Re)build bin/symgo when any engine source is newer than the binary."""
    newest = 0
    for d, _, fs in os.walk(ENGINE):
        for f in fs:
            if f.endswith('.go') or f in ('go.mod', 'go.sum'):
                newest = max(newest, os.path.getmtime(os.path.join(d, f)))
    if os.path.exists(SYMGO) and os.path.getmtime(SYMGO) >= newest:
        return
    os.makedirs(os.path.dirname(SYMGO), exist_ok=True)
    r = sh(['go', 'build', '-o', SYMGO, './cmd/symgo'], cwd=ENGINE, env=GOENV)
    if r.returncode != 0:
        log('check: cannot build the engine')
        sys.exit(2)


def gen_registry():
    sh([sys.executable, os.path.join(ROOT, 'tools', 'genreg.py')], check=True)


def make_overlays(prop, workdir):
    """Generated source overlays (regenerated from /repo's current files)."""
    gen = ['access', 'noopt']
    import overlays
    mapping, notes = overlays.generate(gen, workdir)
    path = os.path.join(workdir, 'overlay.json')
    json.dump(mapping, open(path, 'w'))
    return path, notes


def run_symgo(prop, tier, workdir, overlay, seed):
    out = os.path.join(workdir, 'report.json')
    t = prop['tiers'][tier]
    cmd = [SYMGO, '-dir', HARNESS, '-run', ','.join(prop['harness']), '-tier', tier, '-out', out,
           '-solver', t.get('solver', 'z3-new'), '-timeout', t.get('timeout', '20s')]
    if t.get('maxsteps'):
        cmd += ['-maxsteps', str(t['maxsteps'])]
    if t.get('maxpaths'):
        cmd += ['-maxpaths', str(t['maxpaths'])]
    if t.get('casecap'):
        cmd += ['-casecap', str(t['casecap'])]
    if t.get('maxdecisions'):
        cmd += ['-maxdecisions', str(t['maxdecisions'])]
    if overlay:
        cmd += ['-overlay', overlay]
    env = dict(GOENV, VERIF_TIER=tier, VERIF_SEED=str(seed))
    if os.environ.get('VERIF_PROGRESS'):
        env['SYMGO_PROGRESS'] = '1'
    p = subprocess.Popen(cmd, env=env, stdout=subprocess.PIPE, stderr=subprocess.STDOUT, text=True, errors='replace')
    lines = []
    for line in p.stdout:
        lines.append(line)
        sys.stdout.write(line)
        sys.stdout.flush()
    p.wait()
    if p.returncode != 0 or not os.path.exists(out):
        return None, ''.join(lines)
    return json.load(open(out)), ''.join(lines)


class Replayer:
    """Builds the native test binary of the harness package once (against the
    real /repo build, with the same overlays) and runs recorded inputs."""

    def __init__(self, workdir, overlay_json, race=False):
        self.race = race
        self.workdir = workdir
        self.bin = os.path.join(workdir, 'h.test')
        self.built = None
        self.overlay_json = overlay_json
        self.count = 0

    def build(self):
        if self.built is not None:
            return self.built
        cmd = ['go', 'test', '-c', '-vet=off', '-o', self.bin]
        if self.race:
            cmd.append('-race')
        if self.overlay_json:
            m = json.load(open(self.overlay_json))
            ov = os.path.join(self.workdir, 'go_overlay.json')
            json.dump({'Replace': m}, open(ov, 'w'))
            cmd += ['-overlay', ov]
        cmd += ['.']
        r = sh(cmd, cwd=HARNESS, env=GOENV, stdout=subprocess.PIPE, stderr=subprocess.STDOUT, text=True, errors='replace')
        self.built = r.returncode == 0
        if not self.built:
            log('check: native replay build failed:\n' + r.stdout[-3000:])
        return self.built

    def run(self, replay_path, timeout=30, tier='quick'):
        """returns (status, detail): reproduced | not-reproduced | hang | crash | error"""
        if not self.build():
            return 'error', 'native build failed'
        self.count += 1
        env = dict(GOENV, VERIF_REPLAY=replay_path, VERIF_TIER=tier)
        try:
            r = sh(['bash', '-c', 'ulimit -v 8000000; exec "$0" -test.run "^TestReplay$" -test.v -test.timeout %ds' % (timeout + 5), self.bin],
                   cwd=HARNESS, env=env, stdout=subprocess.PIPE, stderr=subprocess.STDOUT, text=True, errors='replace', timeout=timeout)
        except subprocess.TimeoutExpired:
            return 'hang', 'native run did not finish within %ds' % timeout
        out = r.stdout
        if 'WARNING: DATA RACE' in out or 'race detected during execution' in out:
            return 'reproduced', 'data race reported by the Go race detector'
        if 'VERIF-REPRODUCED' in out:
            m = re.search(r'VERIF-REPRODUCED: (.*)', out)
            return 'reproduced', m.group(1) if m else ''
        if 'VERIF-NOT-REPRODUCED' in out and r.returncode == 0:
            return 'not-reproduced', ''
        if r.returncode != 0:
            tail = out[-600:]
            if 'fatal error' in out or 'signal:' in out or 'panic:' in out or 'test timed out' in out:
                return 'crash', tail
            return 'error', tail
        return 'error', out[-600:]


def load_findings():
    p = os.path.join(ROOT, 'findings', 'known_findings.json')
    if not os.path.exists(p):
        return {'findings': [], 'fixed': []}
    return json.load(open(p))


def match_finding(pid, v, findings):
    for f in findings.get('findings', []):
        if f['property'] != pid or f['harness'] != v['harness']:
            continue
        if 'msg' in f and f['msg'] != v['msg']:
            continue
        if 'msg_prefix' in f and not v['msg'].startswith(f['msg_prefix']):
            continue
        if 'msg_regex' in f and not re.search(f['msg_regex'], v['msg'], re.S):
            continue
        if 'msgs_file' in f:
            # exact messages (one per line) committed next to the findings file
            if '_msgs' not in f:
                with open(os.path.join(ROOT, 'findings', f['msgs_file']), encoding='utf-8', errors='replace') as fh:
                    f['_msgs'] = set(l.rstrip('\n') for l in fh)
            if v['msg'].replace('\n', '\\n') not in f['_msgs']:
                continue
        ca = f.get('choices_at')
        if ca is not None:
            ok = True
            for idx, allowed in ca.items():
                k = int(idx)
                if k >= len(v['choices']) or v['choices'][k] not in allowed:
                    ok = False
            if not ok:
                continue
        cp = f.get('choices_prefix')
        if cp is not None and v['choices'][:len(cp)] != cp:
            continue
        ce = f.get('choices_eq')
        if ce is not None and v['choices'] != ce:
            continue
        return f
    return None


def main():
    if len(sys.argv) >= 2 and sys.argv[1] == 'build':
        build_engine()
        gen_registry()
        return 0
    if len(sys.argv) >= 2 and sys.argv[1] == 'selftest':
        build_engine()
        gen_registry()
        import selftest
        return selftest.main()
    if len(sys.argv) < 3:
        log(__doc__)
        return 2
    pid = sys.argv[1]
    if pid not in PROPS:
        log('check: unknown property', pid)
        return 2
    prop = PROPS[pid]
    if os.environ.get('VERIF_ONLY'):
        # developer aid: run a subset of the harnesses; evidence goes to a scratch file
        prop = dict(prop, harness=os.environ['VERIF_ONLY'].split(','))
    build_engine()
    gen_registry()
    seed = int(os.environ.get('VERIF_SEED', '0') or 0)
    workdir = tempfile.mkdtemp(prefix='verif_%s_' % pid)
    use_alt_repo(workdir)
    try:
        if sys.argv[2] == '--replay':
            return do_replay(pid, prop, sys.argv[3], workdir)
        tier = sys.argv[2]
        if tier not in ('quick', 'thorough'):
            log('check: tier must be quick or thorough')
            return 2
        return do_check(pid, prop, tier, seed, workdir)
    finally:
        shutil.rmtree(workdir, ignore_errors=True)


def do_replay(pid, prop, path, workdir):
    overlay, _ = make_overlays(prop, workdir)
    rp = Replayer(workdir, overlay, race=prop.get('race', False))
    status, detail = rp.run(os.path.abspath(path), timeout=60)
    log('replay %s: %s %s' % (path, status, detail))
    if status in ('reproduced', 'hang', 'crash'):
        log('VIOLATION property=%s replay=%s' % (pid, path))
        return 1
    return 0


def do_check(pid, prop, tier, seed, workdir):
    t0 = time.time()
    overlay, onotes = make_overlays(prop, workdir)
    reports, raw = run_symgo(prop, tier, workdir, overlay, seed)
    if reports is None:
        log('check: engine run failed for %s' % pid)
        write_evidence(pid, prop, tier, seed, [], [], [], ['engine run failed'], time.time() - t0, 0, broken=True)
        return 2
    findings = load_findings()
    rp = Replayer(workdir, overlay, race=prop.get('race', False))
    repdir = os.path.join(ROOT, 'replays', pid + ('.alt' if os.environ.get('VERIF_REPO') else ''))
    shutil.rmtree(repdir, ignore_errors=True)
    os.makedirs(repdir, exist_ok=True)
    confirmed, known, unconfirmed, unclean = [], [], [], []
    n = 0
    for r in reports:
        for u in r.get('Unclean') or []:
            # budget/fatal ends are replayed as candidate violations below
            unclean.append('%s: %s' % (r['Harness'], u))
        for v in r.get('Violations') or []:
            n += 1
            rec = {'harness': v['harness'], 'inputs': v['inputs'], 'choices': v['choices'] or [],
                   'msg': v['msg'], 'kind': v['kind'], 'site': v.get('site', ''), 'property': pid, 'tier': tier}
            path = os.path.join(repdir, '%03d.json' % n)
            json.dump(rec, open(path, 'w'), indent=1)
            expect_native = {'assert': ('reproduced', 'crash', 'hang'), 'panic': ('reproduced', 'crash'),
                             'hang': ('hang', 'reproduced'), 'fatal': ('crash', 'hang', 'reproduced')}[v['kind']]
            status, detail = rp.run(path, timeout=prop.get('replay_timeout', 30), tier=tier)
            # schedule-dependent native confirmations (race detector) get more than one try
            tries = 1
            while status not in expect_native and tries < prop.get('replay_retries', 1):
                status, detail = rp.run(path, timeout=prop.get('replay_timeout', 30), tier=tier)
                tries += 1
            rec['native'] = status
            rec['native_detail'] = detail[:400]
            json.dump(rec, open(path, 'w'), indent=1)
            if status in expect_native:
                f = match_finding(pid, rec, findings)
                if f:
                    known.append((f, rec, path))
                else:
                    confirmed.append((rec, path))
            else:
                f = match_finding(pid, rec, findings)
                if f:
                    # a listed finding whose native confirmation did not fire in this run
                    known.append((f, rec, path))
                else:
                    unconfirmed.append((rec, path, status))
    # cross-check: replay a sample of passing paths natively (engine vs real build)
    passing_checked, passing_bad = 0, []
    for r in reports:
        k = 0
        for s in r.get('Samples') or []:
            if s.get('end') != 'completed' or k >= prop['tiers'][tier].get('cross', 2):
                continue
            k += 1
            rec = {'harness': r['Harness'], 'inputs': s.get('witness') or {}, 'choices': s.get('choices') or []}
            path = os.path.join(workdir, 'pass_%s_%d.json' % (r['Harness'], k))
            json.dump(rec, open(path, 'w'))
            status, detail = rp.run(path, timeout=prop.get('replay_timeout', 30), tier=tier)
            passing_checked += 1
            if status != 'not-reproduced':
                passing_bad.append('%s: passing path fails natively (%s %s) inputs=%s choices=%s' % (r['Harness'], status, detail[:200], rec['inputs'], rec['choices']))
    # vacuity: every expected reach tag must have been reached
    for r in reports:
        for tag in prop.get('reach', {}).get(r['Harness'], []):
            if not (r.get('Reached') or {}).get(tag):
                unclean.append('%s: vacuity witness %r not reached' % (r['Harness'], tag))
        if r['Paths'] > 0 and r['Completed'] == 0 and not r.get('Violations'):
            unclean.append('%s: no path ran to completion' % r['Harness'])
    for b in passing_bad:
        unclean.append('ENGINE-MISMATCH ' + b)
    wall = time.time() - t0
    write_evidence(pid, prop, tier, seed, reports, confirmed, known, unclean, wall, rp.count,
                   unconfirmed=unconfirmed, passing_checked=passing_checked, onotes=onotes)
    seen = set()
    for f, rec, path in known:
        if f['id'] in seen:
            continue
        seen.add(f['id'])
        log('KNOWN-FINDING: property=%s %s [%s]' % (pid, f['what'], f['id']))
    for rec, path, status in unconfirmed:
        log('UNCONFIRMED: property=%s harness=%s msg=%r native=%s replay=%s' % (pid, rec['harness'], rec['msg'], status, path))
    for u in unclean[:40]:
        log('NOTE: ' + u)
    rc = 0
    for rec, path in confirmed:
        log('  counterexample: harness=%s kind=%s msg=%r inputs=%s choices=%s native=%s' % (rec['harness'], rec['kind'], rec['msg'], rec['inputs'], rec['choices'], rec['native']))
        log('VIOLATION property=%s replay=%s' % (pid, path))
        rc = 1
    tot = sum(r['Paths'] for r in reports)
    log('check %s %s: %d harnesses, %d paths, %d violations confirmed, %d known, %d unconfirmed, %d notes, %.1fs' % (
        pid, tier, len(reports), tot, len(confirmed), len(known), len(unconfirmed), len(unclean), wall))
    return rc


def write_evidence(pid, prop, tier, seed, reports, confirmed, known, unclean, wall, replays, unconfirmed=(), passing_checked=0, onotes=(), broken=False):
    os.makedirs(os.path.join(ROOT, 'evidence'), exist_ok=True)
    paths = sum(r['Paths'] for r in reports)
    completed = sum(r['Completed'] for r in reports)
    symbolic = sum(r['Symbolic'] for r in reports)
    decisions = sum(r.get('Decisions', 0) for r in reports)
    funcs = {}
    for r in reports:
        for f, c in (r.get('Funcs') or {}).items():
            funcs[f] = funcs.get(f, 0) + c
    target_funcs = sorted(f for f in funcs if 'verif/h' not in f)
    samples = []
    for r in reports:
        for s in (r.get('Samples') or [])[:2]:
            samples.append({'harness': r['Harness'], 'choices': s.get('choices'), 'path_condition': s.get('path_condition'),
                            'witness': s.get('witness'), 'end': s.get('end')})
    if not samples:
        samples = [{'harness': r['Harness'], 'paths': r['Paths']} for r in reports[:3]] or [{'note': 'no paths explored'}]
    q = {k: sum(r['Solver'][k] for r in reports) for k in ('Queries', 'Sat', 'Unsat', 'Unknown', 'Errors')} if reports else {}
    level = prop['level']
    cov = {
        'states': max(paths, 0),
        'transitions': max(decisions, 0),
        'traces_validated_against_impl': replays,
        'samples': samples[:12],
        'evaluations': paths,
        'distinct_nontrivial': symbolic,
        'rule': 'one evaluation = one explored path of a harness (distinct decision sequence over symbolic branches and finite choices); non-trivial = ran to completion with a non-empty symbolic path condition',
        'exhaustive': bool(reports) and not any(r.get('Truncated') for r in reports) and not unclean,
        'harnesses': [{'name': r['Harness'], 'paths': r['Paths'], 'completed': r['Completed'], 'infeasible': r['Infeasible'],
                       'symbolic_paths': r['Symbolic'], 'branch_decisions': r['Branches'], 'assert_queries': r['AssertQueries'],
                       'asserts_discharged_unsat': r['AssertsUnsat'], 'asserts_concretely_true': r['AssertsConc'],
                       'unknown_branch': r['UnknownBranch'], 'unknown_assert': r['UnknownAssert'], 'ssa_steps': r['Steps'],
                       'solver_queries': r['Solver']['Queries'], 'solver_seconds': round(r['Solver']['Seconds'], 2),
                       'wall_s': round(r['Wall'], 2), 'reached': r.get('Reached'), 'max_decision_depth': r.get('MaxDepth'),
                       'aborts': r.get('AbortCounts')} for r in reports],
        'solver': {'backend': prop['tiers'][tier].get('solver', 'z3-new'), 'queries': q, 'seconds': round(sum(r['Solver']['Seconds'] for r in reports), 2)},
        'functions_executed_symbolically': target_funcs[:400],
        'functions_executed_count': len(target_funcs),
        'bounds': prop['tiers'][tier].get('bounds', ''),
        'outside_claim': prop.get('outside', ''),
        'stubs_and_summaries': prop.get('stubs', []),
        'unclean': unclean[:50],
        'unconfirmed_counterexamples': [{'harness': r['harness'], 'msg': r['msg'], 'native': st} for r, p, st in unconfirmed],
        'known_findings_seen': sorted(set(f['id'] for f, _, _ in known)),
        'passing_paths_replayed_natively': passing_checked,
        'overlay_notes': list(onotes),
    }
    if level == 'translation_validation':
        cov['programs'] = max(paths, 1) if reports else 0
        cov['disagreements_checked'] = sum(r['AssertQueries'] + r['AssertsConc'] for r in reports)
    ev = {
        'property_id': pid, 'tier': tier, 'seed': seed, 'level': level, 'coverage': cov,
        'assumptions': prop.get('assumptions', []), 'wall_s': round(wall, 2),
        'violations': len(confirmed),
    }
    name = pid + ('.partial' if os.environ.get('VERIF_ONLY') or os.environ.get('VERIF_REPO') else '') + '.json'
    json.dump(ev, open(os.path.join(ROOT, 'evidence', name), 'w'), indent=1)


if __name__ == '__main__':
    sys.exit(main())
