#!/bin/bash
# seedrerun.sh <seeded-dir-name> <check ids...>: apply a stored seeded change to /repo,
# run the given quick checks, undo it, and merge the result into meta.json.
set -u
VROOT=${VROOT:-$(cd "$(dirname "$0")/.." && pwd)}
N=$1; shift
D=$VROOT/seeded/$N
export GOFLAGS=-mod=mod GOPROXY=off GOSUMDB=off GOTOOLCHAIN=local
TARGET=${SEED_TARGET:-/repo}
[ "$TARGET" = /repo ] || export VERIF_REPO=$TARGET
[ -z "$(git -C $TARGET status --short)" ] || { echo "$TARGET not clean"; exit 3; }
git -C $TARGET apply $D/patch.diff || { echo "cannot apply"; exit 3; }
detected=""
for c in "$@"; do
  cd $VROOT && timeout 3000 ./check $c quick > /tmp/seed_check_$c.log 2>&1; rc=$?
  nv=$(grep -c '^VIOLATION' /tmp/seed_check_$c.log)
  echo "$N check $c: exit=$rc violations=$nv"
  grep -m2 'counterexample' /tmp/seed_check_$c.log | cut -c1-300
  if [ $rc -eq 1 ] && [ $nv -gt 0 ]; then detected="$detected $c"; fi
done
git -C $TARGET checkout -- .
python3 - <<PY
import json
p="$D/meta.json"; m=json.load(open(p))
run="$*".split(); det="$detected".split()
m["checks_run"]=sorted(set(m.get("checks_run",[]))|set(run))
m["detected_by"]=sorted((set(m.get("detected_by",[]))-set(run))|set(det))
json.dump(m,open(p,"w"),indent=1)
print(p, "detected_by", m["detected_by"])
PY
