#!/usr/bin/env python3
"""Regenerates MANIFEST.json from tools/props.py (claimed = PROPS keys)."""
import json, os, sys
ROOT = os.path.dirname(os.path.dirname(os.path.abspath(__file__)))
sys.path.insert(0, os.path.join(ROOT, 'tools'))
from props import PROPS, NOT_APPLICABLE
props = [json.loads(l) for l in open(os.path.join(ROOT, 'properties.jsonl'))]
claimed = sorted(PROPS)
m = {
    "version": 1,
    "setup_cmd": "cd /verif && ./check build",
    "hooks": {
        "guard": "verif",
        "enable": "no source hooks are committed to /repo: instrumentation is by engine interception (VM poll, lock and atomic operations) and by source overlays generated from /repo's current files at check time (overlays/zz_verif_access.go injected as /repo/zz_verif_access.go; compiler.go regenerated with an optimizer switch) through go/packages Overlay and `go test -overlay`",
        "baseline_off_cmd": "cd /repo && go test -vet=off -count=1 -timeout 25m ./...",
        "source_commits": [],
        "add_only": True,
    },
    "engines": [{
        "name": "symgo", "path": "/verif/engine", "serves_properties": claimed,
        "kind_free_text": "symbolic executor for Go written for this task: fork of x/tools go/ssa/interp with symbolic scalars/strings, DFS by re-execution of decision prefixes on 16 workers, cooperative goroutine scheduler, SMT back ends z3 5.1 (z3-new, default), z3 4.8.12 and cvc5 over incremental pipes; every counterexample is replayed natively (go test -overlay) before it is reported"}],
    "checks": [], "not_applicable": [],
    "notes": "see DESIGN.md; bounds per property are in tools/props.py and are repeated in each evidence file",
}
for p in props:
    pid = p['id']
    if pid in PROPS:
        cfg = PROPS[pid]
        m['checks'].append({
            "property_id": pid,
            "quick_cmd": "./check %s quick" % pid,
            "thorough_cmd": "./check %s thorough" % pid,
            "evidence_file": "evidence/%s.json" % pid,
            "replay_cmd_template": "./check %s --replay {path}" % pid,
            "engine": "symgo",
            "level_claimed": {
                "category": cfg['level'],
                "text": cfg.get('level_text', "bounded symbolic execution of the real Go code: every path of the harnesses within the stated bounds is explored, each assertion is decided by the SMT solver for all input values on that path; counterexamples are replayed natively before being reported"),
                "design_ref": "DESIGN.md §4 " + pid},
            "level_note": cfg.get('level_note', "trusted: the engine's encoding of Go semantics (./check selftest; passing paths are also replayed natively each run), the stubs/intrinsics listed in the evidence, z3/cvc5; nothing is claimed outside the stated bounds"),
            "technique": cfg.get('technique', "SMT-based symbolic execution of go/ssa (bounded), native replay of counterexamples"),
        })
    else:
        m['not_applicable'].append({"property_id": pid, "reason": NOT_APPLICABLE.get(pid, "harness not completed yet (work in progress); planned per DESIGN.md §4")})
json.dump(m, open(os.path.join(ROOT, 'MANIFEST.json'), 'w'), indent=1)
print('claimed:', ' '.join(claimed))
