package tengo

// In-package accessors for the verification harnesses. This file is never
// written into /repo: it is injected as a source overlay (go/packages Overlay
// for the engine, `go test -overlay` for native replay).

import "github.com/d5/tengo/v2/parser"

// VerifVMState is a snapshot of the VM registers.
type VerifVMState struct {
	SP, IP, FramesIndex, BasePointer, NumLocals, NumParams int
	Fn                                                     *CompiledFunction
	Insts                                                  []byte
	Allocs                                                 int64
	Aborting                                               int64
}

func VerifState(v *VM) VerifVMState {
	return VerifVMState{SP: v.sp, IP: v.ip, FramesIndex: v.framesIndex, BasePointer: v.curFrame.basePointer,
		NumLocals: v.curFrame.fn.NumLocals, NumParams: v.curFrame.fn.NumParameters, Fn: v.curFrame.fn,
		Insts: v.curInsts, Allocs: v.allocs, Aborting: v.aborting}
}

func VerifStackAt(v *VM, i int) Object { return v.stack[i] }
func VerifErr(v *VM) error            { return v.err }
func VerifConstants(v *VM) []Object   { return v.constants }
func VerifGlobals(v *VM) []Object     { return v.globals }
func VerifNumBuiltins() int           { return len(builtinFuncs) }
func VerifFrameFn(v *VM, i int) *CompiledFunction { return v.frames[i].fn }
func VerifFrameBase(v *VM, i int) int { return v.frames[i].basePointer }
func VerifFrameIP(v *VM, i int) int   { return v.frames[i].ip }
func VerifFreeLen(v *VM) int          { return len(v.curFrame.freeVars) }

// VerifBytecode exposes the bytecode of a Compiled.
func VerifBytecode(c *Compiled) *Bytecode { return c.bytecode }
func VerifCompiledGlobals(c *Compiled) []Object { return c.globals }
func VerifMaxAllocs(c *Compiled) int64 { return c.maxAllocs }

// VerifRunRaw runs the VM's dispatch loop without Run()'s register reset, so a
// harness can start from a state it constructed.
func VerifRunRaw(v *VM) { v.run() }

// VerifSetState overwrites the registers (for single-step harnesses).
func VerifSetState(v *VM, sp, ip, framesIndex int) {
	v.sp, v.ip, v.framesIndex = sp, ip, framesIndex
	v.curFrame = &v.frames[framesIndex-1]
	v.curInsts = v.curFrame.fn.Instructions
	v.allocs = v.maxAllocs + 1
}

func VerifSetStack(v *VM, i int, o Object) { v.stack[i] = o }
func VerifSetFrame(v *VM, i int, fn *CompiledFunction, ip, base int) {
	v.frames[i].fn, v.frames[i].ip, v.frames[i].basePointer = fn, ip, base
}

// VerifOptimize runs the dead-code optimizer on a raw instruction stream.
func VerifOptimize(insts []byte, srcMap map[int]parser.Pos) ([]byte, map[int]parser.Pos) {
	c := NewCompiler(parser.NewFileSet().AddFile("x", -1, 1), nil, nil, nil, nil)
	c.scopes[0].Instructions = insts
	c.scopes[0].SourceMap = srcMap
	c.optimizeFunc(nil)
	return c.scopes[0].Instructions, c.scopes[0].SourceMap
}

// VerifSymbolTable exposes compiler internals used by structural checks.
func VerifScopeDepth(c *Compiler) int { return len(c.scopes) }

// C12: the fix-up of decoded constants, and a bool that is not a singleton
// (what encoding/gob hands back).
func VerifFixDecoded(o Object, modules *ModuleMap) (Object, error) { return fixDecodedObject(o, modules) }
func VerifNewBool(v bool) *Bool                                   { return &Bool{value: v} }
