package h

import (
	"fmt"
	"testing"

	"github.com/d5/tengo/v2"
	"verif/h/refsem"
)

func TestAliasNative(t *testing.T) {
	bad := 0
	for _, p := range aliasProgs() {
		inputs := map[string]tengo.Object{"a": &tengo.Int{Value: 5}, "b": &tengo.Int{Value: 7}}
		rin := map[string]refsem.Value{}
		for k, v := range inputs {
			rin[k] = toRef(v)
		}
		ref := refsem.Run(p, rin, 200000)
		kind, c, text := realOutcome(p, inputs)
		ok := kind == ref.Kind
		if ok && c != nil {
			for name, w := range ref.Globals {
				if !sameRef(w, c.Get(name).Object()) {
					ok = false
					text += " global " + name + " differs: real " + c.Get(name).Object().String()
				}
			}
		}
		if !ok {
			bad++
			if bad < 40 {
				t.Errorf("%s\n   ref=%s %s real=%s %s", p, ref.Kind, ref.Msg, kind, text)
			}
		}
	}
	fmt.Println("alias programs", len(aliasProgs()), "disagreements", bad)
}
