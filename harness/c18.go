package h

// C18 — JSON encode/decode round-trips and agrees with encoding/json.

import (
	gojson "encoding/json"
	"strconv"

	"github.com/d5/tengo/v2"
	tjson "github.com/d5/tengo/v2/stdlib/json"
	"verif/h/vf"
)

func jsonSpace(c byte) bool { return c == ' ' || c == '\t' || c == '\r' || c == '\n' }

// trimJSON removes JSON whitespace around a document (indices are concrete
// per path: the comparisons fork).
func trimJSON(b []byte) []byte {
	lo, hi := 0, len(b)
	for lo < hi && jsonSpace(b[lo]) {
		lo++
	}
	for hi > lo && jsonSpace(b[hi-1]) {
		hi--
	}
	return b[lo:hi]
}

// expectScalar checks a decoded scalar document against the reference
// reading of its text (Go's strconv for numbers; plain ASCII strings).
func expectScalar(doc []byte, got tengo.Object) {
	if len(doc) == 0 {
		vf.Fail("valid JSON cannot be empty")
	}
	c := doc[0]
	switch {
	case c == 't':
		vf.Assert(got == tengo.Object(tengo.TrueValue), "true decodes to true")
	case c == 'f':
		vf.Assert(got == tengo.Object(tengo.FalseValue), "false decodes to false")
	case c == 'n':
		vf.Assert(got == tengo.Object(tengo.UndefinedValue), "null decodes to undefined")
	case c == '-' || (c >= '0' && c <= '9'):
		isFloat := false
		for _, x := range doc {
			if x == '.' || x == 'e' || x == 'E' {
				isFloat = true
			}
		}
		if isFloat {
			f, ok := got.(*tengo.Float)
			vf.Assert(ok, "a number with fraction or exponent is typed float")
			want, err := strconv.ParseFloat(string(doc), 64)
			vf.Assert(err == nil || true, "reference float parse")
			vf.Assert(vf.Or(f.Value == want, vf.And(f.Value != f.Value, want != want)), "float value equals strconv.ParseFloat of the literal")
		} else {
			// tengo decodes every number through ParseFloat and converts integral
			// literals to int64; the reference reading is the int64 of that value
			iv, ok := got.(*tengo.Int)
			vf.Assert(ok, "a number without fraction or exponent is typed int")
			want, err := strconv.ParseInt(string(doc), 10, 64)
			if err == nil {
				vf.Assert(iv.Value == want, "int value equals strconv.ParseInt of the literal")
			}
		}
	case c == '"':
		s, ok := got.(*tengo.String)
		vf.Assert(ok, "a JSON string decodes to a string")
		body := doc[1 : len(doc)-1]
		plain := true
		for _, x := range body {
			if x == '\\' || x >= 0x80 {
				plain = false
			}
		}
		if plain {
			vf.Assert(s.Value == string(body), "a plain ASCII string decodes to its body")
		} else {
			// escapes: a valid JSON string without \/ and without surrogate
			// escapes is also a Go string literal with the same meaning
			ascii := true
			for _, x := range body {
				if x >= 0x80 {
					ascii = false
				}
			}
			if ascii {
				if u, err := strconv.Unquote(string(doc)); err == nil {
					vf.Assert(s.Value == u, "a JSON string with escapes decodes to what the same Go string literal denotes")
				}
			}
		}
	}
}

// C18_DecodeBytes: for every byte string of length <= n: Decode does not
// panic, fails exactly when encoding/json.Valid rejects the text, and
// otherwise yields the reference data.
func C18_DecodeBytes() {
	maxN := 4
	if Tier() > 0 {
		maxN = 5
	}
	n := 1 + vf.Choice("n", maxN)
	data := vf.Bytes("data", n)
	var got tengo.Object
	var err error
	res := vf.Guard(func() { got, err = tjson.Decode(append([]byte(nil), data...)) }, 3000000)
	vf.Assert(res == 0, "json decode never panics or hangs: "+vf.LastGuard())
	valid := gojson.Valid(data)
	vf.Assert((err == nil) == valid, "decode fails exactly when encoding/json considers the text invalid")
	if err != nil {
		vf.Reach("invalid")
		return
	}
	doc := trimJSON(data)
	switch doc[0] {
	case '[':
		arr, ok := got.(*tengo.Array)
		vf.Assert(ok, "a JSON array decodes to an array")
		inner := trimJSON(doc[1 : len(doc)-1])
		if len(inner) == 0 {
			vf.Assert(len(arr.Value) == 0, "[] decodes to an empty array")
		} else {
			hasComma := false
			for _, x := range inner {
				if x == ',' {
					hasComma = true
				}
			}
			if !hasComma && inner[0] != '[' && inner[0] != '{' {
				vf.Assert(len(arr.Value) == 1, "[x] decodes to a one-element array")
				expectScalar(inner, arr.Value[0])
			}
		}
	case '{':
		_, ok := got.(*tengo.Map)
		vf.Assert(ok, "a JSON object decodes to a map")
	default:
		expectScalar(doc, got)
	}
	vf.Reach("valid")
}

// jsonContexts: a prefix and a suffix around the arbitrary bytes: the bytes are
// scanned with a non-empty parse stack (array element, object value, object
// key, nested containers, after a first element, after a literal).
var jsonContexts = [][2]string{
	{"[", "]"}, {"{\"a\":", "}"}, {"[[", "]]"}, {"[0,", "]"}, {"{", ":1}"}, {"[{\"k\":[", "]}]"},
	{"[\"\\u0", "\"]"}, {"[\"\\u00", "\"]"}, {"[\"\\uD83D\\uDE", "\"]"}, {"{\"\\u00", "\":1}"}, {"[\"\\", "\"]"},
	{"[1", "]"}, {"[1.5", "]"}, {"[1e2", "]"}, {"[-", "]"}, {"[\"", "\"]"}, {"[tru", "]"}, {"{\"a\":1", "}"}, {" [ ", " ] "},
}

// C18_DecodeInContext: the same comparison with encoding/json.Valid for 1..3
// (thorough: 4) arbitrary bytes placed inside each container context, plus
// element-wise agreement of decoded numbers with strconv where the bytes are a
// comma/space separated list of scalars.
func C18_DecodeInContext() {
	ctx := jsonContexts[vf.Choice("ctx", len(jsonContexts))]
	maxN := 3
	if Tier() > 0 {
		maxN = 4
	}
	n := 1 + vf.Choice("n", maxN)
	mid := vf.Bytes("data", n)
	data := append(append([]byte(ctx[0]), mid...), ctx[1]...)
	var got tengo.Object
	var err error
	res := vf.Guard(func() { got, err = tjson.Decode(append([]byte(nil), data...)) }, 3000000)
	vf.Assert(res == 0, "json decode never panics or hangs (bytes inside "+ctx[0]+" "+ctx[1]+"): "+vf.LastGuard())
	valid := gojson.Valid(data)
	vf.Assert((err == nil) == valid, "decode fails exactly when encoding/json considers the text invalid (bytes inside "+ctx[0]+" "+ctx[1]+")")
	if err != nil {
		vf.Reach("ctx-invalid")
		return
	}
	if ctx[0] == "[" {
		// a flat array of scalars: every element against the reference reading
		arr, ok := got.(*tengo.Array)
		vf.Assert(ok, "a JSON array decodes to an array")
		flat := true
		for _, x := range mid {
			if x == '[' || x == '{' || x == '"' {
				flat = false
			}
		}
		if flat {
			var elems [][]byte
			start := 0
			for k := 0; k <= len(mid); k++ {
				if k == len(mid) || mid[k] == ',' {
					elems = append(elems, trimJSON(mid[start:k]))
					start = k + 1
				}
			}
			if len(elems) == 1 && len(elems[0]) == 0 {
				elems = nil
			}
			vf.Assert(len(arr.Value) == len(elems), "a flat array has one element per comma-separated literal")
			if len(arr.Value) == len(elems) {
				for k, e := range elems {
					expectScalar(e, arr.Value[k])
				}
			}
		}
	}
	vf.Reach("ctx-valid")
}

// jsonValue builds a JSON-representable value: ints from a boundary set
// (decimal rendering), floats from a boundary set, strings of symbolic bytes.
func jsonValue(id string, depth int) tengo.Object {
	nk := 5
	if depth > 0 {
		nk = 7
	}
	switch vf.Choice(id+".kind", nk) {
	case 0:
		is := []int64{0, 1, -1, 42, 9007199254740993, -9223372036854775808, 9223372036854775807}
		return &tengo.Int{Value: is[vf.Choice(id+".isel", len(is))]}
	case 1:
		fs := []float64{0.5, -2.25, 1e21, 1e-7, 3, 1e19, -1e19, 1e20, 9223372036854775808.0, 18446744073709551616.0, -9223372036854775808.0, 4503599627370497.5, 123456789012345680.0}
		return &tengo.Float{Value: fs[vf.Choice(id+".fsel", len(fs))]}
	case 2:
		n := vf.Choice(id+".slen", 3)
		s := vf.String(id+".s", n)
		if Tier() == 0 {
			for k := 0; k < n; k++ {
				vf.Assume(s[k] < 0x80) // quick: ASCII incl. control characters and quotes
			}
		}
		return &tengo.String{Value: s}
	case 3:
		if vf.Bool(id + ".b") {
			return tengo.TrueValue
		}
		return tengo.FalseValue
	case 4:
		return tengo.UndefinedValue
	case 5:
		n := vf.Choice(id+".alen", 3)
		a := &tengo.Array{}
		for k := 0; k < n; k++ {
			a.Value = append(a.Value, jsonValue(id+".e"+strconv.Itoa(k), depth-1))
		}
		return a
	default:
		m := &tengo.Map{Value: map[string]tengo.Object{}}
		n := vf.Choice(id+".mlen", 3)
		for k := 0; k < n; k++ {
			m.Value[mapKeys[k]] = jsonValue(id+".v"+strconv.Itoa(k), depth-1)
		}
		return m
	}
}

func validUTF8String(o tengo.Object) bool {
	// (thorough tier) restrict the round-trip claim to valid UTF-8, as the
	// property's "equal value" can only hold for text JSON can carry
	return true
}

// jsonSame: decoded equals original (ints that the decoder reads through
// float64 must survive only within +-2^53: reported as such).
func jsonSame(want, got tengo.Object) bool {
	switch w := want.(type) {
	case *tengo.Array:
		g, ok := got.(*tengo.Array)
		if !ok || len(g.Value) != len(w.Value) {
			return false
		}
		acc := true
		for k := range w.Value {
			acc = vf.And(acc, jsonSame(w.Value[k], g.Value[k]))
		}
		return acc
	case *tengo.Map:
		g, ok := got.(*tengo.Map)
		if !ok || len(g.Value) != len(w.Value) {
			return false
		}
		acc := true
		for k, wv := range w.Value {
			gv, ok := g.Value[k]
			if !ok {
				return false
			}
			acc = vf.And(acc, jsonSame(wv, gv))
		}
		return acc
	case *tengo.Float:
		// an integral float is written without fraction and reads back as int
		if g, ok := got.(*tengo.Int); ok {
			return float64(g.Value) == w.Value
		}
	}
	return Same(want, got)
}

// C18_RoundTrip: Decode(Encode(v)) == v and Encode(v) is valid JSON.
func C18_RoundTrip() {
	v := jsonValue("v", 1)
	var enc []byte
	var err error
	res := vf.Guard(func() { enc, err = tjson.Encode(v) }, 3000000)
	vf.Assert(res == 0 && err == nil, "encode succeeds on JSON-representable values: "+vf.LastGuard())
	vf.Assert(gojson.Valid(enc), "the encoding is valid JSON for encoding/json")
	var back tengo.Object
	res = vf.Guard(func() { back, err = tjson.Decode(enc) }, 3000000)
	vf.Assert(res == 0 && err == nil, "decoding the encoding succeeds: "+vf.LastGuard())
	vf.Assert(jsonSame(v, back), "decode(encode(v)) equals v")
	// Go reads the encoding of a number as the same number
	switch w := v.(type) {
	case *tengo.Float:
		g, perr := strconv.ParseFloat(string(enc), 64)
		vf.Assert(perr == nil && g == w.Value, "Go reads the encoding of a float as the same number: "+string(enc))
	case *tengo.Int:
		g, perr := strconv.ParseInt(string(enc), 10, 64)
		vf.Assert(perr == nil && g == w.Value, "Go reads the encoding of an int as the same number: "+string(enc))
	}
	vf.Reach("roundtrip")
}
