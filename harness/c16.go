package h

// C16 — self tail calls run in constant frame space at any depth.

import (
	"github.com/d5/tengo/v2"
	"verif/h/vf"
)

type tcSkel struct {
	name string
	src  string // uses inputs n (depth) and a
	tail bool   // the self call is in tail position (directly returned / right operand of && ||)
	// ref computes the expected value of `out` (undef=true: undefined)
	ref func(n, a int64) (v int64, undef bool)
}

func sumTo(n, a int64) int64 {
	for k := n; k > 0; k-- {
		a += k
	}
	return a
}

var tcSkels = []tcSkel{
	{"direct", `f := func(n, acc) { if n == 0 { return acc }; return f(n-1, acc+n) }; out := f(n, a)`, true,
		func(n, a int64) (int64, bool) { return sumTo(n, a), false }},
	{"oror", `f := func(n, acc) { return n == 0 || f(n-1, acc) }; out := f(n, a) ? 1 : 0`, true,
		func(n, a int64) (int64, bool) { return 1, false }},
	{"andand", `f := func(n, acc) { return n != 0 && f(n-1, acc) }; out := f(n, a) ? 1 : 0`, true,
		func(n, a int64) (int64, bool) { return 0, false }},
	{"ternary-else", `f := func(n, acc) { return n == 0 ? acc : f(n-1, acc+1) }; out := f(n, a)`, true,
		func(n, a int64) (int64, bool) { return a + n, false }},
	{"locals", `f := func(n, acc) { x := n * 2; y := x + acc; if n == 0 { return y }; return f(n-1, y) }; out := f(n, a)`, true,
		func(n, a int64) (int64, bool) {
			y := a
			for k := n; k >= 0; k-- {
				y = k*2 + y
			}
			return y, false
		}},
	{"variadic", `f := func(n, ...r) { if n == 0 { return len(r) }; return f(n-1, n, a) }; out := f(n)`, true,
		func(n, a int64) (int64, bool) {
			if n == 0 {
				return 0, false
			}
			return 2, false
		}},
	{"inner-free", `g := func(m, b) { f := func(n, acc) { if n == 0 { return acc }; return f(n-1, acc+n) }; return f(m, b) }; out := g(n, a)`, true,
		func(n, a int64) (int64, bool) { return sumTo(n, a), false }},
	{"capture", `fs := []; f := func(n, acc) { fs = append(fs, func() { return n }); if n == 0 { return acc }; return f(n-1, acc) }; f(n, a); out := 0; for g in fs { out = out*10 + g() }`, true,
		func(n, a int64) (int64, bool) {
			var o int64
			for k := n; k >= 0; k-- {
				o = o*10 + k
			}
			return o, false
		}},
	// a function that contains both a returned and a discarded self call
	{"discard-then-returned", `f := func(n, first) { if n == 0 { return 7 }; if !first { return f(n-1, false) }; f(n-1, false) }; out := f(n, true)`, false,
		func(n, a int64) (int64, bool) { return 7, n != 0 }},
	{"returned-then-discard", `f := func(n, m) { if n == 0 { return 7 }; if n > m { return f(n-1, m) }; f(n-1, m) }; out := f(n, a)`, false,
		func(n, a int64) (int64, bool) { return 7, n != 0 && a >= 1 }},
	{"discard-then-andand", `f := func(n, first) { if n == 0 { return 7 }; if !first { return n > 0 && f(n-1, false) }; f(n-1, false) }; out := f(n, true)`, false,
		func(n, a int64) (int64, bool) { return 7, n != 0 }},
	{"alternating", `f := func(n) { if n == 0 { return 7 }; if n % 2 == 0 { return f(n-1) }; f(n-1) }; out := f(n)`, false,
		func(n, a int64) (int64, bool) { return 7, n != 0 }},
	// after a discarded self call, other calls at the same depth return their values
	{"discard-then-other-call", `cnt := func(k) { if k == 0 { return }; cnt(k-1) }; cnt(n); dbl := func(x) { return x * 2 }; ap := func(g, x) { return g(x) }; out := dbl(a) + ap(dbl, 1)`, false,
		func(n, a int64) (int64, bool) { return a*2 + 2, false }},
	{"discard-then-same-function", `f := func(n) { if n == 0 { return 7 }; f(n-1) }; f(n); out := f(0)`, false,
		func(n, a int64) (int64, bool) { return 7, false }},
	// not in tail position: must never be treated as a tail call
	{"plus", `f := func(n, acc) { if n == 0 { return acc }; return 1 + f(n-1, acc) }; out := f(n, a)`, false,
		func(n, a int64) (int64, bool) { return a + n, false }},
	{"assign-then-return", `f := func(n, acc) { if n == 0 { return acc }; x := f(n-1, acc); return x }; out := f(n, a)`, false,
		func(n, a int64) (int64, bool) { return a, false }},
	{"discard-last", `f := func(n, acc) { if n == 0 { return 7 }; f(n-1, acc) }; out := f(n, a)`, false,
		func(n, a int64) (int64, bool) { return 7, n != 0 }},
	{"discard-return", `f := func(n, acc) { if n == 0 { return 7 }; f(n-1, acc); return }; out := f(n, a)`, false,
		func(n, a int64) (int64, bool) { return 7, n != 0 }},
	{"ternary-then", `f := func(n, acc) { return n != 0 ? f(n-1, acc+1) : acc }; out := f(n, a)`, false,
		func(n, a int64) (int64, bool) { return a + n, false }},
}

type tcMon struct {
	vm       *tengo.VM
	prev     tengo.VerifVMState
	have     bool
	height   map[int]int // framesIndex -> sp-basePointer at first entry
	tailRe   int
	fresh    int
	badFrame bool
	badStack bool
	maxFI    int
	// the same counters restricted to the function with three parameters (the
	// recursion family's f; its helpers have fewer)
	tail3, fresh3 int
}

func (m *tcMon) poll() {
	cur := tengo.VerifState(m.vm)
	if cur.FramesIndex > m.maxFI {
		m.maxFI = cur.FramesIndex
	}
	if m.have && cur.IP == -1 && cur.FramesIndex > 1 {
		switch {
		case cur.FramesIndex == m.prev.FramesIndex && cur.Fn == m.prev.Fn:
			// re-entry of the same frame: a tail call
			m.tailRe++
			if cur.NumParams == 3 {
				m.tail3++
			}
			if h, ok := m.height[cur.FramesIndex]; ok {
				if cur.SP-cur.BasePointer != h {
					m.badStack = true
				}
			}
		case cur.FramesIndex == m.prev.FramesIndex+1:
			m.fresh++
			if cur.NumParams == 3 {
				m.fresh3++
			}
			m.height[cur.FramesIndex] = cur.SP - cur.BasePointer
		}
	}
	m.prev, m.have = cur, true
}

func runTC(sk tcSkel, n, a int64) (*tengo.Compiled, *tcMon, error) {
	s := tengo.NewScript([]byte(sk.src))
	_ = s.Add("n", n)
	_ = s.Add("a", a)
	c, err := s.Compile()
	vf.Assert(err == nil, "tail-call skeleton compiles: "+sk.name)
	vm := tengo.NewVM(tengo.VerifBytecode(c), tengo.VerifCompiledGlobals(c), -1)
	m := &tcMon{vm: vm, height: map[int]int{}}
	vf.SetHook("poll", m.poll)
	err = vm.Run()
	vf.SetHook("poll", nil)
	return c, m, err
}

// C16_Step: inductive step + results, symbolic arguments, depth n in 0..D.
func C16_Step() {
	sk := tcSkels[vf.Choice("skel", len(tcSkels))]
	D := int64(3)
	if Tier() > 0 {
		D = 6
	}
	n := vf.Int64("n")
	a := vf.Int64("a")
	vf.Assume(n >= 0)
	vf.Assume(n <= D)
	c, m, err := runTC(sk, n, a)
	vf.Assert(err == nil, "tail-call skeleton runs without error: "+sk.name)
	want, undef := sk.ref(n, a)
	out := c.Get("out")
	if undef {
		vf.Assert(out.IsUndefined(), "value of a discarded self call must not be returned: "+sk.name)
	} else {
		vf.Assert(!out.IsUndefined(), "result defined: "+sk.name)
		vf.Assert(out.Int64() == want, "result equals the equivalent loop: "+sk.name)
	}
	vf.Assert(!m.badStack, "operand-stack height at tail re-entry equals height at first entry: "+sk.name)
	if sk.tail {
		// constant frame space: never more than main + (g) + f
		vf.Assert(m.maxFI <= 3, "frame index stays constant under tail calls: "+sk.name)
	}
	if sk.tail && !vf.Symbolic() {
		// native replay has no VM probe: frame growth is observed instead by a
		// run far beyond the frame and operand-stack capacities
		cd, _, errd := runTC(sk, 5000, 1)
		vf.Assert(errd == nil, "self tail call completes at depth 5000 (native): "+sk.name)
		wd, _ := sk.ref(5000, 1)
		if sk.name != "capture" {
			vf.Assert(cd.Get("out").Int64() == wd, "deep native result: "+sk.name)
		}
	}
	// For calls that are not in tail position only the observable outcome is
	// asserted (the result above): whether the VM reuses the frame while
	// discarding the callee's value is not observable and not demanded.
	vf.Reach("step")
}

const lastFrameSrc = `
d := k
res := 0
loop := func(n, acc) { if n == 0 { return acc }; return loop(n-1, acc+1) }
nest := func() { d--; if d == 0 { return loop(n, 0) }; res = nest(); return res }
out := nest()
`

// C16_LastFrame: self tail calls need no further frame, so wherever the
// tail-recursive function can be entered at all (it completes with depth 0 at
// that call nesting) it completes with every depth: nesting k around the
// frame capacity, depth n symbolic.
func C16_LastFrame() {
	k := int64(tengo.MaxFrames - 6 + vf.Choice("k", 9))
	n := vf.Int64("n")
	vf.Assume(n >= 1)
	vf.Assume(n <= 3)
	run := func(depth int64) (*tengo.Compiled, error) {
		s := tengo.NewScript([]byte(lastFrameSrc))
		_ = s.Add("k", k)
		_ = s.Add("n", depth)
		c, err := s.Compile()
		vf.Assert(err == nil, "last-frame program compiles")
		rerr, panicked, _ := RunGuarded(c)
		if panicked {
			vf.Stop() // operand stack exhausted first (recoverable index panic): other property
		}
		return c, rerr
	}
	_, e0 := run(0)
	if e0 != nil {
		vf.Reach("lastframe-unreachable")
		return
	}
	c, en := run(n)
	vf.Assert(en == nil, "a self tail call in the deepest usable frame needs no further frame")
	vf.Assert(c.Get("out").Int64() == n, "result at the deepest usable frame equals the equivalent loop")
	vf.Reach("lastframe")
}

// C16_Deep: base case beyond the frame capacity (MaxFrames=1024): concrete
// depth 1100, symbolic accumulator.
func C16_Deep() {
	idx := vf.Choice("skel", 4)
	sk := tcSkels[idx]
	a := vf.Int64("a")
	c, m, err := runTC(sk, 1100, a)
	vf.Assert(err == nil, "self tail call completes beyond MaxFrames: "+sk.name)
	want, _ := sk.ref(1100, a)
	vf.Assert(c.Get("out").Int64() == want, "deep result equals the equivalent loop: "+sk.name)
	vf.Assert(m.maxFI <= 3 && !m.badStack, "deep run stays in constant frame space: "+sk.name)
	vf.Reach("deep")
}

// runRec runs one program of the recursion family under the frame monitor.
func runRec(src string, a, b int64) (*tengo.Compiled, *tcMon, error) {
	s := tengo.NewScript([]byte(src))
	_ = s.Add("a", a)
	_ = s.Add("b", b)
	c, err := s.Compile()
	vf.Assert(err == nil, "recursion-family program compiles: "+src)
	vm := tengo.NewVM(tengo.VerifBytecode(c), tengo.VerifCompiledGlobals(c), -1)
	m := &tcMon{vm: vm, height: map[int]int{}}
	vf.SetHook("poll", m.poll)
	err = vm.Run()
	vf.SetHook("poll", nil)
	return c, m, err
}

func recOutMatches(c *tengo.Compiled, r int64, undef bool, rest []int64) bool {
	arr, ok := c.Get("out").Object().(*tengo.Array)
	if !ok || len(arr.Value) != 1+len(rest) {
		return false
	}
	acc := true
	if undef {
		acc = arr.Value[0] == tengo.UndefinedValue
	} else {
		iv, ok := arr.Value[0].(*tengo.Int)
		if !ok {
			return false
		}
		acc = iv.Value == r
	}
	for k, w := range rest {
		iv, ok := arr.Value[1+k].(*tengo.Int)
		if !ok {
			return false
		}
		acc = vf.And(acc, iv.Value == w)
	}
	return acc
}

// C16_GenRec: the recursion family (gen2.go): f(i, n, acc) with six
// per-activation preludes (closures over a parameter / a local / a
// self-referencing local helper escaping the activation, a write through a
// captured parameter, block-locals in sibling blocks), f global or local, every
// form of the recursive call. For every form the result and the values the
// escaped closures report equal the equivalent loop (recRef); the two
// tail-position forms run in one frame: f is entered with a fresh frame once
// and re-entered in place once per further activation.
func C16_GenRec() {
	pre := vf.Choice("pre", len(recPre))
	step := vf.Choice("step", len(recStep))
	bind := vf.Choice("bind", 2)
	a, b := vf.Int64("a"), vf.Int64("b")
	name := recPreNames[pre] + "/" + recStepNames[step]
	c, m, err := runRec(recSrc(pre, step, bind), a, b)
	vf.Assert(err == nil, "recursion-family program runs without error: "+name)
	n := a & 3
	r, undef, rest := recRef(pre, step, n, b)
	vf.Assert(recOutMatches(c, r, undef, rest), "result and captured values equal the equivalent loop: "+name)
	vf.Assert(!m.badStack, "operand-stack height at tail re-entry equals height at first entry: "+name)
	if step == 0 || step == 5 {
		if vf.Symbolic() {
			// the VM probe exists only in the engine
			vf.Assert(m.fresh3 == 1, "a self tail call opens no new frame: "+name)
			vf.Assert(int64(m.tail3) == n, "every further activation re-enters the frame in place: "+name)
		} else {
			cd, _, errd := runRec(recSrcD(pre, step, bind, recCall, "3000"), 0, b)
			vf.Assert(errd == nil, "self tail call completes at depth 3000 (native): "+name)
			rd, ud, restd := recRef(pre, step, 3000, b)
			vf.Assert(recOutMatches(cd, rd, ud, restd), "deep native result equals the equivalent loop: "+name)
		}
	} else if step != 1 && vf.Symbolic() {
		// not in tail position: one frame per activation
		vf.Assert(int64(m.fresh3) == n+1, "a self call that is not in tail position gets its own frame: "+name)
	}
	vf.Reach("genrec")
}

// ---- the value stack nearly full

// stackBandSrc: `nest` recurses (not in tail position) k levels deep, 4 value
// stack slots per level, below `pad` pending operands; at the bottom it calls
// either `probe` - one pass through the body of the tail-recursive function
// with the same parameters, locals and argument expressions, the operands of
// the self call built as an array instead of being called - or the
// tail-recursive function itself. @L = extra locals, @P = the padded call.
const stackBandSrc = `
d := k
probe := func(n, acc) { t1 := n; t2 := acc; t3 := t1 + t2; @L if n < 0 { return t3 }; return len([probe, n-1, acc+1]) - 3 }
loop := func(n, acc) { t1 := n; t2 := acc; t3 := t1 + t2; @L if n == 0 { return acc }; return loop(n-1, acc+1) }
nest := func(x, y) { d--; if d == 0 { return which == 0 ? probe(n, 0) : loop(n, 0) }; return 0 + nest(x, y) }
out := @P
res := out[len(out)-1]
`

var stackBandPads = []string{"[nest(1, 2)]", "[7, nest(1, 2)]", "[7, 7, nest(1, 2)]", "[7, 7, 7, nest(1, 2)]"}
var stackBandLocals = []string{"", "u1 := t1; u2 := t2; u3 := t3; u4 := u1 + u2;"}

func substMarks(s string, m map[byte]string) string {
	out := ""
	for i := 0; i < len(s); i++ {
		if s[i] == '@' && i+1 < len(s) {
			if r, ok := m[s[i+1]]; ok {
				out += r
				i++
				continue
			}
		}
		out += string(s[i])
	}
	return out
}

// C16_StackBand: a self tail call needs no value-stack space beyond what one
// pass through the function body needs: at every call nesting near the
// capacity of the 2048-slot value stack (nesting k, alignment pad: every stack
// height in a window of 32 slots around the point where the probe stops
// fitting) at which one pass through the body completes, the tail-recursive
// function completes for every depth n (symbolic, 1..3) with the loop's result.
func C16_StackBand() {
	pad := vf.Choice("pad", len(stackBandPads))
	loc := vf.Choice("locals", len(stackBandLocals))
	k := int64(504 + vf.Choice("k", 8))
	n := vf.Int64("n")
	vf.Assume(n >= 1)
	vf.Assume(n <= 3)
	src := substMarks(stackBandSrc, map[byte]string{'L': stackBandLocals[loc], 'P': stackBandPads[pad]})
	run := func(which int, depth int64) (*tengo.Compiled, error, bool) {
		s := tengo.NewScript([]byte(src))
		_ = s.Add("k", k)
		_ = s.Add("which", which)
		_ = s.Add("n", depth)
		c, err := s.Compile()
		vf.Assert(err == nil, "stack-band program compiles")
		rerr, panicked, _ := RunGuarded(c)
		return c, rerr, panicked
	}
	_, e0, p0 := run(0, 0)
	if e0 != nil || p0 {
		vf.Reach("stackband-unreachable")
		return
	}
	c, en, pn := run(1, n)
	vf.Assert(!pn && en == nil, "where one pass through the body fits on the value stack, self tail calls of any depth fit: "+firstLine(errText(en)))
	vf.Assert(c.Get("res").Int64() == n, "result with a nearly full value stack equals the equivalent loop")
	vf.Reach("stackband")
}

func firstLine(s string) string {
	for i := 0; i < len(s); i++ {
		if s[i] == '\n' {
			return s[:i]
		}
	}
	return s
}
