package h

// Aliasing family (C01, C09): a container x, a value y derived from it by a
// builtin or an operator, then a write through x (or through y), then both are
// read: which derived values share storage with their source is part of the
// language semantics (copy, freeze, append beyond the length, slicing and +
// yield independent values; immutable(x) is a view of x).

var aliasSources = []string{"[a, b, 3]", "{p: a, q: b}", "[[a], [b]]", "{p: [a], q: {r: b}}"}

// derivations: @ = the source variable
var aliasDerive = []string{"copy(@)", "freeze(@)", "append(@, 4)", "@[0:2]", "@[:]", "@ + [4]", "@ + []", "splice(copy(@), 0, 0)", "[@][0]", "{k: @}.k", "freeze([@])[0]", "copy({k: @}).k", "func(v) { return v }(@)", "func(...v) { return v }(@...)", "immutable(copy(@))"}

// writes through the source x, per source shape (index into aliasSources)
var aliasWrites = [][]string{
	{"x[0] = 99", "x = append(x, 5)", "x[1] = [7]", "x = x + [6]", "x = splice(x, 0, 1)"},
	{"x.p = 99", "delete(x, \"p\")", "x.z = [7]"},
	{"x[0][0] = 99", "x[0] = 99", "x[1] = append(x[1], 5)", "x[0] = x[0] + [6]"},
	{"x.p[0] = 99", "x.q.r = 99", "x.p = 99", "delete(x.q, \"r\")"},
}

// writes through the derived value y (it may be immutable: the write then fails)
var aliasWritesY = [][]string{
	{"y[0] = 98", "y = append(y, 5)"},
	{"y.p = 98"},
	{"y[0][0] = 98", "y[1] = 98"},
	{"y.p[0] = 98", "y.q.r = 98"},
}

func aliasProgs() []string {
	var out []string
	for si, src := range aliasSources {
		for _, d := range aliasDerive {
			for _, w := range aliasWrites[si] {
				out = append(out, "x := "+src+"; y := "+substAt(d, "x")+"; "+w+"; out := [x, y]")
			}
			for _, w := range aliasWritesY[si] {
				out = append(out, "x := "+src+"; y := "+substAt(d, "x")+"; out := 0; "+w+"; out = [x, y]")
			}
			// two derivations from the same source, then a write through the first
			out = append(out, "x := "+src+"; y := "+substAt(d, "x")+"; z := "+substAt(d, "x")+"; y2 := "+substAt(aliasSecond(si), "y")+"; out := [x, y, z, y2]")
		}
	}
	return out
}

func aliasSecond(si int) string {
	switch si {
	case 0, 2:
		return "@ + [8]"
	}
	return "copy(@)"
}
