package h

import (
	"strconv"
	"time"

	"github.com/d5/tengo/v2"
	"verif/h/vf"
)

// Runtime type tags of the value universe U(d, w).
const (
	TInt = iota
	TFloat
	TBool
	TChar
	TString
	TBytes
	TTime
	TUndefined
	TError
	TArray
	TImmArray
	TMap
	TImmMap
	NTypes
)

var typeNames = [...]string{"int", "float", "bool", "char", "string", "bytes", "time", "undefined", "error", "array", "immutable-array", "map", "immutable-map"}

const NScalar = TError // tags below TError carry no nested Object

// Tier: 0 quick, 1 thorough (VERIF_TIER is read natively; the engine passes
// it through the same environment variable).
func Tier() int { return vf.Tier() }

// W is the width bound of the universe (max string/bytes/container length).
func W() int {
	if Tier() > 0 {
		return 3
	}
	return 2
}

// SymTime builds a time value from symbolic seconds/nanoseconds.
// Assumption (stated in DESIGN §3): 0 <= nsec < 1e9 and |sec| < 2^55, which
// keeps time.Unix's normalising division and the internal-epoch addition off
// the path.
func SymTime(id string) time.Time {
	sec := vf.Int64(id + ".sec")
	nsec := vf.Int64(id + ".nsec")
	vf.Assume(nsec >= 0)
	vf.Assume(nsec < 1000000000)
	vf.Assume(sec > -(1 << 55))
	vf.Assume(sec < (1 << 55))
	t := time.Unix(sec, nsec)
	// the same instant in three internal representations (location pointer):
	// local, UTC, a fixed zone - values that are Equal but not ==
	switch vf.Choice(id+".rep", 3) {
	case 1:
		t = t.UTC()
	case 2:
		t = t.In(symZone)
	}
	return t
}

var symZone = time.FixedZone("Z1", 3600)

// Scalar builds a value of scalar type tag t with symbolic payload.
func Scalar(id string, t int) tengo.Object {
	switch t {
	case TInt:
		return &tengo.Int{Value: vf.Int64(id + ".i")}
	case TFloat:
		return &tengo.Float{Value: vf.Float64(id + ".f")}
	case TBool:
		if vf.Bool(id + ".b") {
			return tengo.TrueValue
		}
		return tengo.FalseValue
	case TChar:
		return &tengo.Char{Value: vf.Rune(id + ".c")}
	case TString:
		n := vf.Choice(id+".slen", W()+1)
		return &tengo.String{Value: vf.String(id+".s", n)}
	case TBytes:
		n := vf.Choice(id+".blen", W()+1)
		return &tengo.Bytes{Value: vf.Bytes(id+".y", n)}
	case TTime:
		return &tengo.Time{Value: SymTime(id + ".t")}
	case TUndefined:
		return tengo.UndefinedValue
	}
	panic("Scalar: bad tag " + strconv.Itoa(t))
}

// liteTypes are the element types used inside containers at the innermost
// level (keeps the shape space finite and small; stated bound).
var liteTypes = []int{TInt, TString, TUndefined, TBool}

func elem(id string, depth int) tengo.Object {
	if depth <= 0 {
		t := liteTypes[vf.Choice(id+".et", len(liteTypes))]
		if t == TString {
			return &tengo.String{Value: vf.String(id+".s", 1)}
		}
		return Scalar(id, t)
	}
	// one more level: a lite scalar or a nested array / map of lite scalars
	k := vf.Choice(id+".ek", len(liteTypes)+2)
	if k < len(liteTypes) {
		t := liteTypes[k]
		if t == TString {
			return &tengo.String{Value: vf.String(id+".s", 1)}
		}
		return Scalar(id, t)
	}
	if k == len(liteTypes) {
		return Obj(id+".n", TArray, depth-1)
	}
	return Obj(id+".n", TMap, depth-1)
}

var mapKeys = []string{"a", "b", "c"}

// Obj builds a value of type tag t; containers have 0..W() elements of depth d-1.
func Obj(id string, t int, depth int) tengo.Object {
	if t < NScalar {
		return Scalar(id, t)
	}
	switch t {
	case TError:
		return &tengo.Error{Value: elem(id+".ev", 0)}
	case TArray, TImmArray:
		n := vf.Choice(id+".alen", W()+1)
		var es []tengo.Object
		for k := 0; k < n; k++ {
			es = append(es, elem(id+".e"+strconv.Itoa(k), depth-1))
		}
		if t == TArray {
			return &tengo.Array{Value: es}
		}
		return &tengo.ImmutableArray{Value: es}
	case TMap, TImmMap:
		n := vf.Choice(id+".mlen", W()+1)
		m := map[string]tengo.Object{}
		// the key set starts at "a" or at "b", so that two maps of the same
		// size can have different keys
		off := 0
		if n > 0 {
			off = vf.Choice(id+".koff", 2)
		}
		for k := 0; k < n; k++ {
			m[mapKeys[(k+off)%len(mapKeys)]] = elem(id+".v"+strconv.Itoa(k), depth-1)
		}
		if t == TMap {
			return &tengo.Map{Value: m}
		}
		return &tengo.ImmutableMap{Value: m}
	}
	panic("Obj: bad tag")
}

// AnyObj picks a type tag and builds a value.
func AnyObj(id string, depth int) (tengo.Object, int) {
	t := vf.Choice(id+".type", NTypes)
	return Obj(id, t, depth), t
}

// Same is structural equality of two objects as a (possibly symbolic) bool,
// written independently of tengo's Equals: same dynamic type, same payload.
// Floats compare by IEEE equality except that NaN is Same as NaN; maps are
// unordered.
func Same(a, b tengo.Object) bool {
	switch x := a.(type) {
	case *tengo.Int:
		y, ok := b.(*tengo.Int)
		return ok && x.Value == y.Value
	case *tengo.Float:
		y, ok := b.(*tengo.Float)
		if !ok {
			return false
		}
		return vf.Or(x.Value == y.Value, vf.And(x.Value != x.Value, y.Value != y.Value))
	case *tengo.Bool:
		y, ok := b.(*tengo.Bool)
		return ok && x.IsFalsy() == y.IsFalsy()
	case *tengo.Char:
		y, ok := b.(*tengo.Char)
		return ok && x.Value == y.Value
	case *tengo.String:
		y, ok := b.(*tengo.String)
		return ok && x.Value == y.Value
	case *tengo.Bytes:
		y, ok := b.(*tengo.Bytes)
		return ok && string(x.Value) == string(y.Value)
	case *tengo.Time:
		y, ok := b.(*tengo.Time)
		return ok && x.Value.Equal(y.Value)
	case *tengo.Undefined:
		_, ok := b.(*tengo.Undefined)
		return ok
	case *tengo.Error:
		y, ok := b.(*tengo.Error)
		return ok && Same(x.Value, y.Value)
	case *tengo.Array:
		y, ok := b.(*tengo.Array)
		return ok && sameList(x.Value, y.Value)
	case *tengo.ImmutableArray:
		y, ok := b.(*tengo.ImmutableArray)
		return ok && sameList(x.Value, y.Value)
	case *tengo.CompiledFunction:
		// functions are compared as "is a function" only
		_, ok := b.(*tengo.CompiledFunction)
		return ok
	case *tengo.UserFunction:
		// host functions have no comparable identity (Copy drops the name): by kind
		_, ok := b.(*tengo.UserFunction)
		return ok
	case *tengo.BuiltinFunction:
		y, ok := b.(*tengo.BuiltinFunction)
		return ok && x.Name == y.Name
	case *tengo.Map:
		y, ok := b.(*tengo.Map)
		return ok && sameMap(x.Value, y.Value)
	case *tengo.ImmutableMap:
		y, ok := b.(*tengo.ImmutableMap)
		return ok && sameMap(x.Value, y.Value)
	}
	if _, ok := a.(tengo.Iterator); ok {
		// hidden for-in iterators: compared by kind only
		_, ok2 := b.(tengo.Iterator)
		return ok2 && a.TypeName() == b.TypeName()
	}
	return a == b
}

func sameList(x, y []tengo.Object) bool {
	if len(x) != len(y) {
		return false
	}
	acc := true
	for k := range x {
		acc = vf.And(acc, Same(x[k], y[k]))
	}
	return acc
}

func sameMap(x, y map[string]tengo.Object) bool {
	if len(x) != len(y) {
		return false
	}
	acc := true
	for k, xv := range x {
		yv, ok := y[k]
		if !ok {
			return false
		}
		acc = vf.And(acc, Same(xv, yv))
	}
	return acc
}

// RunGuarded runs c.Run() and converts a Go panic escaping it into a result:
// panicked=true with the panic text (Compiled.Run does not recover; the
// context-aware path does, and C05 is about that).
func RunGuarded(c *tengo.Compiled) (err error, panicked bool, ptext string) {
	res := vf.Guard(func() { err = c.Run() }, 6000000)
	vf.Assert(res == 0 || res == 1, "run returns or panics recoverably (no hang, no fatal error): "+vf.LastGuard())
	if res == 1 {
		return nil, true, vf.LastGuard()
	}
	return err, false, ""
}

// LiteObj is a small universe for secondary operands: int, float, 1-byte
// string, undefined, bool, char, [int], {a: int}.
func LiteObj(id string) tengo.Object { return LiteObjN(id, 8) }

// LiteObjN restricts LiteObj to its first n shapes.
func LiteObjN(id string, n int) tengo.Object {
	switch vf.Choice(id+".lite", n) {
	case 0:
		return &tengo.Int{Value: vf.Int64(id + ".i")}
	case 1:
		return &tengo.String{Value: vf.String(id+".s", 1)}
	case 2:
		return tengo.UndefinedValue
	case 3:
		return Scalar(id, TBool)
	case 4:
		return &tengo.Array{Value: []tengo.Object{&tengo.Int{Value: vf.Int64(id + ".e")}}}
	case 5:
		return &tengo.Map{Value: map[string]tengo.Object{"a": &tengo.Int{Value: vf.Int64(id + ".e")}}}
	case 6:
		return &tengo.Float{Value: vf.Float64(id + ".f")}
	}
	return &tengo.Char{Value: vf.Rune(id + ".c")}
}
