package h

// C09 — immutable values cannot be changed by any sequence of operations.

import (
	"github.com/d5/tengo/v2"
	"verif/h/vf"
)

type immCons struct {
	name  string
	setup string // defines x; uses inputs a, b
	isMap bool
	deep  bool // everything reachable from x is immutable (freeze, module export of frozen data)
	mod   int  // 0 none, 1 source module "m", 2 builtin module "bm"
}

var immConstructions = []immCons{
	{"immutable-array", `x := immutable([a, b, [a, 7], "s"])`, false, false, 0},
	{"immutable-array-spare-cap", `x := immutable([a, b, [a, 7]])`, false, false, 0},
	{"freeze-array", `x := freeze([a, b, [a, 7], "s"])`, false, true, 0},
	{"immutable-map", `x := immutable({p: a, q: b, r: [a, 7]})`, true, false, 0},
	{"freeze-map", `x := freeze({p: a, q: b, r: [a, 7]})`, true, true, 0},
	{"freeze-of-immutable", `x := freeze(immutable([[a, 7], b, "s"]))`, false, true, 0},
	{"freeze-map-of-immutable", `x := freeze({p: immutable([{k: a}, "tail"]), q: b})`, true, true, 0},
	{"freeze-nested-map", `x := freeze([a, b, {k: [a, 7]}, "s"])`, false, true, 0},
	{"module-export-array", `x := import("m")`, false, false, 1},
	{"builtin-module-table", `x := import("bm")`, true, false, 2},
}

// operations on an immutable array x; i, j, v are symbolic host ints
var arrOps = []string{
	`x[i] = v`,
	`x[0] = v`,
	`x.k = v`,
	`y := x[i:j]; y[0] = v`,
	`y := x[0:2]; y[1] = v`,
	`y := x[:]; y[i] = v`,
	`y := append(x, v); y[0] = v; y[1] = v`,
	`y := x[i:j]; y = append(y, v)`,
	`y := x[i:i]; y = append(y, v, v)`,
	`y := append(x[i:j], v); y[0] = v`,
	`y := x[:0]; append(y, v)`,
	`y := x[1:1]; append(y, v); splice(y, 0, 0, v)`,
	`y := x[i:j]; splice(y, 0, 1, v, v)`,
	`y := x + immutable([v]); y[0] = v; y[1] = v`,
	`y := x + immutable([]); y[i] = v`,
	`y := copy(x); y[0] = v; y[2][0] = v`,
	`y := splice(x, 0, 1)`,
	`delete(x, "p")`,
	`for k, e in x { e = v; if k == i { x[k] = v } }`,
	`y := x[2]; if is_array(y) { y[0] = v } else { y.k = v }`,
	`f := func(z) { z[1] = v }; f(x)`,
	`x[2][1] = v`,
	`x[0][0] = v`,
	`y := x[0]; y[1] = v`,
	`y := [x]; y[0][0] = v`,
	`y := {w: x}; y.w[1] = v`,
	// the value spread into the parameters of a call
	`f := func(...z) { z[0] = v; z[1] = v }; f(x...)`,
	`f := func(p, ...z) { z[0] = v; z[i] = v }; f(x...)`,
	`f := func(...z) { splice(z, 0, 1, v) }; f(x...)`,
	`f := func(...z) { return z }; y := f(x...); y[i] = v`,
	`f := func(p, q, ...z) { z = append(z, v); z[0] = v }; f(x...)`,
	`y := append([], x...); y[0] = v; y[2][0] = v`,
	`y := append(x, x...); y[i] = v`,
	`f := func(...z) { z[0][i] = v }; f([x, x]...)`,
}

var mapOps = []string{
	`x.p = v`,
	`x["q"] = v`,
	`x.zz = v`,
	`delete(x, "p")`,
	`y := copy(x); y.p = v; y.r[0] = v`,
	`for k, e in x { e = v; x[k] = v }`,
	`y := x.r; y[0] = v`,
	`f := func(z) { z.q = v }; f(x)`,
	`x.r[1] = v`,
	`x.p[0].k = v`,
	`y := x.p; y[0].z = v`,
	`y := [x]; y[0].p = v`,
	`y := append([], x); y[0].q = v`,
	`f := func(...z) { z[0].p = v }; f([x]...)`,
	`f := func(...z) { z[0] = v }; f(immutable([x, x])...)`,
}

// expectedX rebuilds the value x was constructed with.
func expectedX(c immCons, a, b int64) tengo.Object {
	ia, ib := &tengo.Int{Value: a}, &tengo.Int{Value: b}
	inner := func() []tengo.Object { return []tengo.Object{ia, &tengo.Int{Value: 7}} }
	switch c.name {
	case "module-export-array":
		return &tengo.ImmutableArray{Value: []tengo.Object{&tengo.Int{Value: 1}, &tengo.Int{Value: 2},
			&tengo.Array{Value: []tengo.Object{&tengo.Int{Value: 3}, &tengo.Int{Value: 7}}}, &tengo.String{Value: "s"}}}
	case "immutable-array-spare-cap": // a 3-element literal has capacity 4 (the VM appends element by element)
		return &tengo.ImmutableArray{Value: []tengo.Object{ia, ib, &tengo.Array{Value: inner()}}}
	case "immutable-array":
		return &tengo.ImmutableArray{Value: []tengo.Object{ia, ib, &tengo.Array{Value: inner()}, &tengo.String{Value: "s"}}}
	case "freeze-array":
		return &tengo.ImmutableArray{Value: []tengo.Object{ia, ib, &tengo.ImmutableArray{Value: inner()}, &tengo.String{Value: "s"}}}
	case "immutable-map":
		return &tengo.ImmutableMap{Value: map[string]tengo.Object{"p": ia, "q": ib, "r": &tengo.Array{Value: inner()}}}
	case "freeze-map":
		return &tengo.ImmutableMap{Value: map[string]tengo.Object{"p": ia, "q": ib, "r": &tengo.ImmutableArray{Value: inner()}}}
	case "freeze-of-immutable":
		return &tengo.ImmutableArray{Value: []tengo.Object{&tengo.ImmutableArray{Value: inner()}, ib, &tengo.String{Value: "s"}}}
	case "freeze-map-of-immutable":
		return &tengo.ImmutableMap{Value: map[string]tengo.Object{
			"p": &tengo.ImmutableArray{Value: []tengo.Object{&tengo.ImmutableMap{Value: map[string]tengo.Object{"k": ia}}, &tengo.String{Value: "tail"}}},
			"q": ib}}
	case "freeze-nested-map":
		return &tengo.ImmutableArray{Value: []tengo.Object{ia, ib,
			&tengo.ImmutableMap{Value: map[string]tengo.Object{"k": &tengo.ImmutableArray{Value: inner()}}}, &tengo.String{Value: "s"}}}
	case "builtin-module-table":
		return &tengo.ImmutableMap{Value: map[string]tengo.Object{"p": &tengo.Int{Value: 1}, "q": &tengo.Int{Value: 2},
			"r": &tengo.Array{Value: []tengo.Object{&tengo.Int{Value: 3}, &tengo.Int{Value: 7}}},
			"__module_name__": &tengo.String{Value: "bm"}}}
	}
	panic("expectedX")
}

// sameTop compares only what a shallow-immutable value protects: its own
// slots (scalars by value; nested mutable containers only by kind).
func sameTop(want, got tengo.Object) bool {
	switch w := want.(type) {
	case *tengo.ImmutableArray:
		g, ok := got.(*tengo.ImmutableArray)
		if !ok || len(g.Value) != len(w.Value) {
			return false
		}
		acc := true
		for k := range w.Value {
			acc = vf.And(acc, sameSlot(w.Value[k], g.Value[k]))
		}
		return acc
	case *tengo.ImmutableMap:
		g, ok := got.(*tengo.ImmutableMap)
		if !ok || len(g.Value) != len(w.Value) {
			return false
		}
		acc := true
		for k, wv := range w.Value {
			gv, ok := g.Value[k]
			if !ok {
				return false
			}
			acc = vf.And(acc, sameSlot(wv, gv))
		}
		return acc
	}
	return false
}

func sameSlot(w, g tengo.Object) bool {
	switch w.(type) {
	case *tengo.Array:
		_, ok := g.(*tengo.Array)
		return ok
	case *tengo.Map:
		_, ok := g.(*tengo.Map)
		return ok
	}
	return Same(w, g)
}

func c09Script(c immCons, body string) *tengo.Script {
	s := tengo.NewScript([]byte(c.setup + "\n" + body))
	mods := tengo.NewModuleMap()
	mods.AddSourceModule("m", []byte(`export [1, 2, [3, 7], "s"]`))
	mods.AddBuiltinModule("bm", map[string]tengo.Object{"p": &tengo.Int{Value: 1}, "q": &tengo.Int{Value: 2},
		"r": &tengo.Array{Value: []tengo.Object{&tengo.Int{Value: 3}, &tengo.Int{Value: 7}}}})
	s.SetImports(mods)
	return s
}

// C09_Ops: apply a sequence of 1..L operations to an immutable value and to
// what is derived from it; whether or not an operation fails, x must still
// hold what it was constructed with.
func C09_Ops() {
	c := immConstructions[vf.Choice("cons", len(immConstructions))]
	ops := arrOps
	if c.isMap {
		ops = mapOps
	}
	L := 1 + vf.Choice("len", 2)
	body := ""
	for k := 0; k < L; k++ {
		body += ops[vf.Choice("op", len(ops))] + "\n"
	}
	what := c.name + " after: " + body
	s := c09Script(c, body)
	a, b := vf.Int64("a"), vf.Int64("b")
	i, j, v := vf.Int64("i"), vf.Int64("j"), vf.Int64("v")
	_ = s.Add("a", a)
	_ = s.Add("b", b)
	_ = s.Add("i", i)
	_ = s.Add("j", j)
	_ = s.Add("v", v)
	vf.Assume(v != a)
	vf.Assume(v != b)
	vf.Assume(v != 7)
	vf.Assume(v != 1)
	vf.Assume(v != 2)
	vf.Assume(v != 3)
	cc, err := s.Compile()
	if err != nil {
		// an operation rejected at compile time leaves x unchanged trivially
		vf.Reach("compile-rejected")
		return
	}
	_, panicked, _ := RunGuarded(cc)
	_ = panicked
	x := cc.Get("x").Object()
	want := expectedX(c, a, b)
	if c.deep {
		vf.Assert(Same(want, x), "frozen value (and everything reachable from it) is unchanged: "+what)
	} else {
		vf.Assert(sameTop(want, x), "immutable value is unchanged: "+what)
	}
	vf.Reach("ops")
}

// C09_Freeze: freeze returns a value equal to its argument, does not modify
// the argument (which stays mutable), and everything reachable from the
// result is immutable; shared sub-structures stay shared.
func C09_Freeze() {
	shape := vf.Choice("shape", 9)
	srcs := []string{
		`o := [a, [b, 1], {k: [a]}]`,
		`o := {p: a, q: [b, {r: 1}]}`,
		`sh := [a, b]; o := [sh, sh, {k: sh}]`,
		`o := immutable([a, [b, 1]])`,
		`o := [a, immutable({k: [b]})]`,
		// shallow-immutable containers with mutable children, reached more than once
		`sh := immutable([[a, b]]); o := [sh, sh]`,
		`sh := immutable({k: [a]}); o := {p: sh, q: sh, r: [sh]}`,
		`sh := immutable([{k: b}]); o := immutable([sh, [sh], {k: sh}])`,
		`inner := [a]; sh := immutable([inner, inner]); o := [sh, inner, sh]`,
	}
	s := tengo.NewScript([]byte(srcs[shape] + `
before := copy(o)
f := freeze(o)
eq := f == o
same_after := o == before
shared := true
`))
	a, b := vf.Int64("a"), vf.Int64("b")
	_ = s.Add("a", a)
	_ = s.Add("b", b)
	cc, err := s.Compile()
	vf.Assert(err == nil, "freeze script compiles")
	rerr, panicked, _ := RunGuarded(cc)
	vf.Assert(rerr == nil && !panicked, "freeze script runs")
	vf.Assert(cc.Get("eq").Bool(), "freeze(o) == o")
	vf.Assert(cc.Get("same_after").Bool(), "freeze does not modify its argument")
	vf.Assert(allImmutable(cc.Get("f").Object()), "everything reachable from freeze(o) is immutable")
	o := cc.Get("o").Object()
	if shape < 3 {
		switch ov := o.(type) {
		case *tengo.Array:
			_ = ov
		case *tengo.Map:
			_ = ov
		default:
			vf.Fail("argument of freeze changed its type")
		}
	}
	if shape == 2 {
		f := cc.Get("f").Object().(*tengo.ImmutableArray)
		vf.Assert(f.Value[0] == f.Value[1], "shared sub-structure stays shared after freeze")
		m := f.Value[2].(*tengo.ImmutableMap)
		vf.Assert(m.Value["k"] == f.Value[0], "shared sub-structure stays shared across containers")
	}
	vf.Reach("freeze")
}

func allImmutable(o tengo.Object) bool {
	switch x := o.(type) {
	case *tengo.Array, *tengo.Map:
		return false
	case *tengo.ImmutableArray:
		for _, e := range x.Value {
			if !allImmutable(e) {
				return false
			}
		}
	case *tengo.ImmutableMap:
		for _, e := range x.Value {
			if !allImmutable(e) {
				return false
			}
		}
	case *tengo.Error:
		return allImmutable(x.Value)
	}
	return true
}

// nestCtors: container constructors around an inner expression @
var nestCtors = []string{"[@, b]", "{k: @, j: b}", "immutable([@, b])", "immutable({k: @, j: b})", "[b, [@]]"}

// C09_FreezeNest: every nesting of up to three container constructors
// (mutable or shallow-immutable arrays and maps) around a leaf: freeze(o)
// equals o, leaves o unchanged, everything reachable from the result is
// immutable, and writes through o afterwards do not reach the result.
func C09_FreezeNest() {
	depth := 1 + vf.Choice("depth", 3)
	expr := "a"
	for k := 0; k < depth; k++ {
		expr = substAt(nestCtors[vf.Choice("ctor"+string(rune('0'+k)), len(nestCtors))], expr)
	}
	s := tengo.NewScript([]byte(`o := ` + expr + `
before := copy(o)
f := freeze(o)
eq := f == o
same_after := o == before
snap := copy(f)
`))
	a, b := vf.Int64("a"), vf.Int64("b")
	_ = s.Add("a", a)
	_ = s.Add("b", b)
	cc, err := s.Compile()
	vf.Assert(err == nil, "freeze script compiles: "+expr)
	rerr, panicked, _ := RunGuarded(cc)
	vf.Assert(rerr == nil && !panicked, "freeze script runs: "+expr)
	vf.Assert(cc.Get("eq").Bool(), "freeze(o) == o: "+expr)
	vf.Assert(cc.Get("same_after").Bool(), "freeze does not modify its argument: "+expr)
	f := cc.Get("f").Object()
	vf.Assert(allImmutable(f), "everything reachable from freeze(o) is immutable: "+expr)
	// overwrite every mutable container reachable from o in place
	scribble(cc.Get("o").Object(), 0)
	vf.Assert(sameLoose(f, cc.Get("snap").Object()), "writes through the argument after freeze do not reach the frozen value: "+expr)
	vf.Reach("freezenest")
}

// scribble overwrites the elements of every mutable container reachable from o.
func scribble(o tengo.Object, depth int) {
	if depth > 6 {
		return
	}
	switch x := o.(type) {
	case *tengo.Array:
		for _, e := range x.Value {
			scribble(e, depth+1)
		}
		for i := range x.Value {
			x.Value[i] = &tengo.String{Value: "scribbled"}
		}
	case *tengo.Map:
		for _, e := range x.Value {
			scribble(e, depth+1)
		}
		for k := range x.Value {
			x.Value[k] = &tengo.String{Value: "scribbled"}
		}
	case *tengo.ImmutableArray:
		for _, e := range x.Value {
			scribble(e, depth+1)
		}
	case *tengo.ImmutableMap:
		for _, e := range x.Value {
			scribble(e, depth+1)
		}
	}
}

// sameLoose: structural equality that ignores whether a container is the
// mutable or the immutable variant (copy() yields mutable containers).
func sameLoose(a, b tengo.Object) bool {
	elems := func(o tengo.Object) ([]tengo.Object, bool) {
		switch x := o.(type) {
		case *tengo.Array:
			return x.Value, true
		case *tengo.ImmutableArray:
			return x.Value, true
		}
		return nil, false
	}
	fields := func(o tengo.Object) (map[string]tengo.Object, bool) {
		switch x := o.(type) {
		case *tengo.Map:
			return x.Value, true
		case *tengo.ImmutableMap:
			return x.Value, true
		}
		return nil, false
	}
	if xa, ok := elems(a); ok {
		xb, ok2 := elems(b)
		if !ok2 || len(xa) != len(xb) {
			return false
		}
		acc := true
		for i := range xa {
			acc = vf.And(acc, sameLoose(xa[i], xb[i]))
		}
		return acc
	}
	if ma, ok := fields(a); ok {
		mb, ok2 := fields(b)
		if !ok2 || len(ma) != len(mb) {
			return false
		}
		acc := true
		for k, va := range ma {
			vb, ok3 := mb[k]
			if !ok3 {
				return false
			}
			acc = vf.And(acc, sameLoose(va, vb))
		}
		return acc
	}
	return Same(a, b)
}
