package h

// C12 — bytecode post-processing preserves behaviour: constant
// de-duplication, and writing bytecode out and reading it back. The
// reflection-driven codec (encoding/gob) itself cannot be executed by the
// engine: the engine runs the real Bytecode.Encode and Bytecode.Decode and
// replaces only (*gob.Encoder).Encode / (*gob.Decoder).Decode by a model
// (vf.SetGob; gobModel below: what gob hands back for the registered types);
// the native replay uses the real package, so every replayed path also
// validates the model.

import (
	"bytes"
	"io"

	"github.com/d5/tengo/v2"
	"github.com/d5/tengo/v2/parser"
	"github.com/d5/tengo/v2/stdlib"
	"verif/h/vf"
)

// compileRaw compiles with the public Compiler API and returns the bytecode
// *before* RemoveDuplicates, plus the globals initialised with the inputs.
func compileRaw(src string, inputs map[string]tengo.Object, names []string, mods *tengo.ModuleMap) (*tengo.Bytecode, []tengo.Object, *tengo.SymbolTable, error) {
	st := tengo.NewSymbolTable()
	for idx, fn := range tengo.GetAllBuiltinFunctions() {
		st.DefineBuiltin(idx, fn.Name)
	}
	globals := make([]tengo.Object, tengo.GlobalsSize)
	for _, n := range names {
		sym := st.Define(n)
		globals[sym.Index] = inputs[n]
	}
	fs := parser.NewFileSet()
	sf := fs.AddFile("(main)", -1, len(src))
	p := parser.NewParser(sf, []byte(src), nil)
	file, err := p.ParseFile()
	if err != nil {
		return nil, nil, nil, err
	}
	var getter tengo.ModuleGetter
	if mods != nil {
		getter = mods
	}
	c := tengo.NewCompiler(sf, st, nil, getter, nil)
	if err := c.Compile(file); err != nil {
		return nil, nil, nil, err
	}
	return c.Bytecode(), globals, st, nil
}

func cloneGlobals(g []tengo.Object) []tengo.Object {
	out := make([]tengo.Object, len(g))
	for i, o := range g {
		if o != nil {
			out[i] = o.Copy()
		}
	}
	return out
}

func runBC(bc *tengo.Bytecode, globals []tengo.Object) (err error, panicked bool, ptext string) {
	vm := tengo.NewVM(bc, globals, -1)
	res := vf.Guard(func() { err = vm.Run() }, 6000000)
	vf.Assert(res == 0 || res == 1, "run returns or panics recoverably: "+vf.LastGuard())
	if res == 1 {
		return nil, true, vf.LastGuard()
	}
	return err, false, ""
}

func sameGlobalSlices(x, y []tengo.Object) bool {
	acc := true
	for i := range x {
		if x[i] == nil || y[i] == nil {
			if (x[i] == nil) != (y[i] == nil) {
				return false
			}
			continue
		}
		acc = vf.And(acc, Same(x[i], y[i]))
	}
	return acc
}

// dedupOK: after RemoveDuplicates every constant reference is valid and no
// two de-duplicable constants (int, float, char, string) are equal.
func dedupOK(bc *tengo.Bytecode) string {
	if msg := verifyBytecode(bc); msg != "" {
		return msg
	}
	cs := bc.Constants
	for i := 0; i < len(cs); i++ {
		for j := i + 1; j < len(cs); j++ {
			dup := false
			switch x := cs[i].(type) {
			case *tengo.Int:
				if y, ok := cs[j].(*tengo.Int); ok {
					dup = x.Value == y.Value
				}
			case *tengo.Float:
				if y, ok := cs[j].(*tengo.Float); ok {
					dup = x.Value == y.Value
				}
			case *tengo.Char:
				if y, ok := cs[j].(*tengo.Char); ok {
					dup = x.Value == y.Value
				}
			case *tengo.String:
				if y, ok := cs[j].(*tengo.String); ok {
					dup = x.Value == y.Value
				}
			}
			if dup {
				return "two equal de-duplicable constants remain"
			}
		}
	}
	return ""
}

// objModule is a user-defined Importable that hands the compiler a plain
// object (no __module_name__), as an embedding application may.
type objModule struct{ o tengo.Object }

func (m objModule) Import(string) (interface{}, error) { return m.o, nil }

func c12Modules() *tengo.ModuleMap {
	mods := tengo.NewModuleMap()
	mods.AddSourceModule("m", []byte(`export {v: 10, f: func(x) { return x + 10 }}`))
	mods.AddSourceModule("m2", []byte(`k := 10; export func(x) { return x * k + 10 }`))
	mods.AddBuiltinModule("math", stdlib.BuiltinModules["math"])
	mods.AddBuiltinModule("text", stdlib.BuiltinModules["text"])
	mods.Add("cfg_a", objModule{&tengo.ImmutableMap{Value: map[string]tengo.Object{"name": &tengo.String{Value: "alpha"}, "n": &tengo.Int{Value: 10}}}})
	mods.Add("cfg_b", objModule{&tengo.ImmutableMap{Value: map[string]tengo.Object{"name": &tengo.String{Value: "beta"}, "n": &tengo.Int{Value: 10},
		"flags": &tengo.Array{Value: []tengo.Object{tengo.TrueValue, tengo.FalseValue, tengo.UndefinedValue}},
		"deep":  &tengo.ImmutableArray{Value: []tengo.Object{&tengo.Map{Value: map[string]tengo.Object{"t": tengo.TrueValue, "u": tengo.UndefinedValue}}, &tengo.Error{Value: tengo.FalseValue}}},
		"empty": &tengo.Array{Value: []tengo.Object{}}, "blob": &tengo.Bytes{Value: []byte{0, 255}}, "ch": &tengo.Char{Value: 'x'}, "fl": &tengo.Float{Value: 10}}}})
	// a data-only module object that carries a module name of its own but is not
	// a *BuiltinModule of the module map (an application-defined Importable)
	mods.Add("cfg_named", objModule{&tengo.ImmutableMap{Value: map[string]tengo.Object{"__module_name__": &tengo.String{Value: "cfg_named"},
		"name": &tengo.String{Value: "gamma"}, "n": &tengo.Int{Value: 10}, "on": tengo.TrueValue, "list": &tengo.ImmutableArray{Value: []tengo.Object{&tengo.Int{Value: 1}, tengo.UndefinedValue}}}}})
	// (only maps: RemoveDuplicates rejects any other top-level constant type
	// with an explicit "unsupported top-level constant type" panic)
	return mods
}

var dedupProgs = []Prog{
	{"two-object-modules", `x := import("cfg_a"); y := import("cfg_b"); out := [x.name, y.name, x.n + y.n + 10, import("cfg_a").name, import("cfg_b").name]`, false},
	{"object-module-singletons", `y := import("cfg_b"); out := [y.flags[0] == true, y.flags[1] == false, y.flags[2] == undefined, y.deep[0].t == true, y.deep[0].u == undefined, y.deep[1].value == false, is_undefined(y.flags[2]), y.flags[0] ? 1 : 2, len(y.empty), y.blob, y.ch, y.fl, c == y.flags[0]]`, false},
	{"named-object-module", `z := import("cfg_named"); w := import("cfg_named"); out := [z.name, z.n + a, w.n, z.on == true, z.list[0], is_undefined(z.list[1]), import("cfg_a").n]`, false},
	{"builtin-modules", `m := import("math"); t := import("text"); out := [m.abs(-2.5), m.pi, t.repeat("ab", 2), t.trim_space(" x "), import("math").max(a, b), m.maxInt64 == 9223372036854775807]`, false},
	{"source-modules-twice", `f := import("m2"); g := import("m2"); out := [f(a), g(b), import("m").f(10), import("m").v]`, false},
	{"object-module-error-position", `y := import("cfg_b")
z := y.n +
  y.flags
out := z`, false},
	{"repeated-literals", `x := 1 + 1 + 2; y := "s" + "s" + "t"; z := 1.5 + 1.5; w := 'c' == 'c'; out := [x, y, z, w, 1, "s", 1.5, 'c']`, false},
	{"funcs-share-consts", `f := func() { return 7 + a }; g := func() { return 7 + b }; h := func() { return func() { return 7 } }; out := f() + g() + h()()`, false},
	{"err-after-dedup", `f := func(x) { return x + "s" - 1 }; k := 1; out := f(a) + 1`, false},
	{"module-consts", `m := import("m"); out := m.v + 10 + m.f(10)`, false},
	{"maps-arrays", `out := {a: 10, b: [10, 10.0, "10", '1'], c: {a: 10}}; o2 := out.b[1] == 10`, false},
	{"mixed-zero", `out := [0, 0.0, -0.0, "", ' ', 0 == 0.0]`, false},
}

// C12_Dedup: every program behaves the same before and after
// RemoveDuplicates (results, errors, error positions).
func C12_Dedup() {
	k := vf.Choice("prog", len(dedupProgs)+len(Catalog)+len(Hostile))
	var p Prog
	switch {
	case k < len(dedupProgs):
		p = dedupProgs[k]
	case k < len(dedupProgs)+len(Catalog):
		p = Catalog[k-len(dedupProgs)]
	default:
		p = Hostile[k-len(dedupProgs)-len(Catalog)]
	}
	a, b := vf.Int64("a"), vf.Int64("b")
	c := vf.Bool("c")
	if p.Small {
		vf.Assume(a >= -1)
		vf.Assume(a <= 3)
		vf.Assume(b >= -1)
		vf.Assume(b <= 3)
	}
	var co tengo.Object = tengo.FalseValue
	if c {
		co = tengo.TrueValue
	}
	inputs := map[string]tengo.Object{"a": &tengo.Int{Value: a}, "b": &tengo.Int{Value: b}, "c": co}
	mods := c12Modules()
	bc, g1, _, err := compileRaw(p.Src, inputs, []string{"a", "b", "c"}, mods)
	vf.Assert(err == nil, "program compiles: "+p.Name)
	g2 := cloneGlobals(g1)
	e1, p1, t1 := runBC(bc, g1)
	bc.RemoveDuplicates()
	msg := dedupOK(bc)
	vf.Assert(msg == "", "constant pool sound after de-duplication: "+p.Name+": "+msg)
	e2, p2, t2 := runBC(bc, g2)
	vf.Assert(p1 == p2 && t1 == t2, "same Go panic before and after de-duplication: "+p.Name)
	vf.Assert((e1 == nil) == (e2 == nil), "fails before iff fails after de-duplication: "+p.Name)
	if e1 != nil {
		vf.Assert(errText(e1) == errText(e2), "same error text and positions after de-duplication: "+p.Name)
	}
	vf.Assert(sameGlobalSlices(g1, g2), "same global values after de-duplication: "+p.Name)
	vf.Reach("dedup")
}

// C12_SymbolicPool: a constant pool of symbolic ints/floats/chars/strings
// (so equal/unequal pairs, +0/-0 and NaN are chosen by the solver): loading
// every constant gives the same values before and after RemoveDuplicates.
func C12_SymbolicPool() {
	n := 2 + vf.Choice("n", 3)
	var consts []tengo.Object
	var insts []byte
	for k := 0; k < n; k++ {
		id := "k" + string(rune('0'+k))
		var o tengo.Object
		switch vf.Choice(id+".kind", 6) {
		case 4:
			// a compiled function: one of two bodies, symbolic signature
			body := tengo.MakeInstruction(parser.OpReturn, 0)
			if vf.Choice(id+".body", 2) == 1 {
				body = append(tengo.MakeInstruction(parser.OpGetLocal, 0), tengo.MakeInstruction(parser.OpReturn, 1)...)
			}
			o = &tengo.CompiledFunction{Instructions: body, NumParameters: int(vf.Byte(id + ".np")), NumLocals: int(vf.Byte(id + ".nl")), VarArgs: vf.Bool(id + ".va")}
		case 5:
			// a builtin-module table; its contents are a function of its name
			// (two tables with the same module name are the same module)
			nm := vf.String(id+".m", vf.Choice(id+".mlen", 2))
			o = &tengo.ImmutableMap{Value: map[string]tengo.Object{"__module_name__": &tengo.String{Value: nm}, "v": &tengo.String{Value: nm + "!"}}}
		case 0:
			o = &tengo.Int{Value: vf.Int64(id + ".i")}
		case 1:
			o = &tengo.Float{Value: vf.Float64(id + ".f")}
		case 2:
			o = &tengo.Char{Value: vf.Rune(id + ".c")}
		default:
			o = &tengo.String{Value: vf.String(id+".s", vf.Choice(id+".len", 2))}
		}
		consts = append(consts, o)
		insts = append(insts, tengo.MakeInstruction(parser.OpConstant, k)...)
		insts = append(insts, tengo.MakeInstruction(parser.OpSetGlobal, k)...)
	}
	insts = append(insts, tengo.MakeInstruction(parser.OpSuspend)...)
	mk := func() *tengo.Bytecode {
		return &tengo.Bytecode{FileSet: parser.NewFileSet(), MainFunction: &tengo.CompiledFunction{Instructions: append([]byte(nil), insts...)},
			Constants: append([]tengo.Object(nil), consts...)}
	}
	b1, b2 := mk(), mk()
	g1 := make([]tengo.Object, tengo.GlobalsSize)
	g2 := make([]tengo.Object, tengo.GlobalsSize)
	_, p1, _ := runBC(b1, g1)
	res := vf.Guard(func() { b2.RemoveDuplicates() }, 2000000)
	vf.Assert(res == 0, "RemoveDuplicates returns on a symbolic pool: "+vf.LastGuard())
	_, p2, _ := runBC(b2, g2)
	vf.Assert(!p1 && !p2, "loading constants does not panic")
	acc := true
	for k := 0; k < n; k++ {
		acc = vf.And(acc, Same(g1[k], g2[k]))
		if f1, ok := g1[k].(*tengo.CompiledFunction); ok {
			f2, ok2 := g2[k].(*tengo.CompiledFunction)
			acc = vf.And(acc, ok2 && string(f1.Instructions) == string(f2.Instructions))
			if ok2 {
				acc = vf.And(acc, vf.And(f1.NumParameters == f2.NumParameters, vf.And(f1.NumLocals == f2.NumLocals, f1.VarArgs == f2.VarArgs)))
			}
		}
	}
	vf.Assert(acc, "every constant load yields the same value after de-duplication")
	vf.Assert(len(b2.Constants) <= len(b1.Constants), "de-duplication never grows the pool")
	vf.Reach("pool")
}

// ---- writing bytecode out and reading it back

// gobModel is what encoding/gob hands back for an object of the registered
// types: a structurally equal value in which every pointer is fresh (so the
// true/false/undefined singletons are lost), func-typed fields are dropped,
// and empty slices and maps come back nil.
func gobModel(o tengo.Object) tengo.Object {
	switch v := o.(type) {
	case nil:
		return nil
	case *tengo.Int:
		return &tengo.Int{Value: v.Value}
	case *tengo.Float:
		return &tengo.Float{Value: v.Value}
	case *tengo.Char:
		return &tengo.Char{Value: v.Value}
	case *tengo.String:
		return &tengo.String{Value: v.Value}
	case *tengo.Time:
		return &tengo.Time{Value: v.Value}
	case *tengo.Bytes:
		if len(v.Value) == 0 {
			return &tengo.Bytes{}
		}
		return &tengo.Bytes{Value: append([]byte(nil), v.Value...)}
	case *tengo.Bool:
		return tengo.VerifNewBool(!v.IsFalsy())
	case *tengo.Undefined:
		return &tengo.Undefined{}
	case *tengo.Error:
		return &tengo.Error{Value: gobModel(v.Value)}
	case *tengo.Array:
		return &tengo.Array{Value: gobModelSlice(v.Value)}
	case *tengo.ImmutableArray:
		return &tengo.ImmutableArray{Value: gobModelSlice(v.Value)}
	case *tengo.Map:
		return &tengo.Map{Value: gobModelMap(v.Value)}
	case *tengo.ImmutableMap:
		return &tengo.ImmutableMap{Value: gobModelMap(v.Value)}
	case *tengo.UserFunction:
		return &tengo.UserFunction{Name: v.Name}
	case *tengo.CompiledFunction:
		out := &tengo.CompiledFunction{NumLocals: v.NumLocals, NumParameters: v.NumParameters, VarArgs: v.VarArgs}
		if len(v.Instructions) > 0 {
			out.Instructions = append([]byte(nil), v.Instructions...)
		}
		if len(v.SourceMap) > 0 {
			out.SourceMap = make(map[int]parser.Pos)
			for k, p := range v.SourceMap {
				out.SourceMap[k] = p
			}
		}
		return out
	}
	vf.Fail("gobModel: a constant of a type that is not registered with gob: " + o.TypeName())
	return nil
}

func gobModelSlice(s []tengo.Object) []tengo.Object {
	if len(s) == 0 {
		return nil
	}
	out := make([]tengo.Object, len(s))
	for i, e := range s {
		out[i] = gobModel(e)
	}
	return out
}

func gobModelMap(m map[string]tengo.Object) map[string]tengo.Object {
	if len(m) == 0 {
		return nil
	}
	out := make(map[string]tengo.Object)
	for k, e := range m {
		out[k] = gobModel(e)
	}
	return out
}

func gobModelFileSet(fs *parser.SourceFileSet) *parser.SourceFileSet {
	out := &parser.SourceFileSet{Base: fs.Base}
	for _, f := range fs.Files {
		nf := &parser.SourceFile{Name: f.Name, Base: f.Base, Size: f.Size}
		if len(f.Lines) > 0 {
			nf.Lines = append([]int(nil), f.Lines...)
		}
		out.Files = append(out.Files, nf)
	}
	if f := fs.LastFile; f != nil {
		// gob does not preserve pointer sharing: the cached last file comes back
		// as a copy of its own, not as the element of Files it was
		nf := &parser.SourceFile{Name: f.Name, Base: f.Base, Size: f.Size}
		if len(f.Lines) > 0 {
			nf.Lines = append([]int(nil), f.Lines...)
		}
		out.LastFile = nf
	}
	return out
}

// writeReadBack returns the bytecode as it is after Encode and Decode. In the
// engine the codec is the model above followed by the real fix-up of decoded
// objects; natively it is the real Bytecode.Encode / Bytecode.Decode.
func writeReadBack(bc *tengo.Bytecode, mods *tengo.ModuleMap) (*tengo.Bytecode, error) {
	if vf.Symbolic() {
		// the stream: values in the order they were encoded
		var q []interface{}
		vf.SetGob(func(e interface{}) error {
			q = append(q, e)
			return nil
		}, func(p interface{}) error {
			if len(q) == 0 {
				return io.EOF
			}
			v := q[0]
			q = q[1:]
			switch d := p.(type) {
			case **parser.SourceFileSet:
				*d = gobModelFileSet(v.(*parser.SourceFileSet))
			case **tengo.CompiledFunction:
				*d = gobModel(v.(*tengo.CompiledFunction)).(*tengo.CompiledFunction)
			case *[]tengo.Object:
				*d = gobModelSlice(v.([]tengo.Object))
			default:
				vf.Fail("gob model: Decode into a destination the model does not know")
			}
			return nil
		})
	}
	var buf bytes.Buffer
	if err := bc.Encode(&buf); err != nil {
		return nil, err
	}
	out := &tengo.Bytecode{}
	if err := out.Decode(bytes.NewReader(buf.Bytes()), mods); err != nil {
		return nil, err
	}
	return out, nil
}

// singletonsOK: after reading back, every bool and undefined reachable from
// the constants is the package singleton (Bool.Equals and the VM compare them
// by identity).
func singletonsOK(o tengo.Object, depth int) bool {
	if depth > 6 {
		return true
	}
	switch v := o.(type) {
	case *tengo.Bool:
		return v == tengo.TrueValue || v == tengo.FalseValue
	case *tengo.Undefined:
		return v == tengo.UndefinedValue
	case *tengo.Error:
		return singletonsOK(v.Value, depth+1)
	case *tengo.Array:
		for _, e := range v.Value {
			if !singletonsOK(e, depth+1) {
				return false
			}
		}
	case *tengo.ImmutableArray:
		for _, e := range v.Value {
			if !singletonsOK(e, depth+1) {
				return false
			}
		}
	case *tengo.Map:
		for _, e := range v.Value {
			if !singletonsOK(e, depth+1) {
				return false
			}
		}
	case *tengo.ImmutableMap:
		for _, e := range v.Value {
			if !singletonsOK(e, depth+1) {
				return false
			}
		}
	}
	return true
}

// C12_WriteRead: every program behaves the same before and after its
// bytecode is written out and read back (as the CLI does for compiled files:
// compile, RemoveDuplicates, Encode; Decode, run).
func C12_WriteRead() {
	k := vf.Choice("prog", len(dedupProgs)+len(Catalog)+len(Hostile))
	var p Prog
	switch {
	case k < len(dedupProgs):
		p = dedupProgs[k]
	case k < len(dedupProgs)+len(Catalog):
		p = Catalog[k-len(dedupProgs)]
	default:
		p = Hostile[k-len(dedupProgs)-len(Catalog)]
	}
	a, b := vf.Int64("a"), vf.Int64("b")
	c := vf.Bool("c")
	if p.Small {
		vf.Assume(a >= -1)
		vf.Assume(a <= 3)
		vf.Assume(b >= -1)
		vf.Assume(b <= 3)
	}
	var co tengo.Object = tengo.FalseValue
	if c {
		co = tengo.TrueValue
	}
	inputs := map[string]tengo.Object{"a": &tengo.Int{Value: a}, "b": &tengo.Int{Value: b}, "c": co}
	mods := c12Modules()
	bc, g1, _, err := compileRaw(p.Src, inputs, []string{"a", "b", "c"}, mods)
	vf.Assert(err == nil, "program compiles: "+p.Name)
	if vf.Choice("dedup-first", 2) == 1 {
		bc.RemoveDuplicates()
	}
	g2 := cloneGlobals(g1)
	var bc2 *tengo.Bytecode
	var werr error
	res := vf.Guard(func() { bc2, werr = writeReadBack(bc, mods) }, 6000000)
	vf.Assert(res == 0, "Encode/Decode return: "+p.Name+": "+vf.LastGuard())
	vf.Assert(werr == nil, "bytecode of a program without user functions in its constants is written and read back without error: "+p.Name)
	vf.Assert(len(bc2.Constants) == len(bc.Constants), "same number of constants after reading back: "+p.Name)
	for _, cst := range bc2.Constants {
		vf.Assert(singletonsOK(cst, 0), "true/false/undefined inside constants are the singletons again after reading back: "+p.Name)
	}
	e1, p1, t1 := runBC(bc, g1)
	e2, p2, t2 := runBC(bc2, g2)
	vf.Assert(p1 == p2 && t1 == t2, "same Go panic before and after writing out and reading back: "+p.Name)
	vf.Assert((e1 == nil) == (e2 == nil), "fails before iff fails after reading back: "+p.Name)
	if e1 != nil {
		vf.Assert(errText(e1) == errText(e2), "same error text and positions after reading back: "+p.Name)
	}
	vf.Assert(sameGlobalSlices(g1, g2), "same global values after reading back: "+p.Name)
	vf.Reach("writeread")
}

// C12_Gen: the generated grammar family (gen.go) through the CLI's chain:
// compile, run; RemoveDuplicates, run; write out and read back, run: same
// results, same errors, same positions at each stage.
func C12_Gen() {
	ps := GenPrograms()
	p := ps[vf.Choice("prog", len(ps))]
	a, b := vf.Int64("a"), vf.Int64("b")
	c := vf.Bool("c")
	var co tengo.Object = tengo.FalseValue
	if c {
		co = tengo.TrueValue
	}
	inputs := map[string]tengo.Object{"a": &tengo.Int{Value: a}, "b": &tengo.Int{Value: b}, "c": co}
	bc, g1, _, err := compileRaw(p.Src, inputs, []string{"a", "b", "c"}, nil)
	if err != nil {
		vf.Stop()
	}
	g2 := cloneGlobals(g1)
	g3 := cloneGlobals(g1)
	e1, p1, t1 := runBC(bc, g1)
	bc.RemoveDuplicates()
	msg := dedupOK(bc)
	vf.Assert(msg == "", "constant pool sound after de-duplication: "+p.Name+": "+msg)
	e2, p2, t2 := runBC(bc, g2)
	vf.Assert(p1 == p2 && t1 == t2, "same Go panic before and after de-duplication: "+p.Name)
	vf.Assert(errText(e1) == errText(e2), "same error text and positions after de-duplication: "+p.Name)
	vf.Assert(sameGlobalSlices(g1, g2), "same global values after de-duplication: "+p.Name)
	var bc2 *tengo.Bytecode
	var werr error
	res := vf.Guard(func() { bc2, werr = writeReadBack(bc, nil) }, 6000000)
	vf.Assert(res == 0, "Encode/Decode return: "+p.Name+": "+vf.LastGuard())
	vf.Assert(werr == nil, "bytecode is written and read back without error: "+p.Name)
	e3, p3, t3 := runBC(bc2, g3)
	vf.Assert(p1 == p3 && t1 == t3, "same Go panic before and after writing out and reading back: "+p.Name)
	vf.Assert(errText(e1) == errText(e3), "same error text and positions after reading back: "+p.Name)
	vf.Assert(sameGlobalSlices(g1, g3), "same global values after reading back: "+p.Name)
	vf.Reach("gen")
}

// ---- positions in source modules

// module names as an embedding application or a file import registers them:
// plain, with directory parts, absolute, with an extension, dotted
var c12ModNames = []string{"m", "lib/util", "./util", "a/b/c", "/abs/dir/mod.tengo", "mod.tengo", "../up", "x.y/z.w", "a//b", "lib/m"}

// failing sites: each program fails at run time for every input; the trace
// names positions in the main file and in one or two module files
var c12ModSites = []struct{ name, mod, main string }{
	{"in-module-function", "k := 1\nexport func(x) {\n  return x + \"s\" - k\n}", "f := import(\"@\")\nout := f(a)"},
	{"in-module-body", "y := [1, 2]\nz := 1 +\n  y\nexport z", "out := a\nv := import(\"@\")"},
	{"through-second-module", "export func(x) {\n  return -x\n}", "g := import(\"zz/apply\")\nf := import(\"@\")\nout := g(f, [a])"},
	{"in-main-after-import", "export func(x) {\n  return [x]\n}", "f := import(\"@\")\nout := f(a) +\n  1"},
}

// C12_ModulePositions: programs that fail inside (or next to) a source module,
// for every form of module name: the same error text and positions after
// de-duplication and after writing the bytecode out and reading it back, and
// the file set gives the same answer (file name, line, column) for the first
// and last position of every file.
func C12_ModulePositions() {
	name := c12ModNames[vf.Choice("name", len(c12ModNames))]
	site := c12ModSites[vf.Choice("site", len(c12ModSites))]
	a := vf.Int64("a")
	what := site.name + " module " + name
	mods := tengo.NewModuleMap()
	mods.AddSourceModule(name, []byte(site.mod))
	mods.AddSourceModule("zz/apply", []byte("export func(f, x) {\n  return f(x)\n}"))
	inputs := map[string]tengo.Object{"a": &tengo.Int{Value: a}}
	bc, g1, _, err := compileRaw(substAt(site.main, name), inputs, []string{"a"}, mods)
	vf.Assert(err == nil, "program compiles: "+what)
	g2 := cloneGlobals(g1)
	g3 := cloneGlobals(g1)
	e1, p1, _ := runBC(bc, g1)
	vf.Assert(e1 != nil && !p1, "the program fails with a run-time error: "+what)
	pos1 := filePositions(bc.FileSet)
	if vf.Choice("dedup-first", 2) == 1 {
		bc.RemoveDuplicates()
		e2, _, _ := runBC(bc, g2)
		vf.Assert(errText(e1) == errText(e2), "same error text and positions after de-duplication: "+what+": `"+errText(e1)+"` vs `"+errText(e2)+"`")
	}
	var bc2 *tengo.Bytecode
	var werr error
	res := vf.Guard(func() { bc2, werr = writeReadBack(bc, mods) }, 6000000)
	vf.Assert(res == 0 && werr == nil, "bytecode is written and read back: "+what+": "+vf.LastGuard())
	e3, _, _ := runBC(bc2, g3)
	vf.Assert(errText(e1) == errText(e3), "same error text and positions after reading back: "+what+": `"+errText(e1)+"` vs `"+errText(e3)+"`")
	vf.Assert(pos1 == filePositions(bc2.FileSet), "the file set answers position queries alike after reading back: "+what)
	vf.Reach("modpos")
}

// filePositions renders the first and last position of every file of a set.
func filePositions(fs *parser.SourceFileSet) string {
	out := ""
	for _, f := range fs.Files {
		for _, p := range []int{f.Base, f.Base + f.Size} {
			sp := fs.Position(parser.Pos(p))
			out += sp.String() + "|"
		}
	}
	return out
}
