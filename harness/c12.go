package h

// C12 — bytecode post-processing preserves behaviour (constant
// de-duplication). Serialization (encoding/gob) is reflection-driven and
// cannot be executed by the engine: see DESIGN.md, that half is not claimed.

import (
	"github.com/d5/tengo/v2"
	"github.com/d5/tengo/v2/parser"
	"verif/h/vf"
)

// compileRaw compiles with the public Compiler API and returns the bytecode
// *before* RemoveDuplicates, plus the globals initialised with the inputs.
func compileRaw(src string, inputs map[string]tengo.Object, names []string, mods *tengo.ModuleMap) (*tengo.Bytecode, []tengo.Object, *tengo.SymbolTable, error) {
	st := tengo.NewSymbolTable()
	for idx, fn := range tengo.GetAllBuiltinFunctions() {
		st.DefineBuiltin(idx, fn.Name)
	}
	globals := make([]tengo.Object, tengo.GlobalsSize)
	for _, n := range names {
		sym := st.Define(n)
		globals[sym.Index] = inputs[n]
	}
	fs := parser.NewFileSet()
	sf := fs.AddFile("(main)", -1, len(src))
	p := parser.NewParser(sf, []byte(src), nil)
	file, err := p.ParseFile()
	if err != nil {
		return nil, nil, nil, err
	}
	var getter tengo.ModuleGetter
	if mods != nil {
		getter = mods
	}
	c := tengo.NewCompiler(sf, st, nil, getter, nil)
	if err := c.Compile(file); err != nil {
		return nil, nil, nil, err
	}
	return c.Bytecode(), globals, st, nil
}

func cloneGlobals(g []tengo.Object) []tengo.Object {
	out := make([]tengo.Object, len(g))
	for i, o := range g {
		if o != nil {
			out[i] = o.Copy()
		}
	}
	return out
}

func runBC(bc *tengo.Bytecode, globals []tengo.Object) (err error, panicked bool, ptext string) {
	vm := tengo.NewVM(bc, globals, -1)
	res := vf.Guard(func() { err = vm.Run() }, 6000000)
	vf.Assert(res == 0 || res == 1, "run returns or panics recoverably: "+vf.LastGuard())
	if res == 1 {
		return nil, true, vf.LastGuard()
	}
	return err, false, ""
}

func sameGlobalSlices(x, y []tengo.Object) bool {
	acc := true
	for i := range x {
		if x[i] == nil || y[i] == nil {
			if (x[i] == nil) != (y[i] == nil) {
				return false
			}
			continue
		}
		acc = vf.And(acc, Same(x[i], y[i]))
	}
	return acc
}

// dedupOK: after RemoveDuplicates every constant reference is valid and no
// two de-duplicable constants (int, float, char, string) are equal.
func dedupOK(bc *tengo.Bytecode) string {
	if msg := verifyBytecode(bc); msg != "" {
		return msg
	}
	cs := bc.Constants
	for i := 0; i < len(cs); i++ {
		for j := i + 1; j < len(cs); j++ {
			dup := false
			switch x := cs[i].(type) {
			case *tengo.Int:
				if y, ok := cs[j].(*tengo.Int); ok {
					dup = x.Value == y.Value
				}
			case *tengo.Float:
				if y, ok := cs[j].(*tengo.Float); ok {
					dup = x.Value == y.Value
				}
			case *tengo.Char:
				if y, ok := cs[j].(*tengo.Char); ok {
					dup = x.Value == y.Value
				}
			case *tengo.String:
				if y, ok := cs[j].(*tengo.String); ok {
					dup = x.Value == y.Value
				}
			}
			if dup {
				return "two equal de-duplicable constants remain"
			}
		}
	}
	return ""
}

var dedupProgs = []Prog{
	{"repeated-literals", `x := 1 + 1 + 2; y := "s" + "s" + "t"; z := 1.5 + 1.5; w := 'c' == 'c'; out := [x, y, z, w, 1, "s", 1.5, 'c']`, false},
	{"funcs-share-consts", `f := func() { return 7 + a }; g := func() { return 7 + b }; h := func() { return func() { return 7 } }; out := f() + g() + h()()`, false},
	{"err-after-dedup", `f := func(x) { return x + "s" - 1 }; k := 1; out := f(a) + 1`, false},
	{"module-consts", `m := import("m"); out := m.v + 10 + m.f(10)`, false},
	{"maps-arrays", `out := {a: 10, b: [10, 10.0, "10", '1'], c: {a: 10}}; o2 := out.b[1] == 10`, false},
	{"mixed-zero", `out := [0, 0.0, -0.0, "", ' ', 0 == 0.0]`, false},
}

// C12_Dedup: every program behaves the same before and after
// RemoveDuplicates (results, errors, error positions).
func C12_Dedup() {
	k := vf.Choice("prog", len(dedupProgs)+len(Catalog)+len(Hostile))
	var p Prog
	switch {
	case k < len(dedupProgs):
		p = dedupProgs[k]
	case k < len(dedupProgs)+len(Catalog):
		p = Catalog[k-len(dedupProgs)]
	default:
		p = Hostile[k-len(dedupProgs)-len(Catalog)]
	}
	a, b := vf.Int64("a"), vf.Int64("b")
	c := vf.Bool("c")
	if p.Small {
		vf.Assume(a >= -1)
		vf.Assume(a <= 3)
		vf.Assume(b >= -1)
		vf.Assume(b <= 3)
	}
	var co tengo.Object = tengo.FalseValue
	if c {
		co = tengo.TrueValue
	}
	inputs := map[string]tengo.Object{"a": &tengo.Int{Value: a}, "b": &tengo.Int{Value: b}, "c": co}
	mods := tengo.NewModuleMap()
	mods.AddSourceModule("m", []byte(`export {v: 10, f: func(x) { return x + 10 }}`))
	bc, g1, _, err := compileRaw(p.Src, inputs, []string{"a", "b", "c"}, mods)
	vf.Assert(err == nil, "program compiles: "+p.Name)
	g2 := cloneGlobals(g1)
	e1, p1, t1 := runBC(bc, g1)
	bc.RemoveDuplicates()
	msg := dedupOK(bc)
	vf.Assert(msg == "", "constant pool sound after de-duplication: "+p.Name+": "+msg)
	e2, p2, t2 := runBC(bc, g2)
	vf.Assert(p1 == p2 && t1 == t2, "same Go panic before and after de-duplication: "+p.Name)
	vf.Assert((e1 == nil) == (e2 == nil), "fails before iff fails after de-duplication: "+p.Name)
	if e1 != nil {
		vf.Assert(errText(e1) == errText(e2), "same error text and positions after de-duplication: "+p.Name)
	}
	vf.Assert(sameGlobalSlices(g1, g2), "same global values after de-duplication: "+p.Name)
	vf.Reach("dedup")
}

// C12_SymbolicPool: a constant pool of symbolic ints/floats/chars/strings
// (so equal/unequal pairs, +0/-0 and NaN are chosen by the solver): loading
// every constant gives the same values before and after RemoveDuplicates.
func C12_SymbolicPool() {
	n := 2 + vf.Choice("n", 3)
	var consts []tengo.Object
	var insts []byte
	for k := 0; k < n; k++ {
		id := "k" + string(rune('0'+k))
		var o tengo.Object
		switch vf.Choice(id+".kind", 4) {
		case 0:
			o = &tengo.Int{Value: vf.Int64(id + ".i")}
		case 1:
			o = &tengo.Float{Value: vf.Float64(id + ".f")}
		case 2:
			o = &tengo.Char{Value: vf.Rune(id + ".c")}
		default:
			o = &tengo.String{Value: vf.String(id+".s", vf.Choice(id+".len", 2))}
		}
		consts = append(consts, o)
		insts = append(insts, tengo.MakeInstruction(parser.OpConstant, k)...)
		insts = append(insts, tengo.MakeInstruction(parser.OpSetGlobal, k)...)
	}
	insts = append(insts, tengo.MakeInstruction(parser.OpSuspend)...)
	mk := func() *tengo.Bytecode {
		return &tengo.Bytecode{FileSet: parser.NewFileSet(), MainFunction: &tengo.CompiledFunction{Instructions: append([]byte(nil), insts...)},
			Constants: append([]tengo.Object(nil), consts...)}
	}
	b1, b2 := mk(), mk()
	g1 := make([]tengo.Object, tengo.GlobalsSize)
	g2 := make([]tengo.Object, tengo.GlobalsSize)
	_, p1, _ := runBC(b1, g1)
	res := vf.Guard(func() { b2.RemoveDuplicates() }, 2000000)
	vf.Assert(res == 0, "RemoveDuplicates returns on a symbolic pool: "+vf.LastGuard())
	_, p2, _ := runBC(b2, g2)
	vf.Assert(!p1 && !p2, "loading constants does not panic")
	acc := true
	for k := 0; k < n; k++ {
		acc = vf.And(acc, Same(g1[k], g2[k]))
	}
	vf.Assert(acc, "every constant load yields the same value after de-duplication")
	vf.Assert(len(b2.Constants) <= len(b1.Constants), "de-duplication never grows the pool")
	vf.Reach("pool")
}
