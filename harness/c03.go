package h

// C03 — dead-code elimination never changes what a program does.

import (
	"github.com/d5/tengo/v2"
	"github.com/d5/tengo/v2/parser"
	"strconv"
	"verif/h/vf"
)

// deadCodeProgs put return/break/continue next to loops, conditionals,
// logical operators and code after a return; the failing ones report error
// positions that the optimizer's source-map remapping must preserve.
var deadCodeProgs = []Prog{
	{"ret-then-code", `f := func(x) { return x + 1; x = 2; return x }; out := f(a)`, false},
	{"ret-in-both", `f := func(x) { if x > b { return 1; x++ } else { return 2; x-- }; return 3 }; out := f(a)`, false},
	{"ret-in-loop", `f := func(x) { for i := 0; i < 3; i++ { if i == x { return i; i = 9 }; continue; x = 0 }; return -1 }; out := f(a)`, false},
	{"ret-before-loop-head", `f := func(x) { if c { return 5 }; for x > 0 { x--; if x == b { break; x = 7 } }; return x }; out := f(a)`, true},
	{"ret-logical", `f := func(x) { return x > 0 && b > 0; return false }; g := func(x) { return x > 0 || c; x = 1 }; out := f(a); o2 := g(a)`, false},
	{"dead-before-oror", `f := func(x) { if x == b { return 0; x = 9 }; y := x || 7; z := x && 8; return [y, z] }; out := f(a)`, false},
	{"dead-before-ternary", `f := func(x) { for x > 100 { return 1; x = 0 }; return x > b ? (x || 1) : (x && 2) }; out := f(a)`, false},
	{"dead-in-else-oror", `f := func(x) { if c { return 0 } else { x += 1 }; return x || b }; out := f(a)`, false},
	{"ret-ternary", `f := func(x) { return x > b ? 1 : 2; return 3 }; out := f(a)`, false},
	{"jump-to-end", `f := func(x) { if x > b { x = 1 } }; g := func(x) { for x > 0 { x-- } }; out := f(a); o2 := g(b)`, true},
	{"nested-dead", `f := func(x) { g := func(y) { return y; y++ }; return g(x) + 1; g = undefined }; out := f(a)`, false},
	{"err-after-dead", `f := func(x) { if c { return 1; x = 1 }; return x[0] }; out := f(a)`, false},
	{"err-in-loop-after-dead", `f := func(x) { for i := 0; i < 2; i++ { if i == b { continue; x = 0 }; if i == a { return 1 / (x - x) } }; return "s" + x - 1 }; out := f(a)`, false},
	{"err-in-called", `h := func(y) { return y.k.j }; f := func(x) { if c { return 0; x = 2 }; return h(x) + 1 }; out := f(a)`, false},
	{"main-dead", `out := a; if c { out = b }; for i := 0; i < 2; i++ { if i == a { break }; out += i }; o2 := out / (b - b)`, false},
}

func compileTwin(src string, p Prog, noopt bool) (*tengo.Compiled, error) {
	tengo.VerifNoOpt = noopt
	defer func() { tengo.VerifNoOpt = false }()
	s := tengo.NewScript([]byte(src))
	progInputs(s, p)
	return s.Compile()
}

func sameGlobals(x, y *tengo.Compiled) bool {
	acc := true
	for _, v := range x.GetAll() {
		w := y.Get(v.Name())
		acc = vf.And(acc, Same(v.Object(), w.Object()))
	}
	return acc
}

func errText(err error) string {
	if err == nil {
		return ""
	}
	return err.Error()
}

func c03Twin(p Prog) {
	vf.Assert(!tengo.VerifNoOptBroken, "optimizer switch overlay could be generated (anchor optimizeFunc present)")
	opt, e1 := compileTwin(p.Src, p, false)
	raw, e2 := compileTwin(p.Src, p, true)
	vf.Assert(e1 == nil && e2 == nil, "program compiles with and without dead-code elimination: "+p.Name)
	r1, p1, t1 := RunGuarded(opt)
	r2, p2, t2 := RunGuarded(raw)
	vf.Assert(p1 == p2 && t1 == t2, "optimized and unoptimized code raise the same Go panic: "+p.Name)
	if p1 {
		return
	}
	vf.Assert((r1 == nil) == (r2 == nil), "optimized and unoptimized code fail together: "+p.Name)
	if r1 != nil {
		vf.Assert(errText(r1) == errText(r2), "identical error text and positions: "+p.Name)
	} else {
		vf.Assert(sameGlobals(opt, raw), "identical global values: "+p.Name)
	}
}

// C03_TwinDead: optimized vs unoptimized compile of dead-code-heavy programs.
func C03_TwinDead() {
	p := deadCodeProgs[vf.Choice("prog", len(deadCodeProgs))]
	c03Twin(p)
	vf.Reach("twin")
}

// C03_TwinCatalog: the same over the shared catalog and the hostile programs.
func C03_TwinCatalog() {
	k := vf.Choice("prog", len(Catalog)+len(Hostile))
	if k < len(Catalog) {
		c03Twin(Catalog[k])
	} else {
		c03Twin(Hostile[k-len(Catalog)])
	}
	vf.Reach("twincat")
}

// C03_TwinGen: the same over the generated grammar family (gen.go): dead code
// after break/continue/return in every nesting of loops, conditionals and
// function literals.
func C03_TwinGen() {
	ps := GenPrograms()
	p := ps[vf.Choice("prog", len(ps))]
	c03TwinMay(p.Prog)
	vf.Reach("twingen")
}

// C03_TwinFail: twin compile of the generated failing programs (gen.go: one
// failing statement at every position of every small nesting, also directly
// after eliminated code): identical error text and positions; both map
// iteration orders the engine offers (the optimizer rebuilds the source map by
// iterating a Go map).
func C03_TwinFail() {
	ps := GenFailing()
	p := ps[vf.Choice("prog", len(ps))]
	vf.MapOrder(vf.Choice("maporder", 2))
	c03TwinMay(Prog{Name: p.Name, Src: p.Src})
	vf.Reach("twinfail")
}

// c03TwinMay: as c03Twin, for programs the compiler may reject: both
// compilers must then reject, with the same message.
func c03TwinMay(p Prog) {
	vf.Assert(!tengo.VerifNoOptBroken, "optimizer switch overlay could be generated (anchor optimizeFunc present)")
	_, e1 := compileTwin(p.Src, p, false)
	_, e2 := compileTwin(p.Src, p, true)
	if e1 != nil || e2 != nil {
		vf.Assert(errText(e1) == errText(e2), "rejected with and without dead-code elimination alike: "+p.Name)
		return
	}
	c03Twin(p)
}

// C03_Iterate: the optimizer reads every instruction with ReadOperands and
// writes it back with MakeInstruction (iterateInstructions): for every opcode
// and all operand values within the operand widths the two are inverse, so the
// re-encoding is the identity also for operands no catalog program contains
// (jump targets beyond 65535).
func C03_Iterate() {
	C02_Encoding()
	vf.Reach("iterate")
}

// ---- optimizer lemma on arbitrary small instruction streams

var lemmaOps = []byte{parser.OpTrue, parser.OpPop, parser.OpReturn, parser.OpJump, parser.OpJumpFalsy, parser.OpAndJump, parser.OpOrJump, parser.OpGetLocal,
	parser.OpBinaryOp, parser.OpConstant, parser.OpCall}

var lemmaOpsCore = []byte{parser.OpPop, parser.OpReturn, parser.OpJump, parser.OpJumpFalsy, parser.OpOrJump}

type linstr struct {
	op      byte
	operand int
	jump    bool
}

// C03_Lemma: run the real optimizer on a stream of k instructions with
// case-split opcodes and symbolic jump targets (constrained to instruction
// boundaries or the end); assert that exactly a set of unreachable
// instructions was removed, jumps were re-targeted to the images of their
// old targets, the source map follows, and a return is appended when needed.
func C03_Lemma() {
	k := 2 + vf.Choice("k", 3) // 2..4 instructions
	if Tier() > 0 {
		k = 2 + vf.Choice("k5", 4) // 2..5
	}
	// quick tier: streams of 4 instructions use the control-flow core of the
	// alphabet only (one filler, both returns, the four jumps)
	ops := lemmaOps
	if Tier() == 0 && k == 4 {
		ops = lemmaOpsCore
	}
	var is []linstr
	var starts []int
	var insts []byte
	for j := 0; j < k; j++ {
		op := ops[vf.Choice("op", len(ops))]
		in := linstr{op: op}
		starts = append(starts, len(insts))
		switch op {
		case parser.OpReturn:
			in.operand = vf.Choice("retv", 2)
			insts = append(insts, tengo.MakeInstruction(op, in.operand)...)
		case parser.OpGetLocal, parser.OpBinaryOp:
			// operand bytes are symbolic: the optimizer must treat them as data
			insts = append(insts, tengo.MakeInstruction(op, int(vf.Byte("o"+strconv.Itoa(j))))...)
		case parser.OpConstant:
			insts = append(insts, tengo.MakeInstruction(op, int(vf.Uint16("w"+strconv.Itoa(j))))...)
		case parser.OpCall:
			insts = append(insts, tengo.MakeInstruction(op, int(vf.Byte("o"+strconv.Itoa(j))), int(vf.Byte("p"+strconv.Itoa(j))))...)
		case parser.OpJump, parser.OpJumpFalsy, parser.OpAndJump, parser.OpOrJump:
			in.jump = true
			insts = append(insts, tengo.MakeInstruction(op, 0)...)
		default:
			insts = append(insts, tengo.MakeInstruction(op)...)
		}
		is = append(is, in)
	}
	end := len(insts)
	// jump targets: any instruction start or the end
	for j := range is {
		if is[j].jump {
			tk := vf.Choice("tgt", k+1)
			t := end
			if tk < k {
				t = starts[tk]
			}
			is[j].operand = t
			copy(insts[starts[j]:], tengo.MakeInstruction(is[j].op, t))
		}
	}
	srcMap := map[int]parser.Pos{}
	for j := range starts {
		srcMap[starts[j]] = parser.Pos(100 + j)
	}
	orig := append([]byte(nil), insts...)
	var out []byte
	var outMap map[int]parser.Pos
	res := vf.Guard(func() { out, outMap = tengo.VerifOptimize(insts, srcMap) }, 2000000)
	vf.Assert(res == 0, "optimizer returns on an arbitrary stream: "+vf.LastGuard())

	// reference reachability on the original CFG
	reach := make([]bool, k+1)
	work := []int{0}
	idxOf := func(pos int) int {
		for j, s := range starts {
			if s == pos {
				return j
			}
		}
		return k
	}
	for len(work) > 0 {
		j := work[len(work)-1]
		work = work[:len(work)-1]
		if j >= k || reach[j] {
			if j == k {
				reach[k] = true
			}
			continue
		}
		reach[j] = true
		switch is[j].op {
		case parser.OpReturn:
		case parser.OpJump:
			work = append(work, idxOf(is[j].operand))
		case parser.OpJumpFalsy, parser.OpAndJump, parser.OpOrJump:
			work = append(work, idxOf(is[j].operand), j+1)
		default:
			work = append(work, j+1)
		}
	}
	// decode the output and align it with the input (kept instructions in order)
	type oin struct {
		op      byte
		operand int
		pos     int
	}
	var outs []oin
	for p := 0; p < len(out); {
		op := out[p]
		operands, read := parser.ReadOperands(parser.OpcodeOperands[op], out[p+1:])
		o := oin{op: op, pos: p}
		if len(operands) > 0 {
			o.operand = operands[0]
		}
		outs = append(outs, o)
		p += 1 + read
	}
	image := make([]int, k+1) // original index -> output position (-1 removed)
	oi := 0
	for j := 0; j < k; j++ {
		image[j] = -1
		if oi < len(outs) && outs[oi].op == is[j].op && (reach[j] || true) {
			// greedy alignment is ambiguous for equal opcodes; use the source map
			// (each original instruction has a unique source position)
			if outMap[outs[oi].pos] == parser.Pos(100+j) {
				image[j] = outs[oi].pos
				oi++
			}
		}
	}
	appended := oi < len(outs)
	if appended {
		vf.Assert(oi == len(outs)-1 && outs[oi].op == parser.OpReturn && outs[oi].operand == 0, "only a single 'return' may be appended")
		image[k] = outs[oi].pos
	} else {
		image[k] = len(out)
	}
	for j := 0; j < k; j++ {
		if image[j] < 0 {
			vf.Assert(!reach[j], "a removed instruction was unreachable in the original function")
		}
	}
	// surviving jumps target the image of their old target
	oi = 0
	for j := 0; j < k; j++ {
		if image[j] < 0 {
			continue
		}
		if is[j].jump {
			told := idxOf(is[j].operand)
			vf.Assert(image[told] >= 0, "a surviving jump's target survives")
			vf.Assert(outs[oi].operand == image[told], "a surviving jump targets the image of its old target")
		} else if is[j].op == parser.OpReturn {
			vf.Assert(outs[oi].operand == is[j].operand, "operands of surviving instructions are unchanged")
		} else {
			// every byte of a surviving non-jump instruction is unchanged (operands symbolic)
			ln := end - starts[j]
			if j+1 < k {
				ln = starts[j+1] - starts[j]
			}
			same := true
			for q := 0; q < ln; q++ {
				same = vf.And(same, out[outs[oi].pos+q] == orig[starts[j]+q])
			}
			vf.Assert(same, "a surviving instruction keeps its operand bytes")
		}
		oi++
	}
	// a return is appended iff the last survivor is not a return or a jump targets the end
	lastRet := false
	jumpToEnd := false
	for j := 0; j < k; j++ {
		if image[j] >= 0 {
			lastRet = is[j].op == parser.OpReturn
			if is[j].jump && is[j].operand == end {
				jumpToEnd = true
			}
		}
	}
	vf.Assert(appended == (!lastRet || jumpToEnd), "return appended exactly when the function could fall off its end")
	_ = orig
	vf.Reach("lemma")
}
