package h

// C01 — compile-and-run agrees with the language's reference semantics.
// Oracle: package refsem, a direct AST-walking evaluator written from the
// language documentation (docs/*.md), executed by the engine on the same
// symbolic inputs as the real compiler + VM.

import (
	"github.com/d5/tengo/v2"
	"verif/h/refsem"
	"verif/h/vf"
)

func toRef(o tengo.Object) refsem.Value {
	switch x := o.(type) {
	case *tengo.Int:
		return refsem.Int{V: x.Value}
	case *tengo.Float:
		return refsem.Float{V: x.Value}
	case *tengo.Bool:
		return refsem.Bool{V: x == tengo.TrueValue}
	case *tengo.Char:
		return refsem.Char{V: x.Value}
	case *tengo.String:
		return refsem.String{V: x.Value}
	case *tengo.Bytes:
		return refsem.Bytes{V: append([]byte{}, x.Value...)}
	case *tengo.Time:
		return refsem.Time{V: x.Value}
	case *tengo.Undefined:
		return refsem.Undefined{}
	case *tengo.Error:
		return &refsem.Error{V: toRef(x.Value)}
	case *tengo.Array:
		a := &refsem.Array{}
		for _, e := range x.Value {
			a.Elems = append(a.Elems, toRef(e))
		}
		return a
	case *tengo.ImmutableArray:
		a := &refsem.Array{Immutable: true}
		for _, e := range x.Value {
			a.Elems = append(a.Elems, toRef(e))
		}
		return a
	case *tengo.Map:
		m := &refsem.Map{M: map[string]refsem.Value{}}
		for k, e := range x.Value {
			m.M[k] = toRef(e)
		}
		return m
	case *tengo.ImmutableMap:
		m := &refsem.Map{M: map[string]refsem.Value{}, Immutable: true}
		for k, e := range x.Value {
			m.M[k] = toRef(e)
		}
		return m
	}
	panic("toRef: unsupported object")
}

// sameRef: the reference value w and the real object g denote the same value.
func sameRef(w refsem.Value, g tengo.Object) bool {
	switch x := w.(type) {
	case refsem.Int:
		y, ok := g.(*tengo.Int)
		return ok && x.V == y.Value
	case refsem.Float:
		y, ok := g.(*tengo.Float)
		if !ok {
			return false
		}
		return vf.Or(x.V == y.Value, vf.And(x.V != x.V, y.Value != y.Value))
	case refsem.Bool:
		y, ok := g.(*tengo.Bool)
		return ok && x.V == (y == tengo.TrueValue)
	case refsem.Char:
		y, ok := g.(*tengo.Char)
		return ok && x.V == y.Value
	case refsem.String:
		y, ok := g.(*tengo.String)
		return ok && x.V == y.Value
	case refsem.Bytes:
		y, ok := g.(*tengo.Bytes)
		return ok && string(x.V) == string(y.Value)
	case refsem.Time:
		y, ok := g.(*tengo.Time)
		return ok && x.V.Equal(y.Value)
	case refsem.Undefined:
		_, ok := g.(*tengo.Undefined)
		return ok
	case *refsem.Error:
		y, ok := g.(*tengo.Error)
		return ok && sameRef(x.V, y.Value)
	case *refsem.Array:
		var gv []tengo.Object
		if x.Immutable {
			y, ok := g.(*tengo.ImmutableArray)
			if !ok {
				return false
			}
			gv = y.Value
		} else {
			y, ok := g.(*tengo.Array)
			if !ok {
				return false
			}
			gv = y.Value
		}
		if len(gv) != len(x.Elems) {
			return false
		}
		acc := true
		for k := range gv {
			acc = vf.And(acc, sameRef(x.Elems[k], gv[k]))
		}
		return acc
	case *refsem.Map:
		var gm map[string]tengo.Object
		if x.Immutable {
			y, ok := g.(*tengo.ImmutableMap)
			if !ok {
				return false
			}
			gm = y.Value
		} else {
			y, ok := g.(*tengo.Map)
			if !ok {
				return false
			}
			gm = y.Value
		}
		if len(gm) != len(x.M) {
			return false
		}
		acc := true
		for k, wv := range x.M {
			gv, ok := gm[k]
			if !ok {
				return false
			}
			acc = vf.And(acc, sameRef(wv, gv))
		}
		return acc
	case *refsem.Func:
		_, ok := g.(*tengo.CompiledFunction)
		return ok
	case refsem.Builtin:
		y, ok := g.(*tengo.BuiltinFunction)
		return ok && y.Name == x.Name
	case *refsem.Builtin:
		y, ok := g.(*tengo.BuiltinFunction)
		return ok && y.Name == x.Name
	}
	return false
}

const kindGoPanic refsem.ErrKind = 100

func hasPrefix(s, p string) bool { return len(s) >= len(p) && s[:len(p)] == p }

// classify maps a real run-time error to the reference error classes.
func classifyErr(msg string) refsem.ErrKind {
	first := msg
	for i := 0; i < len(first); i++ {
		if first[i] == '\n' {
			first = first[:i]
			break
		}
	}
	if hasPrefix(first, "Runtime Error: ") {
		first = first[len("Runtime Error: "):]
	}
	switch {
	case contains(first, "integer divide by zero"):
		return refsem.DivisionByZero
	case hasPrefix(first, "runtime error:"):
		return kindGoPanic
	case hasPrefix(first, "invalid operation"):
		return refsem.InvalidOperation
	case hasPrefix(first, "not indexable"):
		return refsem.NotIndexable
	case hasPrefix(first, "not index-assignable"):
		return refsem.NotIndexAssignable
	case hasPrefix(first, "index out of bounds"):
		return refsem.IndexOutOfBounds
	case hasPrefix(first, "invalid index type"), hasPrefix(first, "invalid slice index type"):
		return refsem.InvalidIndexType
	case hasPrefix(first, "wrong number of arguments"):
		return refsem.WrongNumArguments
	case hasPrefix(first, "invalid type for argument"):
		return refsem.InvalidArgumentType
	case hasPrefix(first, "not callable"):
		return refsem.NotCallable
	case hasPrefix(first, "not iterable"):
		return refsem.NotIterable
	case hasPrefix(first, "stack overflow"):
		return refsem.StackOverflow
	}
	return refsem.OtherRuntimeError
}

// realOutcome runs src through Script.Add/Compile/Run and classifies.
func realOutcome(src string, inputs map[string]tengo.Object) (kind refsem.ErrKind, c *tengo.Compiled, text string) {
	s := tengo.NewScript([]byte(src))
	for k, v := range inputs {
		_ = s.Add(k, v)
	}
	var err error
	var cerr error
	res := vf.Guard(func() { c, cerr = s.Compile() }, 8000000)
	vf.Assert(res == 0, "compiler returns (no panic, no hang): "+vf.LastGuard())
	if cerr != nil {
		return refsem.CompileError, nil, cerr.Error()
	}
	var ptext string
	var panicked bool
	err, panicked, ptext = RunGuarded(c)
	if panicked {
		if contains(ptext, "integer divide by zero") {
			return refsem.DivisionByZero, c, ptext
		}
		return kindGoPanic, c, ptext
	}
	if err != nil {
		return classifyErr(err.Error()), c, err.Error()
	}
	return refsem.OK, c, ""
}

// agree compares the real outcome with the reference outcome.
func agree(what, src string, inputs map[string]tengo.Object) {
	rin := map[string]refsem.Value{}
	for k, v := range inputs {
		rin[k] = toRef(v)
	}
	ref := refsem.Run(src, rin, 200000)
	if ref.Kind == refsem.Unsupported {
		vf.Stop()
	}
	kind, c, text := realOutcome(src, inputs)
	vf.Assert(kind == ref.Kind, what+": outcome class differs from the reference semantics (reference: "+ref.Kind.String()+" "+ref.Msg+"; real: "+text+")")
	if c != nil && (kind == refsem.OK || true) {
		acc := true
		for name, w := range ref.Globals {
			acc = vf.And(acc, sameRef(w, c.Get(name).Object()))
		}
		vf.Assert(acc, what+": a global differs from the reference semantics")
	}
}

var binOpTexts = []string{"+", "-", "*", "/", "%", "&", "|", "^", "&^", "<<", ">>", "==", "!=", "<", "<=", ">", ">=", "&&", "||"}

// heavyArith: operators whose symbolic-by-symbolic 64-bit form stalls the solver.
func heavyArith(op string) bool { return op == "*" || op == "/" || op == "%" }

func renderSafe(o tengo.Object, id string) tengo.Object {
	switch o.(type) {
	case *tengo.Int, *tengo.Float, *tengo.Time:
		return boundaryNumeric(o, id)
	case *tengo.Array:
		return concreteContainer(TArray)
	case *tengo.ImmutableArray:
		return concreteContainer(TImmArray)
	case *tengo.Map:
		return concreteContainer(TMap)
	case *tengo.ImmutableMap:
		return concreteContainer(TImmMap)
	case *tengo.Error:
		return concreteContainer(TError)
	}
	return o
}

// C01_BinaryOps: `out := a OP b` for every binary operator and every pair of
// runtime types, payloads symbolic.
func C01_BinaryOps() {
	op := binOpTexts[vf.Choice("op", len(binOpTexts))]
	a, _ := AnyObj("a", 0)
	b := LiteObj("b")
	if heavyArith(op) {
		b = boundaryNumeric(b, "b")
	}
	if op == "+" {
		// string + x / x + string render x: decimal rendering of symbolic
		// payloads is outside the solver's reach (boundary set instead)
		if _, ok := a.(*tengo.String); ok {
			b = renderSafe(b, "b")
		}
		if _, ok := b.(*tengo.String); ok {
			a = renderSafe(a, "a")
		}
	}
	agree("a "+op+" b", "out := a "+op+" b", map[string]tengo.Object{"a": a, "b": b})
	vf.Reach("binops")
}

var unOpTexts = []string{"-", "!", "^", "+"}

// C01_UnaryOps: `out := OP a`.
func C01_UnaryOps() {
	op := unOpTexts[vf.Choice("op", len(unOpTexts))]
	a, _ := AnyObj("a", 1)
	agree(op+"a", "out := "+op+"a", map[string]tengo.Object{"a": a})
	vf.Reach("unops")
}

var indexProgs = []string{
	`out := a[i]`,
	`out := a[i:j]`,
	`out := a[:j]`,
	`out := a[i:]`,
	`out := a.k`,
	`out := a["k"]`,
	`x := a; x[i] = b; out := x`,
	`x := a; x.k = b; out := x`,
	`x := [a, a]; x[1][i] = b; out := x`,
	`out := a[i][j]`,
}

// C01_Indexing: index, slice, selector reads and writes with symbolic indices.
func C01_Indexing() {
	src := indexProgs[vf.Choice("prog", len(indexProgs))]
	a, _ := AnyObj("a", 1)
	if sv, ok := a.(*tengo.String); ok && Tier() == 0 {
		// quick tier: ASCII contents (rune decoding of arbitrary bytes under a
		// symbolic index multiplies paths; the thorough tier has no such assumption)
		for k := 0; k < len(sv.Value); k++ {
			vf.Assume(sv.Value[k] < 0x80)
		}
	}
	var i, j tengo.Object
	if vf.Choice("ikind", 2) == 0 {
		i = LiteObj("i")
	} else {
		i = &tengo.Int{Value: vf.Int64("i.i")}
	}
	switch a.(type) {
	case *tengo.Map, *tengo.ImmutableMap, *tengo.Error:
		// map/error indexing renders the index as text: boundary values
		i = renderSafe(i, "i")
	}
	j = &tengo.Int{Value: vf.Int64("j.i")}
	b := &tengo.Int{Value: vf.Int64("b.i")}
	agree(src, src, map[string]tengo.Object{"a": a, "i": i, "j": j, "b": b})
	vf.Reach("indexing")
}

var c01Builtins = []string{"len", "copy", "append", "delete", "splice", "type_name", "string", "int", "bool", "float", "char", "bytes", "time",
	"is_string", "is_int", "is_bool", "is_float", "is_char", "is_bytes", "is_error", "is_undefined", "is_function", "is_callable",
	"is_array", "is_immutable_array", "is_map", "is_immutable_map", "is_iterable", "is_time", "range", "freeze"}

// C01_Builtins: `out := f(args...)` with 0..2 arguments (3 for splice/range).
func C01_Builtins() {
	name := c01Builtins[vf.Choice("builtin", len(c01Builtins))]
	maxArgs := 2
	if name == "splice" || name == "range" {
		maxArgs = 3
	}
	n := vf.Choice("nargs", maxArgs+1)
	inputs := map[string]tengo.Object{}
	call := name + "("
	for k := 0; k < n; k++ {
		id := "x" + string(rune('0'+k))
		var o tengo.Object
		switch {
		case name == "range":
			o = &tengo.Int{Value: vf.Int64(id + ".i")}
		case k == 0:
			o, _ = AnyObj(id, 1)
		default:
			o = LiteObj(id)
		}
		if name == "string" || name == "bytes" && k == 0 {
			o = renderSafe(o, id)
		}
		if name == "bytes" {
			if iv, ok := o.(*tengo.Int); ok {
				vf.Assume(iv.Value >= 0)
				vf.Assume(iv.Value <= 4)
			}
		}
		if name == "time" || name == "string" {
			if iv, ok := o.(*tengo.Int); ok {
				vf.Assume(iv.Value > -(1 << 55))
				vf.Assume(iv.Value < (1 << 55))
			}
		}
		inputs[id] = o
		if k > 0 {
			call += ", "
		}
		call += id
	}
	call += ")"
	if name == "range" && n >= 2 {
		start, stop := inputs["x0"].(*tengo.Int).Value, inputs["x1"].(*tengo.Int).Value
		if vf.Choice("dir", 2) == 0 {
			vf.Assume(start <= stop)
			d := stop - start
			vf.Assume(d >= 0)
			vf.Assume(d <= 4)
		} else {
			vf.Assume(start > stop)
			d := start - stop
			vf.Assume(d >= 0)
			vf.Assume(d <= 4)
		}
	}
	agree(call, "out := "+call, inputs)
	vf.Reach("builtins")
}

// C01_Catalog: the control/scope skeletons against the reference semantics.
func C01_Catalog() {
	k := vf.Choice("prog", len(Catalog)+len(Hostile))
	var p Prog
	if k < len(Catalog) {
		p = Catalog[k]
	} else {
		p = Hostile[k-len(Catalog)]
	}
	a, b := vf.Int64("a"), vf.Int64("b")
	c := vf.Bool("c")
	if p.Small {
		vf.Assume(a >= -1)
		vf.Assume(a <= 3)
		vf.Assume(b >= -1)
		vf.Assume(b <= 3)
	}
	var co tengo.Object = tengo.FalseValue
	if c {
		co = tengo.TrueValue
	}
	agree(p.Name, p.Src, map[string]tengo.Object{"a": &tengo.Int{Value: a}, "b": &tengo.Int{Value: b}, "c": co})
	vf.Reach("catalog")
}

// C01_Gen: every program of the generated grammar family (gen.go) against the
// reference semantics, inputs a, b (full int64) and c symbolic.
func C01_Gen() {
	ps := GenPrograms()
	p := ps[vf.Choice("prog", len(ps))]
	a, b := vf.Int64("a"), vf.Int64("b")
	c := vf.Bool("c")
	var co tengo.Object = tengo.FalseValue
	if c {
		co = tengo.TrueValue
	}
	agree(p.Name, p.Src, map[string]tengo.Object{"a": &tengo.Int{Value: a}, "b": &tengo.Int{Value: b}, "c": co})
	vf.Reach("gen")
}

// C01_Alias: the aliasing family (alias.go): a container, a value derived from
// it by a builtin, an operator, a call or a literal, a write through the source
// or through the derived value (or a second derivation from the same source),
// then both are read and compared with the reference semantics: which derived
// values share storage with their source is part of the language.
func C01_Alias() {
	ps := aliasProgs()
	src := ps[vf.Choice("prog", len(ps))]
	a, b := vf.Int64("a"), vf.Int64("b")
	agree(src, src, map[string]tengo.Object{"a": &tengo.Int{Value: a}, "b": &tengo.Int{Value: b}})
	vf.Reach("alias")
}
