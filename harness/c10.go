package h

// C10 — equality, ordering, truthiness, copy and conversion obey their laws.

import (
	"strconv"
	"time"

	"github.com/d5/tengo/v2"
	"github.com/d5/tengo/v2/token"
	"verif/h/vf"
)

func isTrue(o tengo.Object) bool { return !o.IsFalsy() }

// binop evaluates a OP b at object level; ok=false when the operation is an
// invalid-operator error.
func binop(a tengo.Object, op token.Token, b tengo.Object) (res tengo.Object, ok bool) {
	r, err := a.BinaryOp(op, b)
	if err != nil {
		return nil, false
	}
	return r, true
}

// C10_EqSymmetric: == is symmetric for every pair of U(1,w) (object level:
// the two calls run different Equals methods).
func C10_EqSymmetric() {
	a, _ := AnyObj("a", 1)
	b, _ := AnyObj("b", 1)
	ab := a.Equals(b)
	ba := b.Equals(a)
	vf.Assert(vf.Iff(ab, ba), "a==b iff b==a")
	vf.Reach("eqsym")
}

// C10_EqScript: at script level, (a != b) is the negation of (a == b) and
// == is symmetric; runs the compiler and VM (OpEqual/OpNotEqual).
func C10_EqScript() {
	a, _ := AnyObj("a", 1)
	b, _ := AnyObj("b", 1)
	s := tengo.NewScript([]byte(`eq := a == b; ne := a != b; qe := b == a`))
	_ = s.Add("a", a)
	_ = s.Add("b", b)
	c, err := s.Compile()
	vf.Assert(err == nil, "compiles")
	vf.Assert(c.Run() == nil, "runs")
	eq, ne, qe := c.Get("eq").Bool(), c.Get("ne").Bool(), c.Get("qe").Bool()
	vf.Assert(vf.Iff(eq, vf.Not(ne)), "!= is the negation of ==")
	vf.Assert(vf.Iff(eq, qe), "== symmetric (script)")
	vf.Reach("eqscript")
}

// C10_OrderDual: a<b iff b>a and a<=b iff b>=a, with the same error-ness,
// for every pair of runtime types.
func C10_OrderDual() {
	a, _ := AnyObj("a", 1)
	b, _ := AnyObj("b", 1)
	lt, ok1 := binop(a, token.Less, b)
	gt, ok2 := binop(b, token.Greater, a)
	vf.Assert(ok1 == ok2, "a<b and b>a fail together")
	if ok1 && ok2 {
		vf.Assert(vf.Iff(isTrue(lt), isTrue(gt)), "a<b iff b>a")
	}
	le, ok3 := binop(a, token.LessEq, b)
	ge, ok4 := binop(b, token.GreaterEq, a)
	vf.Assert(ok3 == ok4, "a<=b and b>=a fail together")
	if ok3 && ok4 {
		vf.Assert(vf.Iff(isTrue(le), isTrue(ge)), "a<=b iff b>=a")
	}
	vf.Assert(ok1 == ok3, "< and <= are defined for the same type pairs")
	vf.Reach("orderdual")
}

var orderedPairs = [][2]int{
	{TInt, TInt}, {TChar, TChar}, {TString, TString}, {TTime, TTime}, {TFloat, TFloat},
	{TInt, TFloat}, {TFloat, TInt},
}

func notNaN(o tengo.Object) bool {
	if f, ok := o.(*tengo.Float); ok {
		return f.Value == f.Value
	}
	return true
}

// C10_Trichotomy: for same ordered type and int/float pairs exactly one of
// <, ==, > holds; <= is < or ==; >= is > or ==.
func C10_Trichotomy() {
	p := orderedPairs[vf.Choice("pair", len(orderedPairs))]
	a := Obj("a", p[0], 0)
	b := Obj("b", p[1], 0)
	vf.Assume(notNaN(a))
	vf.Assume(notNaN(b))
	ltO, ok1 := binop(a, token.Less, b)
	gtO, ok2 := binop(a, token.Greater, b)
	leO, ok3 := binop(a, token.LessEq, b)
	geO, ok4 := binop(a, token.GreaterEq, b)
	vf.Assert(ok1 && ok2 && ok3 && ok4, "comparison operators defined on ordered pair")
	lt, gt, le, ge := isTrue(ltO), isTrue(gtO), isTrue(leO), isTrue(geO)
	eq := a.Equals(b)
	one := vf.Or(vf.Or(vf.And(lt, vf.And(vf.Not(eq), vf.Not(gt))), vf.And(eq, vf.And(vf.Not(lt), vf.Not(gt)))), vf.And(gt, vf.And(vf.Not(lt), vf.Not(eq))))
	vf.Assert(one, "exactly one of <, ==, >")
	vf.Assert(vf.Iff(le, vf.Or(lt, eq)), "<= is < or ==")
	vf.Assert(vf.Iff(ge, vf.Or(gt, eq)), ">= is > or ==")
	vf.Reach("tricho")
}

// C10_IntChar: int/char pairs are ordered by code point and never equal.
func C10_IntChar() {
	i := vf.Int64("i")
	c := vf.Rune("c")
	io, co := &tengo.Int{Value: i}, &tengo.Char{Value: c}
	var a, b tengo.Object = io, co
	av, bv := i, int64(c)
	if vf.Choice("order", 2) == 1 {
		a, b = co, io
		av, bv = int64(c), i
	}
	vf.Assert(!a.Equals(b), "int and char are never ==")
	for _, t := range []struct {
		op   token.Token
		want bool
		msg  string
	}{
		{token.Less, av < bv, "int/char < by code point"},
		{token.Greater, av > bv, "int/char > by code point"},
		{token.LessEq, av <= bv, "int/char <= by code point"},
		{token.GreaterEq, av >= bv, "int/char >= by code point"},
	} {
		r, ok := binop(a, t.op, b)
		vf.Assert(ok, "int/char comparison defined")
		vf.Assert(vf.Iff(isTrue(r), t.want), t.msg)
	}
	vf.Reach("intchar")
}

// C10_Truthy: IsFalsy equals the documented table (docs/runtime-types.md),
// and script-level !x agrees.
func C10_Truthy() {
	a, t := AnyObj("a", 1)
	var want bool
	switch x := a.(type) {
	case *tengo.Int:
		want = x.Value == 0
	case *tengo.String:
		want = len(x.Value) == 0
	case *tengo.Float:
		want = x.Value != x.Value
	case *tengo.Bool:
		want = x == tengo.FalseValue
	case *tengo.Char:
		want = x.Value == 0
	case *tengo.Bytes:
		want = len(x.Value) == 0
	case *tengo.Array:
		want = len(x.Value) == 0
	case *tengo.ImmutableArray:
		want = len(x.Value) == 0
	case *tengo.Map:
		want = len(x.Value) == 0
	case *tengo.ImmutableMap:
		want = len(x.Value) == 0
	case *tengo.Time:
		want = x.Value.IsZero()
	case *tengo.Error:
		want = true
	case *tengo.Undefined:
		want = true
	default:
		vf.Fail("unexpected type")
	}
	vf.Assert(vf.Iff(a.IsFalsy(), want), "IsFalsy follows the documented table: "+typeNames[t])
	vf.Reach("truthy")
}

// C10_TruthyScript: !x, bool(x) and `x ? 1 : 0` agree with IsFalsy.
func C10_TruthyScript() {
	a, _ := AnyObj("a", 0)
	s := tengo.NewScript([]byte(`n := !a; b := bool(a); t := a ? 1 : 0; u := 0; if a { u = 1 }`))
	_ = s.Add("a", a)
	c, err := s.Compile()
	vf.Assert(err == nil, "compiles")
	vf.Assert(c.Run() == nil, "runs")
	f := a.IsFalsy()
	vf.Assert(vf.Iff(c.Get("n").Bool(), f), "!x")
	vf.Assert(vf.Iff(c.Get("b").Bool(), vf.Not(f)), "bool(x)")
	vf.Assert(vf.Iff(c.Get("t").Int() == 1, vf.Not(f)), "x ? 1 : 0")
	vf.Assert(vf.Iff(c.Get("u").Int() == 1, vf.Not(f)), "if x")
	vf.Reach("truthyscript")
}

func hasNaN(o tengo.Object) bool {
	switch x := o.(type) {
	case *tengo.Float:
		return x.Value != x.Value
	case *tengo.Error:
		return hasNaN(x.Value)
	}
	return false
}

// noShare asserts that mutable containers reachable from c are not the ones
// reachable from a (pointer identity of the containers and their storage).
func noShare(a, c tengo.Object) {
	switch x := a.(type) {
	case *tengo.Array:
		y, ok := c.(*tengo.Array)
		vf.Assert(ok && x != y, "copy of array is a distinct array")
		if len(x.Value) > 0 {
			vf.Assert(&x.Value[0] != &y.Value[0], "copy of array has its own storage")
		}
		for k := range x.Value {
			noShare(x.Value[k], y.Value[k])
		}
	case *tengo.ImmutableArray:
		y, ok := c.(*tengo.Array)
		vf.Assert(ok, "copy of immutable array is an array")
		if len(x.Value) > 0 {
			vf.Assert(&x.Value[0] != &y.Value[0], "copy of immutable array has its own storage")
		}
		for k := range x.Value {
			noShare(x.Value[k], y.Value[k])
		}
	case *tengo.Map:
		y, ok := c.(*tengo.Map)
		vf.Assert(ok && x != y, "copy of map is a distinct map")
		n := len(x.Value)
		y.Value["zz_probe"] = tengo.UndefinedValue
		vf.Assert(len(x.Value) == n, "copy of map has its own storage")
		delete(y.Value, "zz_probe")
		for k := range x.Value {
			noShare(x.Value[k], y.Value[k])
		}
	case *tengo.ImmutableMap:
		y, ok := c.(*tengo.Map)
		vf.Assert(ok, "copy of immutable map is a map")
		n := len(x.Value)
		y.Value["zz_probe"] = tengo.UndefinedValue
		vf.Assert(len(x.Value) == n, "copy of immutable map has its own storage")
		delete(y.Value, "zz_probe")
		for k := range x.Value {
			noShare(x.Value[k], y.Value[k])
		}
	case *tengo.Bytes:
		y, ok := c.(*tengo.Bytes)
		vf.Assert(ok, "copy of bytes is bytes")
		if len(x.Value) > 0 {
			vf.Assert(&x.Value[0] != &y.Value[0], "copy of bytes has its own storage")
		}
	case *tengo.Error:
		y, ok := c.(*tengo.Error)
		vf.Assert(ok, "copy of error is error")
		noShare(x.Value, y.Value)
	}
}

// sameCopy: like Same, except that copies of immutable containers are mutable.
func sameCopy(a, c tengo.Object) bool {
	switch x := a.(type) {
	case *tengo.ImmutableArray:
		y, ok := c.(*tengo.Array)
		if !ok || len(x.Value) != len(y.Value) {
			return false
		}
		acc := true
		for k := range x.Value {
			acc = vf.And(acc, sameCopy(x.Value[k], y.Value[k]))
		}
		return acc
	case *tengo.Array:
		y, ok := c.(*tengo.Array)
		if !ok || len(x.Value) != len(y.Value) {
			return false
		}
		acc := true
		for k := range x.Value {
			acc = vf.And(acc, sameCopy(x.Value[k], y.Value[k]))
		}
		return acc
	case *tengo.ImmutableMap:
		y, ok := c.(*tengo.Map)
		if !ok || len(x.Value) != len(y.Value) {
			return false
		}
		acc := true
		for k, xv := range x.Value {
			yv, ok := y.Value[k]
			if !ok {
				return false
			}
			acc = vf.And(acc, sameCopy(xv, yv))
		}
		return acc
	case *tengo.Map:
		y, ok := c.(*tengo.Map)
		if !ok || len(x.Value) != len(y.Value) {
			return false
		}
		acc := true
		for k, xv := range x.Value {
			yv, ok := y.Value[k]
			if !ok {
				return false
			}
			acc = vf.And(acc, sameCopy(xv, yv))
		}
		return acc
	case *tengo.Error:
		y, ok := c.(*tengo.Error)
		return ok && sameCopy(x.Value, y.Value)
	}
	return Same(a, c)
}

// C10_Copy: copy yields an equal value that shares no mutable state.
func C10_Copy() {
	a, _ := AnyObj("a", 2)
	c := a.Copy()
	vf.Assert(sameCopy(a, c), "copy is structurally the same value")
	if !hasNaN(a) {
		// == as the language defines it (NaN != NaN is IEEE, not a copy defect)
		vf.Assert(vf.Implies(notNaNDeep(a), a.Equals(c)), "copy(a) == a")
	}
	noShare(a, c)
	vf.Reach("copy")
}

func notNaNDeep(o tengo.Object) bool {
	switch x := o.(type) {
	case *tengo.Float:
		return x.Value == x.Value
	case *tengo.Array:
		acc := true
		for _, e := range x.Value {
			acc = vf.And(acc, notNaNDeep(e))
		}
		return acc
	case *tengo.ImmutableArray:
		acc := true
		for _, e := range x.Value {
			acc = vf.And(acc, notNaNDeep(e))
		}
		return acc
	case *tengo.Map:
		acc := true
		for _, e := range x.Value {
			acc = vf.And(acc, notNaNDeep(e))
		}
		return acc
	case *tengo.ImmutableMap:
		acc := true
		for _, e := range x.Value {
			acc = vf.And(acc, notNaNDeep(e))
		}
		return acc
	case *tengo.Error:
		return notNaNDeep(x.Value)
	}
	return true
}

func builtinFn(name string) tengo.CallableFunc {
	for _, b := range tengo.GetAllBuiltinFunctions() {
		if b.Name == name {
			return b.Value
		}
	}
	panic("no builtin " + name)
}

var convNames = []string{"int", "float", "bool", "char", "string", "bytes", "time"}

// convExpect is the documented conversion table (docs/runtime-types.md,
// docs/builtins.md): ok=false where the table has X.
func convExpect(dst string, x tengo.Object) (want tengo.Object, ok bool) {
	switch dst {
	case "int":
		switch v := x.(type) {
		case *tengo.Int:
			return v, true
		case *tengo.Float:
			return &tengo.Int{Value: int64(v.Value)}, true
		case *tengo.Bool:
			if v == tengo.TrueValue {
				return &tengo.Int{Value: 1}, true
			}
			return &tengo.Int{Value: 0}, true
		case *tengo.Char:
			return &tengo.Int{Value: int64(v.Value)}, true
		case *tengo.String:
			n, err := strconv.ParseInt(v.Value, 10, 64)
			if err == nil {
				return &tengo.Int{Value: n}, true
			}
		}
	case "float":
		switch v := x.(type) {
		case *tengo.Float:
			return v, true
		case *tengo.Int:
			return &tengo.Float{Value: float64(v.Value)}, true
		case *tengo.String:
			f, err := strconv.ParseFloat(v.Value, 64)
			if err == nil {
				return &tengo.Float{Value: f}, true
			}
		}
	case "bool":
		if x.IsFalsy() {
			return tengo.FalseValue, true
		}
		return tengo.TrueValue, true
	case "char":
		switch v := x.(type) {
		case *tengo.Char:
			return v, true
		case *tengo.Int:
			return &tengo.Char{Value: rune(v.Value)}, true
		}
	case "string":
		switch v := x.(type) {
		case *tengo.String:
			return v, true
		case *tengo.Undefined:
			return nil, false
		case *tengo.Int:
			return &tengo.String{Value: strconv.FormatInt(v.Value, 10)}, true
		case *tengo.Bool:
			if v == tengo.TrueValue {
				return &tengo.String{Value: "true"}, true
			}
			return &tengo.String{Value: "false"}, true
		case *tengo.Char:
			return &tengo.String{Value: string(v.Value)}, true
		case *tengo.Bytes:
			return &tengo.String{Value: string(v.Value)}, true
		default:
			return &tengo.String{Value: x.String()}, true
		}
	case "bytes":
		switch v := x.(type) {
		case *tengo.Bytes:
			return v, true
		case *tengo.String:
			return &tengo.Bytes{Value: []byte(v.Value)}, true
		}
	case "time":
		switch v := x.(type) {
		case *tengo.Time:
			return v, true
		case *tengo.Int:
			return &tengo.Time{Value: time.Unix(v.Value, 0)}, true
		}
	}
	return nil, false
}

// convArg builds the argument for conversion dst. Payloads whose rendering
// would need strconv's float formatting or time formatting on a symbolic
// value use a boundary set instead (stated bound, DESIGN §4 C10).
func convArg(dst string) tengo.Object {
	t := vf.Choice("a.type", NTypes)
	if dst == "string" {
		switch t {
		case TFloat:
			fs := []float64{0, 1.5, -2, 1e21, 1e-7}
			return &tengo.Float{Value: fs[vf.Choice("a.fsel", len(fs))]}
		case TTime:
			return &tengo.Time{Value: time.Unix(1700000000, 5)}
		case TInt:
			i := vf.Int64("a.i")
			vf.Assume(i > -1000)
			vf.Assume(i < 1000)
			return &tengo.Int{Value: i}
		case TError, TArray, TImmArray, TMap, TImmMap:
			return concreteContainer(t)
		}
	}
	if dst == "bytes" && t == TInt {
		// bytes(N) allocates N bytes: keep N small and non-negative (C05/C06 cover the rest)
		i := vf.Int64("a.i")
		vf.Assume(i >= 0)
		vf.Assume(i <= 3)
		return &tengo.Int{Value: i}
	}
	if dst == "time" && t == TInt {
		i := vf.Int64("a.i")
		vf.Assume(i > -(1 << 55))
		vf.Assume(i < (1 << 55))
		return &tengo.Int{Value: i}
	}
	return Obj("a", t, 1)
}

func concreteContainer(t int) tengo.Object {
	es := []tengo.Object{&tengo.Int{Value: 1}, &tengo.String{Value: "x"}}
	switch t {
	case TError:
		return &tengo.Error{Value: es[1]}
	case TArray:
		return &tengo.Array{Value: es}
	case TImmArray:
		return &tengo.ImmutableArray{Value: es}
	case TMap:
		return &tengo.Map{Value: map[string]tengo.Object{"a": es[0]}}
	}
	return &tengo.ImmutableMap{Value: map[string]tengo.Object{"a": es[0]}}
}

// C10_Conv: the conversion builtins follow the documented table, returning
// undefined (or the supplied default) where the table has X.
func C10_Conv() {
	dst := convNames[vf.Choice("dst", len(convNames))]
	x := convArg(dst)
	f := builtinFn(dst)
	want, ok := convExpect(dst, x)
	if dst == "bytes" {
		if n, isInt := x.(*tengo.Int); isInt {
			want, ok = &tengo.Bytes{Value: make([]byte, int(n.Value))}, true
		}
	}
	withDefault := dst != "bool" && vf.Choice("withdef", 2) == 1
	def := &tengo.String{Value: "dflt"}
	var got tengo.Object
	var err error
	if withDefault {
		got, err = f(x, def)
	} else {
		got, err = f(x)
	}
	vf.Assert(err == nil, "conversion builtin does not fail on one/two arguments")
	if ok {
		vf.Assert(Same(got, want), dst+"(x) equals the documented conversion")
	} else if withDefault {
		vf.Assert(got == tengo.Object(def), dst+"(x, d) returns d when no conversion exists")
	} else {
		vf.Assert(got == tengo.UndefinedValue, dst+"(x) returns undefined when no conversion exists")
	}
	vf.Reach("conv")
}

// deepClone: a structural clone written in the harness (not tengo's Copy).
func deepClone(o tengo.Object) tengo.Object {
	switch x := o.(type) {
	case *tengo.Array:
		r := &tengo.Array{}
		for _, e := range x.Value {
			r.Value = append(r.Value, deepClone(e))
		}
		return r
	case *tengo.ImmutableArray:
		r := &tengo.ImmutableArray{}
		for _, e := range x.Value {
			r.Value = append(r.Value, deepClone(e))
		}
		return r
	case *tengo.Map:
		r := &tengo.Map{Value: map[string]tengo.Object{}}
		for k, e := range x.Value {
			r.Value[k] = deepClone(e)
		}
		return r
	case *tengo.ImmutableMap:
		r := &tengo.ImmutableMap{Value: map[string]tengo.Object{}}
		for k, e := range x.Value {
			r.Value[k] = deepClone(e)
		}
		return r
	}
	return o
}

// C10_CopyNest: copy() of every nesting of up to three container constructors
// (mutable and shallow-immutable arrays and maps, see nestCtors) around a
// leaf: the copy equals the original, and overwriting every mutable container
// reachable from the copy leaves the original as it was (no mutable state is
// shared at any depth), and vice versa.
func C10_CopyNest() {
	depth := 1 + vf.Choice("depth", 3)
	expr := "a"
	for k := 0; k < depth; k++ {
		expr = substAt(nestCtors[vf.Choice("ctor"+string(rune('0'+k)), len(nestCtors))], expr)
	}
	s := tengo.NewScript([]byte("o := " + expr + "\ncp := copy(o)\neq := cp == o\n"))
	a, b := vf.Int64("a"), vf.Int64("b")
	_ = s.Add("a", a)
	_ = s.Add("b", b)
	cc, err := s.Compile()
	vf.Assert(err == nil, "copy script compiles: "+expr)
	rerr, panicked, _ := RunGuarded(cc)
	vf.Assert(rerr == nil && !panicked, "copy script runs: "+expr)
	vf.Assert(cc.Get("eq").Bool(), "copy(o) == o: "+expr)
	o, cp := cc.Get("o").Object(), cc.Get("cp").Object()
	vf.Assert(sameLoose(o, cp), "copy(o) has the structure and values of o: "+expr)
	snapO := deepClone(o)
	if vf.Choice("write-through", 2) == 0 {
		scribble(cp, 0)
		vf.Assert(sameLoose(o, snapO), "writes through the copy do not reach the original: "+expr)
	} else {
		snapCp := deepClone(cp)
		scribble(o, 0)
		vf.Assert(sameLoose(cp, snapCp), "writes through the original do not reach the copy: "+expr)
	}
	vf.Reach("copynest")
}

// C10_EqSelf: the same laws when both operands are the SAME object (an alias,
// the same argument passed twice, a shared element fetched from two
// containers), for every runtime type incl. the values whose equality is not
// reflexive (NaN, containers holding NaN, functions): != is the negation of
// ==, and comparing an object with itself gives what comparing it with an
// equal-valued distinct object gives (copy for containers).
func C10_EqSelf() {
	a, _ := AnyObj("a", 1)
	srcs := []string{
		`x := a; eq := x == a; ne := x != a; qe := a == x`,
		`f := func(p, q) { return [p == q, p != q, q == p] }; r := f(a, a); eq := r[0]; ne := r[1]; qe := r[2]`,
		`s := [a]; t := {k: s[0]}; eq := s[0] == t.k; ne := s[0] != t.k; qe := t.k == s[0]`,
		`g := func() { return 1 }; h := g; w := [a, g]; eq := w == w; ne := w != w; qe := h == g && !(h != g) || !(h == g) && h != g`,
	}
	k := vf.Choice("form", len(srcs))
	s := tengo.NewScript([]byte(srcs[k]))
	_ = s.Add("a", a)
	c, err := s.Compile()
	vf.Assert(err == nil, "compiles")
	vf.Assert(c.Run() == nil, "runs")
	eq, ne, qe := c.Get("eq").Bool(), c.Get("ne").Bool(), c.Get("qe").Bool()
	vf.Assert(vf.Iff(eq, vf.Not(ne)), "!= is the negation of == when both operands are the same object")
	if k < 3 {
		vf.Assert(vf.Iff(eq, qe), "== symmetric when both operands are the same object")
	} else {
		vf.Assert(qe, "for a function value, != is the negation of ==")
	}
	vf.Reach("eqself")
}
