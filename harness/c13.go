package h

// C13 — modules are isolated, immutable to importers, and acyclic.

import (
	"strconv"

	"github.com/d5/tengo/v2"
	"verif/h/vf"
)

func modName(i int) string { return "m" + strconv.Itoa(i) }

// C13_Graphs: every import graph on k modules plus main (edge set chosen by
// finite choices): compilation terminates; it succeeds exactly when no cycle
// is reachable from main; on success the result is the reference value and
// each reachable module was compiled once.
func C13_Graphs() {
	k := 2
	if Tier() > 0 {
		k = 3
	}
	// edges[i][j]: module i imports module j; mainE[j]: main imports j
	edges := make([][]bool, k)
	for i := range edges {
		edges[i] = make([]bool, k)
		for j := range edges[i] {
			edges[i][j] = vf.Choice("e"+strconv.Itoa(i)+strconv.Itoa(j), 2) == 1
		}
	}
	mainE := make([]bool, k)
	for j := range mainE {
		mainE[j] = vf.Choice("main"+strconv.Itoa(j), 2) == 1
	}
	mods := tengo.NewModuleMap()
	for i := 0; i < k; i++ {
		body := "x := " + strconv.Itoa(i+1) + "\n"
		for j := 0; j < k; j++ {
			if edges[i][j] {
				body += "x += import(\"" + modName(j) + "\")\n"
			}
		}
		body += "export x\n"
		mods.AddSourceModule(modName(i), []byte(body))
	}
	src := "out := 0\n"
	for j := 0; j < k; j++ {
		if mainE[j] {
			src += "out += import(\"" + modName(j) + "\")\n"
		}
	}
	// reference: reachable set and cycle detection (DFS with colours)
	colour := make([]int, k)
	cyc := false
	var visit func(i int)
	visit = func(i int) {
		colour[i] = 1
		for j := 0; j < k; j++ {
			if edges[i][j] {
				if colour[j] == 1 {
					cyc = true
				} else if colour[j] == 0 {
					visit(j)
				}
			}
		}
		colour[i] = 2
	}
	for j := 0; j < k; j++ {
		if mainE[j] && colour[j] == 0 {
			visit(j)
		}
	}
	reach := 0
	for j := 0; j < k; j++ {
		if colour[j] != 0 {
			reach++
		}
	}
	var val func(i int) int64
	val = func(i int) int64 {
		v := int64(i + 1)
		for j := 0; j < k; j++ {
			if edges[i][j] {
				v += val(j)
			}
		}
		return v
	}
	s := tengo.NewScript([]byte(src))
	s.SetImports(mods)
	var c *tengo.Compiled
	var err error
	res := vf.Guard(func() { c, err = s.Compile() }, 8000000)
	vf.Assert(res == 0, "compiling an import graph terminates without panic: "+vf.LastGuard())
	vf.Assert((err == nil) == !cyc, "compilation succeeds exactly when no import cycle is reachable from main")
	if err != nil {
		vf.Assert(contains(err.Error(), "cyclic module import"), "a reachable cycle is reported as a cyclic import")
		vf.Reach("cycle")
		return
	}
	rerr, panicked, _ := RunGuarded(c)
	vf.Assert(rerr == nil && !panicked, "acyclic import graph runs")
	want := int64(0)
	for j := 0; j < k; j++ {
		if mainE[j] {
			want += val(j)
		}
	}
	vf.Assert(c.Get("out").Int64() == want, "imports evaluate to the exported values")
	nf := 0
	for _, cst := range tengo.VerifBytecode(c).Constants {
		if _, ok := cst.(*tengo.CompiledFunction); ok {
			nf++
		}
	}
	vf.Assert(nf == reach, "a module reached by several paths is compiled once")
	vf.Reach("acyclic")
}

type isoCase struct {
	name   string
	main   string
	module string
	// expectation
	compileErr string // substring of the expected compile error ("" = compiles)
	runErr     string // substring of the expected run-time error ("" = runs)
	check      func(c *tengo.Compiled, a int64) bool
}

var isoCases = []isoCase{
	{"module-cannot-see-importer-global", `secret := a; m := import("m")`, `export secret`, "unresolved reference 'secret'", "", nil},
	{"module-cannot-see-importer-input", `m := import("m")`, `export a`, "unresolved reference 'a'", "", nil},
	{"module-sees-builtins", `m := import("m")`, `export len([1, 2]) + int("3")`, "", "", func(c *tengo.Compiled, a int64) bool { return c.Get("m").Int() == 5 }},
	{"importer-cannot-see-module-vars", `m := import("m"); out := hidden`, `hidden := 1; export 2`, "unresolved reference 'hidden'", "", nil},
	{"import-yields-export", `m := import("m"); out := m.v + a`, `v := 20; export {v: v + 1}`, "", "", func(c *tengo.Compiled, a int64) bool { return c.Get("out").Int64() == 21+a }},
	{"no-export-is-undefined", `m := import("m"); out := is_undefined(m)`, `x := 1`, "", "", func(c *tengo.Compiled, a int64) bool { return c.Get("out").Bool() }},
	{"export-map-immutable", `m := import("m"); m.v = a`, `export {v: 1}`, "", "not index-assignable", nil},
	{"export-array-immutable", `m := import("m"); m[0] = a`, `export [1, 2]`, "", "not index-assignable", nil},
	{"export-type", `m := import("m"); out := is_immutable_map(m) && is_immutable_array(import("n"))`, `export {v: 1}`, "", "", func(c *tengo.Compiled, a int64) bool { return c.Get("out").Bool() }},
	{"fresh-evaluation", `m1 := import("m"); m2 := import("m"); m1.inc(); m1.inc(); out := [m1.inc(), m2.inc()]`, `n := 0; export {inc: func() { n += 1; return n }}`, "", "", func(c *tengo.Compiled, a int64) bool {
		arr, ok := c.Get("out").Object().(*tengo.Array)
		if !ok || len(arr.Value) != 2 {
			return false
		}
		x, ok1 := arr.Value[0].(*tengo.Int)
		y, ok2 := arr.Value[1].(*tengo.Int)
		return ok1 && ok2 && x.Value == 3 && y.Value == 1
	}},
	{"fresh-evaluation-in-loop", `out := 0; for i := 0; i < 3; i++ { m := import("m"); out = out*10 + m.inc() }`, `n := 0; export {inc: func() { n += 1; return n }}`, "", "", func(c *tengo.Compiled, a int64) bool { return c.Get("out").Int() == 111 }},
	{"module-input-by-call", `m := import("m"); out := m(a)`, `export func(x) { return x * 2 }`, "", "", func(c *tengo.Compiled, a int64) bool { return c.Get("out").Int64() == a*2 }},
	{"export-inside-function", `m := import("m")`, `f := func() { export 1 }`, "export not allowed inside function", "", nil},
}

// C13_Isolation: what a module can see, what an import yields, immutability
// of the imported value, fresh evaluation per import expression.
func C13_Isolation() {
	ic := isoCases[vf.Choice("case", len(isoCases))]
	a := vf.Int64("a")
	mods := tengo.NewModuleMap()
	mods.AddSourceModule("m", []byte(ic.module))
	mods.AddSourceModule("n", []byte(`export [1]`))
	s := tengo.NewScript([]byte(ic.main))
	s.SetImports(mods)
	_ = s.Add("a", a)
	c, err := s.Compile()
	if ic.compileErr != "" {
		vf.Assert(err != nil && contains(err.Error(), ic.compileErr), ic.name+": rejected at compile time")
		vf.Reach("iso-compile-error")
		return
	}
	vf.Assert(err == nil, ic.name+": compiles")
	rerr, panicked, _ := RunGuarded(c)
	vf.Assert(!panicked, ic.name+": no panic")
	if ic.runErr != "" {
		vf.Assert(rerr != nil && contains(rerr.Error(), ic.runErr), ic.name+": fails at run time as documented")
		vf.Reach("iso-run-error")
		return
	}
	vf.Assert(rerr == nil, ic.name+": runs")
	vf.Assert(ic.check(c, a), ic.name+": result")
	vf.Reach("iso-ok")
}

// export expression forms whose value is an array or a map
var exportForms = []string{
	`[1, 2]`, `{k: 1}`, `base`, `mp`, `(base)`, `base + extra`, `base + []`, `mp || {d: 1}`, `undefined || base`, `false || {d: 2}`,
	`true && base`, `1 && mp`, `x ? base : mp`, `!x ? [1] : {k: 2}`, `base[0:1]`, `base[:]`, `[base][0]`, `{k: base}.k`, `{k: mp}["k"]`,
	`(func() { return [1] })()`, `(func() { return mp })()`, `copy(base)`, `append(base, 4)`, `splice(copy(base), 0, 1)`,
	`immutable(base)`, `immutable(mp)`, `import("n")`, `[import("n")][0]`, `x ? import("n") : base`,
}

// C13_ExportImmutable: whatever expression a module exports, an array or map
// arrives immutable at the importer (and stays so when imported a second time).
func C13_ExportImmutable() {
	form := exportForms[vf.Choice("form", len(exportForms))]
	x := vf.Bool("x")
	mods := tengo.NewModuleMap()
	xs := "false"
	if x {
		xs = "true"
	}
	mods.AddSourceModule("m", []byte("x := "+xs+"; base := [1, 2]; extra := [3]; mp := {k: 1}\nexport "+form))
	mods.AddSourceModule("n", []byte(`export [1]`))
	s := tengo.NewScript([]byte(`m := import("m"); m2 := import("m")`))
	s.SetImports(mods)
	c, err := s.Compile()
	vf.Assert(err == nil, "module exporting `"+form+"` compiles")
	rerr, panicked, _ := RunGuarded(c)
	vf.Assert(rerr == nil && !panicked, "importing a module exporting `"+form+"` runs")
	for _, name := range []string{"m", "m2"} {
		switch c.Get(name).Object().(type) {
		case *tengo.Array, *tengo.Map:
			vf.Fail("`export " + form + "` hands the importer a mutable value")
		case *tengo.ImmutableArray, *tengo.ImmutableMap:
		default:
			vf.Fail("`export " + form + "` did not yield an array or map")
		}
	}
	vf.Reach("export-immutable")
}

// distinct module names, several of which denote the same path after cleaning
var modNames = []string{"util", "./util", "util/", "lib/x", "lib/sub/../x", "lib//x", "./lib/x", "Util", "util.tengo", "../util", "/util"}

// C13_Names: every module-map name is its own module: importing two names in
// one compilation yields each one's export, in both orders, also through a
// third module.
func C13_Names() {
	i := vf.Choice("first", len(modNames))
	j := vf.Choice("second", len(modNames))
	mods := tengo.NewModuleMap()
	for k, n := range modNames {
		mods.AddSourceModule(n, []byte("export "+strconv.Itoa(100+k)))
	}
	mods.AddSourceModule("via", []byte(`export import("`+modNames[j]+`")`))
	s := tengo.NewScript([]byte(`p := import("` + modNames[i] + `"); q := import("` + modNames[j] + `"); r := import("via"); p2 := import("` + modNames[i] + `")`))
	s.SetImports(mods)
	c, err := s.Compile()
	vf.Assert(err == nil, "two module-map names compile: "+modNames[i]+", "+modNames[j])
	rerr, panicked, _ := RunGuarded(c)
	vf.Assert(rerr == nil && !panicked, "two module-map names run")
	vf.Assert(c.Get("p").Int() == 100+i && c.Get("p2").Int() == 100+i, "import(\""+modNames[i]+"\") yields that module's export")
	vf.Assert(c.Get("q").Int() == 100+j, "import(\""+modNames[j]+"\") yields that module's export (after importing \""+modNames[i]+"\")")
	vf.Assert(c.Get("r").Int() == 100+j, "a module importing \""+modNames[j]+"\" gets that module's export")
	vf.Reach("names")
}

// fixed larger graphs (module i imports the listed modules; main imports mainImports)
type graphShape struct {
	name        string
	edges       [][]int
	mainImports []int
}

var graphShapes = []graphShape{
	{"chain-4", [][]int{{1}, {2}, {3}, {}}, []int{0}},
	{"deep-diamond", [][]int{{1}, {2}, {}}, []int{0, 2}},
	{"deep-diamond-reversed", [][]int{{1}, {2}, {}}, []int{2, 0}},
	{"two-parents-deep", [][]int{{2}, {2}, {3}, {}}, []int{0, 1, 3}},
	{"cycle-3-not-through-first", [][]int{{1}, {2}, {3}, {1}}, []int{0}},
	{"cycle-4", [][]int{{1}, {2}, {3}, {0}}, []int{0}},
	{"self-loop-deep", [][]int{{1}, {2}, {2}}, []int{0}},
	{"unreachable-cycle", [][]int{{}, {2}, {1}}, []int{0}},
	{"shared-leaf-three-ways", [][]int{{3}, {3}, {3, 0}, {}}, []int{0, 1, 2, 3}},
}

// C13_Shapes: hand-picked larger import graphs (deep diamonds, long chains,
// cycles that do not pass through the first module): same obligations as
// C13_Graphs.
func C13_Shapes() {
	g := graphShapes[vf.Choice("shape", len(graphShapes))]
	k := len(g.edges)
	mods := tengo.NewModuleMap()
	for i := 0; i < k; i++ {
		body := "x := " + strconv.Itoa(i+1) + "\n"
		for _, j := range g.edges[i] {
			body += "x += import(\"" + modName(j) + "\")\n"
		}
		body += "export x\n"
		mods.AddSourceModule(modName(i), []byte(body))
	}
	src := "out := 0\n"
	for _, j := range g.mainImports {
		src += "out += import(\"" + modName(j) + "\")\n"
	}
	colour := make([]int, k)
	cyc := false
	var visit func(i int)
	visit = func(i int) {
		colour[i] = 1
		for _, j := range g.edges[i] {
			if colour[j] == 1 {
				cyc = true
			} else if colour[j] == 0 {
				visit(j)
			}
		}
		colour[i] = 2
	}
	for _, j := range g.mainImports {
		if colour[j] == 0 {
			visit(j)
		}
	}
	reach := 0
	for j := 0; j < k; j++ {
		if colour[j] != 0 {
			reach++
		}
	}
	var val func(i int) int64
	val = func(i int) int64 {
		v := int64(i + 1)
		for _, j := range g.edges[i] {
			v += val(j)
		}
		return v
	}
	s := tengo.NewScript([]byte(src))
	s.SetImports(mods)
	var c *tengo.Compiled
	var err error
	res := vf.Guard(func() { c, err = s.Compile() }, 8000000)
	vf.Assert(res == 0, "compiling import graph "+g.name+" terminates without panic: "+vf.LastGuard())
	vf.Assert((err == nil) == !cyc, "graph "+g.name+": compilation succeeds exactly when no import cycle is reachable from main")
	if err != nil {
		vf.Reach("shape-cycle")
		return
	}
	rerr, panicked, _ := RunGuarded(c)
	vf.Assert(rerr == nil && !panicked, "graph "+g.name+" runs")
	want := int64(0)
	for _, j := range g.mainImports {
		want += val(j)
	}
	vf.Assert(c.Get("out").Int64() == want, "graph "+g.name+": imports evaluate to the exported values")
	nf := 0
	for _, cst := range tengo.VerifBytecode(c).Constants {
		if _, ok := cst.(*tengo.CompiledFunction); ok {
			nf++
		}
	}
	vf.Assert(nf == reach, "graph "+g.name+": a module reached by several paths is compiled once")
	vf.Reach("shape-acyclic")
}

var importNames = []string{"m", "x", "./x", "../x", "/etc/passwd", "x.tengo", "a/b/c", ".", "..", "m/../m", "os", "fmt"}

// C13_NoFileSystem: with file import disabled an import expression resolves
// names only through the module map and never reaches an os/io entry point
// (the engine traps every such entry point).
func C13_NoFileSystem() {
	name := importNames[vf.Choice("name", len(importNames))]
	cfg := vf.Choice("cfg", 3)
	nested := vf.Choice("nested", 2) == 1
	s := tengo.NewScript([]byte(`x := import("` + name + `")`))
	mods := tengo.NewModuleMap()
	mods.AddSourceModule("m", []byte(`export 1`))
	if nested {
		// the import happens inside a source module taken from the module map
		if cfg == 2 {
			vf.Stop()
		}
		mods.AddSourceModule("outer", []byte(`export import("`+name+`")`))
		s = tengo.NewScript([]byte(`x := import("outer")`))
	}
	switch cfg {
	case 0: // default: file import disabled, module map set
		s.SetImports(mods)
	case 1: // explicitly disabled
		s.EnableFileImport(false)
		s.SetImports(mods)
	case 2: // disabled, empty module map
		s.EnableFileImport(false)
		s.SetImports(tengo.NewModuleMap())
	}
	// any sequence of up to three further configuration calls that never
	// enables file import (in particular: an import directory set before or
	// after file import was disabled, or without ever touching the switch)
	haveMods := cfg != 2
	ncalls := vf.Choice("ncalls", 4)
	for k := 0; k < ncalls; k++ {
		switch vf.Choice("call", 4) {
		case 0:
			_ = s.SetImportDir("/verif-no-such-dir")
		case 1:
			s.EnableFileImport(false)
		case 2:
			s.SetImports(mods)
			haveMods = true
		default:
			s.SetImports(tengo.NewModuleMap())
			haveMods = false
		}
	}
	if nested && !haveMods {
		vf.Stop()
	}
	var err error
	res := vf.Guard(func() { _, err = s.Compile() }, 4000000)
	vf.Assert(res != 4, "import with file import disabled never consults the file system: "+vf.LastGuard())
	vf.Assert(res == 0, "import resolution returns: "+vf.LastGuard())
	if name == "m" && haveMods {
		vf.Assert(err == nil, "a name in the module map resolves")
	} else {
		vf.Assert(err != nil && contains(err.Error(), "not found"), "an unknown name fails with 'module not found'")
		// the file-import branch reports "module file path error" / "module file
		// read error": seeing one of them means the file system was consulted
		vf.Assert(!contains(err.Error(), "module file"), "an unknown name is rejected without consulting the file system: "+err.Error())
	}
	vf.Reach("nofs")
}

// C13_ObjectModules: modules the embedder supplies as plain objects (an
// Importable returning a bare immutable map / array / scalar, without the
// builtin-module name attribute): each import expression yields that module's
// own value - also when two such modules have equal shapes, when one is
// imported inside a source module, and when the same one is imported twice.
func C13_ObjectModules() {
	va, vb := vf.Int64("va"), vf.Int64("vb")
	// (object modules must be maps: RemoveDuplicates documents that it rejects
	// other top-level constant types)
	shape := vf.Choice("shape", 3)
	mk := func(name string, v int64) tengo.Object {
		switch shape {
		case 0:
			return &tengo.ImmutableMap{Value: map[string]tengo.Object{"name": &tengo.String{Value: name}, "v": &tengo.Int{Value: v}}}
		case 1:
			return &tengo.ImmutableMap{Value: map[string]tengo.Object{"v": &tengo.Array{Value: []tengo.Object{&tengo.Int{Value: v}}}}}
		}
		return &tengo.ImmutableMap{Value: map[string]tengo.Object{"v": &tengo.Int{Value: v}}}
	}
	mods := tengo.NewModuleMap()
	mods.Add("alpha", objModule{mk("alpha", va)})
	mods.Add("beta", objModule{mk("beta", vb)})
	mods.AddSourceModule("via", []byte(`export {b: import("beta"), a: import("alpha")}`))
	srcs := []string{
		`x := import("alpha"); y := import("beta")`,
		`y := import("beta"); x := import("alpha")`,
		`x := import("alpha"); x2 := import("alpha"); y := import("beta")`,
		`w := import("via"); x := w.a; y := w.b`,
		`x := import("alpha"); w := import("via"); y := w.b; x3 := w.a`,
	}
	s := tengo.NewScript([]byte(srcs[vf.Choice("src", len(srcs))]))
	s.SetImports(mods)
	c, err := s.Compile()
	vf.Assert(err == nil, "program importing object modules compiles")
	rerr, panicked, ptext := RunGuarded(c)
	vf.Assert(!panicked && rerr == nil, "program importing object modules runs: "+ptext)
	vf.Assert(Same(c.Get("x").Object(), mk("alpha", va)), "import(\"alpha\") yields module alpha's value")
	vf.Assert(Same(c.Get("y").Object(), mk("beta", vb)), "import(\"beta\") yields module beta's value")
	if c.IsDefined("x2") {
		vf.Assert(Same(c.Get("x2").Object(), mk("alpha", va)), "a second import(\"alpha\") yields module alpha's value")
	}
	if c.IsDefined("x3") {
		vf.Assert(Same(c.Get("x3").Object(), mk("alpha", va)), "import(\"alpha\") inside a source module yields module alpha's value")
	}
	vf.Reach("objmods")
}
