package h

// Generated program family: every program of a bounded statement grammar
// (DESIGN section 3, "control/scope skeletons"), enumerated exhaustively up to
// a number of statement nodes and rendered into four variable-placement
// contexts. Shared by C01 (vs the reference semantics), C02 (static verifier
// and VM monitor), C03 (optimizer twin), C11 (the same body in each context)
// and C12 (de-duplication, write/read-back).
//
// Variables of a body: x, y (start as the inputs a, b), r (accumulator, 0),
// m (a map {k: 0}); branch conditions read x, y, r and the bool input c, so
// both directions of every conditional jump are feasible for some input.
// Loops run a constant two (for-in: two elements) iterations and keep their
// own counters, which no generated statement assigns: every program
// terminates.

import "strconv"

type gnode struct {
	kind   int
	bodies [][]*gnode
}

// atoms
const (
	gAddR     = iota // r += x
	gSetX            // x = y + 1
	gIncY            // y++
	gSelM            // m.k += x
	gDecl            // zN := x; r += zN          (block-scoped declaration)
	gIIFE            // r += func(p) { return p + y }(x)
	gClosure         // hN := func() { y += 1 }; hN()
	gIIFE3           // r = func() { return x + y + r }()     (closure capturing three variables)
	gEscape          // eN := x; esc = func() { return eN }   (block-local captured by a closure that outlives the block)
	gRec             // recN := func(n) { ... recN(n-1) }; r += recN(2)   (self-recursive local function)
	gBreak           // break      (only inside a loop of the same function)
	gContinue        // continue
	gReturn          // return r   (only inside a function)
	gBreakBad        // break inside a function literal inside a loop (compile error expected)
	gEmpty           // nothing: an empty block (only as the whole body of a wrapper)
	nAtoms
	gFail = 90 // gFail+k: the k-th failing atom (C14 only)
)

// wrappers
const (
	wIf      = 100 + iota // if C { S }
	wIfElse               // if C { S } else { S' }
	wIfInit               // if tN := x + 1; tN > y { S }
	wFor3                 // for iN := 0; iN < 2; iN++ { S }
	wForIn                // for kN, vN in [x, y] { r += vN; S }
	wForCond              // nN := 0; for nN < 2 { nN++; S }
	wForEver              // qN := 0; for { qN++; if qN > 2 { break }; S }
	wFunc                 // fnN := func() { S }; fnN()
	wEnd
)

type gctx struct{ inLoop, inFunc bool }

func genAtoms(c gctx, size3 bool) []*gnode {
	var out []*gnode
	for k := 0; k < nAtoms; k++ {
		switch k {
		case gBreak, gContinue:
			if !c.inLoop {
				continue
			}
		case gReturn:
			if !c.inFunc {
				continue
			}
		case gBreakBad, gEmpty:
			continue // added explicitly as wrapper bodies
		}
		out = append(out, &gnode{kind: k})
	}
	return out
}

// genSeqs: all statement sequences (length 1 or 2) with exactly n statement nodes.
func genSeqs(n int, c gctx) [][]*gnode {
	var out [][]*gnode
	for _, s := range genStmts(n, c) {
		out = append(out, []*gnode{s})
	}
	for k := 1; k < n; k++ {
		for _, s1 := range genStmts(k, c) {
			for _, s2 := range genStmts(n-k, c) {
				out = append(out, []*gnode{s1, s2})
			}
		}
	}
	return out
}

func bodyCtx(w int, c gctx) gctx {
	switch w {
	case wFor3, wForIn, wForCond, wForEver:
		return gctx{inLoop: true, inFunc: c.inFunc}
	case wFunc:
		return gctx{inLoop: false, inFunc: true}
	}
	return c
}

func genStmts(n int, c gctx) []*gnode {
	if n == 1 {
		return genAtoms(c, false)
	}
	var out []*gnode
	for w := wIf; w < wEnd; w++ {
		bc := bodyCtx(w, c)
		empty := []*gnode{{kind: gEmpty}}
		if w == wIfElse {
			for k := 1; k < n-1; k++ {
				for _, b1 := range genSeqs(k, bc) {
					for _, b2 := range genSeqs(n-1-k, bc) {
						out = append(out, &gnode{kind: w, bodies: [][]*gnode{b1, b2}})
					}
				}
			}
			if n >= 2 {
				// one branch empty (an empty block counts no node)
				for _, b := range genSeqs(n-1, bc) {
					out = append(out, &gnode{kind: w, bodies: [][]*gnode{empty, b}})
					out = append(out, &gnode{kind: w, bodies: [][]*gnode{b, empty}})
				}
			}
			continue
		}
		for _, b := range genSeqs(n-1, bc) {
			out = append(out, &gnode{kind: w, bodies: [][]*gnode{b}})
		}
		if n == 2 {
			// the wrapper around an empty block
			out = append(out, &gnode{kind: w, bodies: [][]*gnode{empty}})
		}
		if w == wFunc && c.inLoop && n == 2 {
			// break inside a function literal inside a loop must not bind to the loop
			out = append(out, &gnode{kind: w, bodies: [][]*gnode{{&gnode{kind: gBreakBad}}}})
		}
	}
	return out
}

type grender struct {
	uid   int
	ncond int
	sep   string // statement separator: "; " (default) or "\n" (one statement per line)
	// failCalls: uids of the function literals that enclose the failing atom,
	// innermost first (C14)
	failCalls []string
	nfail     int
}

func (g *grender) s() string {
	if g.sep == "" {
		return "; "
	}
	return g.sep
}

func (g *grender) open() string {
	if g.sep == "\n" {
		return "{\n"
	}
	return "{ "
}

func (g *grender) close() string {
	if g.sep == "\n" {
		return "\n}"
	}
	return " }"
}

// failing atoms (C14): each fails when executed; the second and third fail in
// an instruction without operands (the VM then looks the position up from the
// preceding instruction), the fourth in a call
var genFailTexts = []string{"r = r + undefined", "r = -m", "for e in r {\nr = 0\n}", "r()"}
var genFailMsgs = []string{"invalid operation: int + undefined", "invalid operation: -map", "not iterable: int", "not callable: int"}

// first line of a failing atom: the line an error must report
func genFailLine(k int) string {
	t := genFailTexts[k]
	for i := 0; i < len(t); i++ {
		if t[i] == '\n' {
			return t[:i]
		}
	}
	return t
}

var genConds = []string{"x < y", "c", "x == 0", "r > 1", "!c || y < 0", "y >= x"}

func (g *grender) cond() string {
	s := genConds[g.ncond%len(genConds)]
	g.ncond++
	return s
}

func (g *grender) id() string {
	g.uid++
	return strconv.Itoa(g.uid)
}

func (g *grender) seq(b []*gnode) string {
	s := ""
	for k, n := range b {
		if k > 0 {
			s += g.s()
		}
		s += g.stmt(n)
	}
	return s
}

func (g *grender) stmt(n *gnode) string {
	if n.kind >= gFail && n.kind < gFail+len(genFailTexts) {
		g.nfail++
		return genFailTexts[n.kind-gFail]
	}
	switch n.kind {
	case gEmpty:
		return ""
	case gAddR:
		return "r += x"
	case gSetX:
		return "x = y + 1"
	case gIncY:
		return "y++"
	case gSelM:
		return "m.k += x"
	case gDecl:
		u := g.id()
		return "z" + u + " := x" + g.s() + "r += z" + u
	case gIIFE:
		return "r += func(p) { return p + y }(x)"
	case gClosure:
		u := g.id()
		return "h" + u + " := func() { y += 1 }" + g.s() + "h" + u + "()"
	case gIIFE3:
		return "r = func() { return x + y + r }()"
	case gEscape:
		u := g.id()
		return "e" + u + " := x" + g.s() + "esc = func() { return e" + u + " }"
	case gRec:
		u := g.id()
		return "rec" + u + " := func(n) { return n <= 0 ? 0 : rec" + u + "(n-1) }" + g.s() + "r += rec" + u + "(2)"
	case gBreak, gBreakBad:
		return "break"
	case gContinue:
		return "continue"
	case gReturn:
		return "return r"
	case wIf:
		return "if " + g.cond() + " " + g.open() + g.seq(n.bodies[0]) + g.close()
	case wIfElse:
		return "if " + g.cond() + " " + g.open() + g.seq(n.bodies[0]) + g.close() + " else " + g.open() + g.seq(n.bodies[1]) + g.close()
	case wIfInit:
		u := g.id()
		return "if t" + u + " := x + 1; t" + u + " > y " + g.open() + g.seq(n.bodies[0]) + g.close()
	case wFor3:
		u := g.id()
		return "for i" + u + " := 0; i" + u + " < 2; i" + u + "++ " + g.open() + g.seq(n.bodies[0]) + g.close()
	case wForIn:
		u := g.id()
		return "for k" + u + ", v" + u + " in [x, y] " + g.open() + "r += v" + u + " + k" + u + g.s() + g.seq(n.bodies[0]) + g.close()
	case wForCond:
		u := g.id()
		return "n" + u + " := 0" + g.s() + "for n" + u + " < 2 " + g.open() + "n" + u + "++" + g.s() + g.seq(n.bodies[0]) + g.close()
	case wForEver:
		u := g.id()
		return "q" + u + " := 0" + g.s() + "for " + g.open() + "q" + u + "++" + g.s() + "if q" + u + " > 2 { break }" + g.s() + g.seq(n.bodies[0]) + g.close()
	case wFunc:
		u := g.id()
		before := g.nfail
		body := g.seq(n.bodies[0])
		if g.nfail > before {
			g.failCalls = append(g.failCalls, u)
		}
		return "fn" + u + " := func() " + g.open() + body + g.close() + g.s() + "fn" + u + "()"
	}
	panic("gen: unknown node kind")
}

// contexts
const (
	GTop      = iota // statements at top level: x, y, r, m are globals
	GFunc            // inside a function body: x, y parameters, r, m locals
	GClosure         // inside a closure: x a captured parameter, y, r, m captured locals
	GLoopFunc        // inside a loop inside a function body
	nGCtx
)

var gctxNames = []string{"top", "func", "closure", "loopfunc"}

func gctxOf(k int) gctx {
	switch k {
	case GTop:
		return gctx{}
	case GLoopFunc:
		return gctx{inLoop: true, inFunc: true}
	}
	return gctx{inFunc: true}
}

// genWrap places a rendered body into a context. The observed result is the
// global `out` = [x, y, r, m.k] (GTop: the globals x, y, r, m themselves too).
const genPre = "r := 0; m := {k: 0}; esc := undefined; "
const genRes = "[x, y, r, m.k, is_undefined(esc) ? -1 : esc()]"

func genWrap(body string, k int) string {
	switch k {
	case GTop:
		return "x := a; y := b; " + genPre + body + "; out := " + genRes
	case GFunc:
		return "f := func(x, y) { " + genPre + body + "; return " + genRes + " }; out := f(a, b)"
	case GClosure:
		return "f := func(x) { y := b; " + genPre + "g := func() { " + body + "; return 1 }; t := g(); return " + genRes + " + [t] }; out := f(a)"
	case GLoopFunc:
		return "f := func(x, y) { " + genPre + "for w := 0; w < 2; w++ { " + body + " }; return " + genRes + " }; out := f(a, b)"
	}
	panic("gen: unknown context")
}

// GenProg is one generated program.
type GenProg struct {
	Prog
	Ctx  int
	Body string
}

// genBodies: rendered bodies with exactly n nodes valid in context c.
func genBodies(n int, c gctx) []string {
	var out []string
	for _, b := range genSeqs(n, c) {
		g := &grender{}
		out = append(out, g.seq(b))
	}
	return out
}

// nested3: size-3 bodies of the form W(W'(A)) only (quick tier).
func nested3(c gctx) []string {
	var out []string
	for w := wIf; w < wEnd; w++ {
		if w == wIfElse {
			continue
		}
		bc := bodyCtx(w, c)
		for w2 := wIf; w2 < wEnd; w2++ {
			if w2 == wIfElse {
				continue
			}
			bc2 := bodyCtx(w2, bc)
			for _, a := range genAtoms(bc2, false) {
				n := &gnode{kind: w, bodies: [][]*gnode{{&gnode{kind: w2, bodies: [][]*gnode{{a}}}}}}
				g := &grender{}
				out = append(out, g.stmt(n))
			}
		}
	}
	return out
}

// siblings: two sibling blocks W(A); W'(B) where A lets a block-local escape
// in a closure and B declares something in the next block (which re-uses the
// slot of A's variable when the variables are locals).
func siblings(c gctx) []string {
	var out []string
	for w := wIf; w < wEnd; w++ {
		if w == wIfElse {
			continue
		}
		for w2 := wIf; w2 < wEnd; w2++ {
			if w2 == wIfElse {
				continue
			}
			for _, b := range []int{gRec, gDecl, gClosure, gIIFE3, gEscape, gAddR} {
				g := &grender{}
				out = append(out, g.seq([]*gnode{{kind: w, bodies: [][]*gnode{{{kind: gEscape}}}}, {kind: w2, bodies: [][]*gnode{{{kind: b}}}}}))
			}
		}
	}
	return out
}

func genFamily(maxFull int, nestedCtxs []int) []GenProg {
	var out []GenProg
	add := func(k int, body string) {
		out = append(out, GenProg{Prog: Prog{Name: "gen-" + gctxNames[k] + ": " + body, Src: genWrap(body, k)}, Ctx: k, Body: body})
	}
	for k := 0; k < nGCtx; k++ {
		for n := 1; n <= maxFull; n++ {
			for _, b := range genBodies(n, gctxOf(k)) {
				add(k, b)
			}
		}
	}
	for _, k := range nestedCtxs {
		for _, b := range nested3(gctxOf(k)) {
			add(k, b)
		}
	}
	for _, k := range []int{GTop, GFunc, GClosure} {
		for _, b := range siblings(gctxOf(k)) {
			add(k, b)
		}
	}
	return out
}

// Quick tier: every body of <= 2 statement nodes in all four contexts, and
// the nested size-3 bodies W(W'(A)) inside a function body.
// Thorough tier: every body of <= 3 statement nodes in all four contexts.
// Computed once when the harness package is initialised.
var genProgs = func() []GenProg {
	if Tier() == 0 {
		return append(genFamily(2, []int{GFunc}), genCallAndRec()...)
	}
	return append(genFamily(3, nil), genCallAndRec()...)
}()

func GenPrograms() []GenProg { return genProgs }

// genRelocatable: bodies (<= n nodes) that are valid in every context, i.e.
// contain no top-level break/continue/return: the subject of C11.
func genRelocatable(maxN int, withNested bool) []string {
	var out []string
	for n := 1; n <= maxN; n++ {
		out = append(out, genBodies(n, gctx{})...)
	}
	if withNested {
		out = append(out, nested3(gctx{})...)
	}
	out = append(out, siblings(gctx{})...)
	return out
}

var genReloc = func() []string {
	if Tier() == 0 {
		return genRelocatable(2, true)
	}
	return genRelocatable(3, false)
}()

func GenRelocatable() []string { return genReloc }

func containsStr(s, sub string) bool {
	for i := 0; i+len(sub) <= len(s); i++ {
		if s[i:i+len(sub)] == sub {
			return true
		}
	}
	return false
}

// ---- failing programs with computed error locations (C14)

// GenFail is a generated program, one statement per line, in which exactly one
// statement (genFailText) fails when it is executed. WantLines is the trace a
// failure must report: the line of the failing statement, then the line of the
// call statement of every enclosing function literal, innermost first.
type GenFail struct {
	Name      string
	Src       string
	WantLines []int
	WantMsg   string
}

func lineOf(src, sub string) int {
	for i := 0; i+len(sub) <= len(src); i++ {
		if src[i:i+len(sub)] == sub && (i == 0 || src[i-1] == '\n') && (i+len(sub) == len(src) || src[i+len(sub)] == '\n') {
			n := 1
			for k := 0; k < i; k++ {
				if src[k] == '\n' {
					n++
				}
			}
			return n
		}
	}
	return -1
}

// withOneFail: every variant of the sequence b in which one atom is replaced
// by the failing atom.
func withOneFail(b []*gnode, fk int) [][]*gnode {
	var out [][]*gnode
	for k, n := range b {
		for _, v := range nodeWithOneFail(n, fk) {
			c := append([]*gnode{}, b...)
			c[k] = v
			out = append(out, c)
		}
	}
	return out
}

func nodeWithOneFail(n *gnode, fk int) []*gnode {
	if n.kind < nAtoms {
		return []*gnode{{kind: gFail + fk}}
	}
	var out []*gnode
	for bi, b := range n.bodies {
		for _, v := range withOneFail(b, fk) {
			bs := append([][]*gnode{}, n.bodies...)
			bs[bi] = v
			out = append(out, &gnode{kind: n.kind, bodies: bs})
		}
	}
	return out
}

const genPreL = "r := 0\nm := {k: 0}\nesc := undefined\n"

func genFailWrap(body string, k int) (src string, outer []string) {
	switch k {
	case GTop:
		return "x := a\ny := b\n" + genPreL + body + "\nout := " + genRes, nil
	case GFunc:
		return "f := func(x, y) {\n" + genPreL + body + "\nreturn " + genRes + "\n}\nout := f(a, b)", []string{"out := f(a, b)"}
	case GClosure:
		return "f := func(x) {\ny := b\n" + genPreL + "g := func() {\n" + body + "\nreturn 1\n}\nt := g()\nreturn " + genRes + " + [t]\n}\nout := f(a)", []string{"t := g()", "out := f(a)"}
	case GLoopFunc:
		return "f := func(x, y) {\n" + genPreL + "for w := 0; w < 2; w++ {\n" + body + "\n}\nreturn " + genRes + "\n}\nout := f(a, b)", []string{"out := f(a, b)"}
	}
	panic("gen: unknown context")
}

func genFailFamily(maxFull int, nested bool) []GenFail {
	var out []GenFail
	seen := map[string]bool{}
	add := func(k int, b []*gnode, fk int) {
		g := &grender{sep: "\n"}
		body := g.seq(b)
		src, outer := genFailWrap(body, k)
		if seen[src] {
			return
		}
		seen[src] = true
		want := []int{lineOf(src, genFailLine(fk))}
		for _, u := range g.failCalls {
			want = append(want, lineOf(src, "fn"+u+"()"))
		}
		for _, o := range outer {
			want = append(want, lineOf(src, o))
		}
		for _, w := range want {
			if w < 0 {
				panic("gen: cannot locate an expected line in " + src)
			}
		}
		out = append(out, GenFail{Name: "genfail-" + gctxNames[k] + ": " + body, Src: src, WantLines: want, WantMsg: genFailMsgs[fk]})
	}
	for fk := range genFailTexts {
		for k := 0; k < nGCtx; k++ {
			c := gctxOf(k)
			for n := 1; n <= maxFull; n++ {
				for _, b := range genSeqs(n, c) {
					for _, v := range withOneFail(b, fk) {
						add(k, v, fk)
					}
				}
			}
			// dead code directly before the failing statement: W(exit; atom) then fail
			for w := wIf; w < wEnd; w++ {
				if w == wIfElse {
					continue
				}
				bc := bodyCtx(w, c)
				for _, ex := range []int{gReturn, gBreak, gContinue} {
					if (ex == gReturn && !bc.inFunc) || (ex != gReturn && !bc.inLoop) {
						continue
					}
					for _, a := range []int{gAddR, gDecl} {
						add(k, []*gnode{{kind: w, bodies: [][]*gnode{{{kind: ex}, {kind: a}}}}, {kind: gFail + fk}}, fk)
					}
				}
			}
			if nested {
				for w := wIf; w < wEnd; w++ {
					if w == wIfElse {
						continue
					}
					for w2 := wIf; w2 < wEnd; w2++ {
						if w2 == wIfElse {
							continue
						}
						add(k, []*gnode{{kind: w, bodies: [][]*gnode{{{kind: w2, bodies: [][]*gnode{{{kind: gFail + fk}}}}}}}}, fk)
					}
				}
			}
		}
	}
	return out
}

// Quick: bodies of <= 2 nodes plus the nestings W(W'(fail)); thorough: <= 3 nodes.
var genFails = func() []GenFail {
	if Tier() == 0 {
		return genFailFamily(2, true)
	}
	return genFailFamily(3, false)
}()

func GenFailing() []GenFail { return genFails }
