package h

// C07 — cancellation stops any running script promptly and cleanly.
// The cancellation instant is data: "before the run starts", "at the k-th
// poll of the VM's abort flag" (the VM polls once per instruction), or
// "never"; the delay until the waiting goroutine is scheduled is a further
// bounded choice. Goroutine, channel, select, recover and the deferred Unlock
// of RunContext are the real code, run by the cooperative scheduler.

import (
	"errors"
	"time"

	"github.com/d5/tengo/v2"
	"verif/h/vf"
)

var errCancelled = errors.New("context cancelled (harness)")

type cancelProg struct {
	name     string
	src      string // uses input lim: lim < 0 makes it run forever
	infinite bool
	result   func(lim int64) int64
}

var cancelProgs = []cancelProg{
	{"counting-loop", `out := 0; for i := 0; lim < 0 || i < lim; i++ { out += 2 }`, true,
		func(lim int64) int64 { return 2 * lim }},
	{"tail-recursion", `f := func(n, acc) { if lim >= 0 && n >= lim { return acc }; return f(n+1, acc+3) }; out := f(0, 0)`, true,
		func(lim int64) int64 { return 3 * lim }},
	{"nested-calls", `g := func(x) { return x + 1 }; out := 0; for lim < 0 || out < lim { out = g(out) }`, true,
		func(lim int64) int64 { return lim }},
	{"short", `out := lim * 2 + 1`, false,
		func(lim int64) int64 { return lim*2 + 1 }},
	// loops whose instruction cycle consists of jumps only
	{"empty-loop", `out := lim; if lim < 0 { for {} }`, true,
		func(lim int64) int64 { return lim }},
	{"continue-loop", `out := lim; if lim < 0 { for { continue } }`, true,
		func(lim int64) int64 { return lim }},
	{"empty-loop-in-function", `spin := func() { for {} }; out := lim; if lim < 0 { spin() }`, true,
		func(lim int64) int64 { return lim }},
	{"empty-for-in-body", `out := 0; for lim < 0 || out < lim { for v in [1, 2] {}; out++ }`, true,
		func(lim int64) int64 { return lim }},
	{"builtin-heavy", `out := 0; for i := 0; lim < 0 || i < lim; i++ { out += len(append([1], i)) + int(string(i)) - i }`, true,
		func(lim int64) int64 { return 2 * lim }},
}

// C07_Cancel: cancel at every instant relative to the run.
func C07_Cancel() {
	p := cancelProgs[vf.Choice("prog", len(cancelProgs))]
	K, D := 8, 1
	if Tier() > 0 {
		K, D = 60, 2
	}
	// mode: 0 = cancelled before the run starts, 1 = at poll k, 2 = never,
	// 3 = cancelled by the script's own last statement (a host function), i.e.
	// at the instant the run finishes: both the result and the cancellation
	// are pending when RunContext looks
	mode := vf.Choice("mode", 4)
	k := 0
	if mode == 1 {
		k = vf.Choice("k", K)
	}
	// d: polls after the cancellation before the waiting goroutine is forced
	// to run (it may also run immediately: the channel close is a scheduling point)
	d := 1 + vf.Choice("d", D)
	runForever := p.infinite && vf.Choice("forever", 2) == 1
	if mode == 2 && runForever {
		vf.Stop() // an uncancelled infinite program never returns: not a property of cancellation
	}
	if mode == 3 && runForever {
		vf.Stop() // the last statement of an infinite program is never reached
	}
	lim := int64(3)
	if runForever {
		lim = -1
	}
	lim2 := vf.Int64("lim2")
	vf.Assume(lim2 >= 0)
	vf.Assume(lim2 <= 2)
	round := func() {
		src := p.src
		if mode == 3 {
			src += "; fin()"
		}
		s := tengo.NewScript([]byte(src))
		_ = s.Add("lim", lim)
		var finish func()
		_ = s.Add("fin", &tengo.UserFunction{Name: "fin", Value: func(args ...tengo.Object) (tengo.Object, error) {
			finish()
			return tengo.UndefinedValue, nil
		}})
		c, err := s.Compile()
		vf.Assert(err == nil, "cancellation program compiles: "+p.name)

		ctx := &hctx{done: make(chan struct{})}
		polls, cancelled, handoffAt := 0, false, -1
		sawAbort, pollsAfterAbort := false, 0
		cancel := func() {
			ctx.err = errCancelled
			cancelled = true
			close(ctx.done)
		}
		vf.SetHook("poll", func() {
			if sawAbort {
				pollsAfterAbort++
			}
			if vf.PollValue() != 0 {
				sawAbort = true
			}
			if mode == 1 && polls == k && !cancelled {
				handoffAt = polls + d
				cancel()
			}
			if cancelled && polls == handoffAt {
				vf.Handoff()
			}
			polls++
		})
		finish = func() {
			if mode == 3 && !cancelled {
				cancel()
			}
		}
		if mode == 0 {
			cancel()
			handoffAt = d
		}
		if mode == 1 && !vf.Symbolic() {
			// native replay: the poll hook does not exist; cancel from a real goroutine
			go func() {
				time.Sleep(time.Duration(k+1) * 200 * time.Microsecond)
				cancel()
			}()
		}
		var rerr error
		res := vf.Guard(func() { rerr = c.RunContext(ctx) }, 3000000)
		vf.SetHook("poll", nil)
		vf.Assert(res == 0, "RunContext returns after cancellation within the bound (no hang, no panic): "+p.name+": "+vf.LastGuard())
		vf.Assert(pollsAfterAbort == 0, "the VM dispatches no instruction after it observed the abort flag: "+p.name)
		vf.Assert(vf.Goroutines() == 0, "no goroutine is left behind when RunContext returns: "+p.name)
		own := rerr == nil
		if cancelled && runForever {
			vf.Assert(rerr == errCancelled, "a cancelled run that could not finish returns the context's error: "+p.name)
		} else if cancelled {
			vf.Assert(rerr == errCancelled || own, "a cancelled run returns the context's error, or its own result if it had finished: "+p.name)
		} else {
			vf.Assert(own, "an uncancelled run returns its own result: "+p.name)
		}
		if own && !cancelled {
			vf.Assert(c.Get("out").Int64() == p.result(lim), "uncancelled run computes its result: "+p.name)
		}
		// the compiled object can be run again with correct results
		_ = c.Set("lim", lim2)
		var rerr2 error
		res = vf.Guard(func() { rerr2 = c.RunContext(liveCtx()) }, 3000000)
		vf.Assert(res == 0 && rerr2 == nil, "the compiled object can be run again after a cancelled run: "+p.name+": "+vf.LastGuard())
		vf.Assert(c.Get("out").Int64() == p.result(lim2), "the second run computes correct results: "+p.name)
		vf.Assert(vf.Goroutines() == 0, "no goroutine left after the second run: "+p.name)
	}
	if mode == 3 && !vf.Symbolic() {
		// natively which of the two pending events RunContext sees first is up
		// to the Go scheduler: repeat the scenario
		for r := 0; r < 60; r++ {
			round()
		}
	} else {
		round()
	}
	vf.Reach("cancel")
}

// C07_HostCall: the context is cancelled while the script is inside a host
// function that keeps running for a while (a user-supplied Go callable; the
// property excludes nothing here except how long the native call takes).
// RunContext may not return before the VM goroutine has ended: "no goroutine
// is left behind", and the compiled object - whose lock RunContext releases -
// is not handed back while a stale run still uses its globals.
func C07_HostCall() {
	spins := 1 + vf.Choice("spins", 3)
	before := vf.Choice("cancel-before-call", 2) == 1
	ctx := &hctx{done: make(chan struct{})}
	inHost, cancelled := false, false
	cancel := func() {
		if !cancelled {
			cancelled = true
			ctx.err = errCancelled
			close(ctx.done)
		}
	}
	host := &tengo.UserFunction{Name: "wait", Value: func(args ...tengo.Object) (tengo.Object, error) {
		inHost = true
		if !before {
			cancel()
		}
		if vf.Symbolic() {
			for k := 0; k < spins; k++ {
				vf.Handoff() // the waiting goroutine gets to run while the call is in progress
			}
		} else {
			time.Sleep(1500 * time.Millisecond)
		}
		inHost = false
		return tengo.UndefinedValue, nil
	}}
	s := tengo.NewScript([]byte(`out := 1; wait(); out = 2; for i := 0; i < 3; i++ { out += i }`))
	_ = s.Add("wait", host)
	c, err := s.Compile()
	vf.Assert(err == nil, "host-call program compiles")
	if before {
		cancel()
	}
	var rerr error
	res := vf.Guard(func() { rerr = c.RunContext(ctx) }, 3000000)
	vf.Assert(res == 0, "RunContext returns (no hang, no panic) when cancelled during a host call: "+vf.LastGuard())
	vf.Assert(!inHost, "RunContext does not return while the script's goroutine is still inside the host call")
	vf.Assert(vf.Goroutines() == 0, "no goroutine is left behind when RunContext returns (cancelled during a host call)")
	vf.Assert(rerr == errCancelled || rerr == nil, "the result is the context's error or the run's own result")
	// the compiled object can be run again with a live context
	host.Value = func(args ...tengo.Object) (tengo.Object, error) { return tengo.UndefinedValue, nil }
	var rerr2 error
	res = vf.Guard(func() { rerr2 = c.RunContext(liveCtx()) }, 3000000)
	vf.Assert(res == 0 && rerr2 == nil, "the compiled object can be run again after a run cancelled during a host call: "+vf.LastGuard())
	vf.Assert(c.Get("out").Int64() == 5, "the second run computes correct results")
	vf.Assert(vf.Goroutines() == 0, "no goroutine left after the second run")
	vf.Reach("hostcall")
}
