package h

import (
	"github.com/d5/tengo/v2"
	"github.com/d5/tengo/v2/token"
	"verif/h/vf"
)

func truthy(o tengo.Object, err error) bool {
	return err == nil && !o.IsFalsy()
}

// Spike_IntFloat: a<b <=> b>a for Int vs Float through the real BinaryOp.
func Spike_IntFloat() {
	a := &tengo.Int{Value: vf.Int64("a")}
	b := &tengo.Float{Value: vf.Float64("b")}
	lt, e1 := a.BinaryOp(token.Less, b)
	gt, e2 := b.BinaryOp(token.Greater, a)
	vf.Assert(e1 == nil && e2 == nil, "no error")
	vf.Assert(lt.IsFalsy() == gt.IsFalsy(), "a<b iff b>a")
	vf.Reach("end")
}

// Spike_Script: whole pipeline with two symbolic int inputs.
func Spike_Script() {
	a, b := vf.Int64("a"), vf.Int64("b")
	s := tengo.NewScript([]byte(`out := 0; if a < b { out = a + b } else { out = a - b }`))
	_ = s.Add("a", a)
	_ = s.Add("b", b)
	c, err := s.Compile()
	vf.Assert(err == nil, "compiles")
	err = c.Run()
	vf.Assert(err == nil, "runs")
	out := c.Get("out").Int64()
	var want int64
	if a < b {
		want = a + b
	} else {
		want = a - b
	}
	vf.Assert(out == want, "script result equals Go expression")
	vf.Reach("end")
}
