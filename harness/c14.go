package h

// C14 — run-time errors point at the statement that failed.

import (
	"errors"
	"strconv"

	"github.com/d5/tengo/v2"
	"verif/h/vf"
)

// errProg: one statement per line; sel (a host int) selects which operation
// fails. expect returns, for the given inputs, the expected trace as a list
// of line numbers (innermost first), or nil when the run must succeed.
type errProg struct {
	name   string
	src    string
	file   string // file name expected for frame 0 ("(main)" or a module name)
	expect func(sel int64, c bool) []int
}

var errProgs = []errProg{
	{"flat-main", `x := 1
if sel == 0 { x = x + "s" - 1 }
y := [1, 2]
if sel == 1 { y[5] = 1 }
z := {k: 1}
if sel == 2 { z = z.k.j.i }
if sel == 3 { x = y(1) }
out := x`, "(main)", func(sel int64, c bool) []int {
		switch sel {
		case 0:
			return []int{2}
		case 1:
			return []int{4}
		case 2:
			return nil // selector on int yields undefined chain? checked below
		case 3:
			return []int{7}
		}
		return nil
	}},
	{"nested-calls", `inner := func(v) {
  if sel == 0 { return v + "s" - 1 }
  return v
}
middle := func(v) {
  if sel == 1 { return v[0] }
  r := inner(v)
  return r + 1
}
outer := func(v) {
  q := middle(v)
  if sel == 2 { return q() }
  return q
}
out := outer(5)`, "(main)", func(sel int64, c bool) []int {
		switch sel {
		case 0:
			return []int{2, 7, 11, 15}
		case 1:
			return []int{6, 11, 15}
		case 2:
			return []int{12, 15}
		}
		return nil
	}},
	{"dead-code-shift", `f := func(v) {
  if c { return 0; v = 1; v = 2 }
  for i := 0; i < 2; i++ { if i == 5 { continue; v = 3 } }
  if sel == 0 {
    w := v + "s"
    return w - 1
  }
  if sel == 1 {
    return v; v = 4; v = 5
  }
  x := v.k
  if sel == 2 {
    x = x.j + 1
  }
  return v
  v = 9
}
g := func(v) {
  r := f(v)
  return r
}
out := g(4)`, "(main)", func(sel int64, c bool) []int {
		switch {
		case sel == 0 && !c:
			return []int{5, 19, 22}
		case sel == 2 && !c:
			return []int{11, 19, 22}
		}
		return nil
	}},
	{"loop-and-closure", `acc := 0
add := func(n) { acc += n; if sel == 0 && n == 2 { acc = acc.x.y + 1 } }
for i := 0; i < 3; i++ {
  add(i)
  if sel == 1 && i == 1 { acc = acc + "s" - 1 }
}
out := acc`, "(main)", func(sel int64, c bool) []int {
		switch sel {
		case 0:
			return []int{2, 4}
		case 1:
			return []int{5}
		}
		return nil
	}},
}

// parseTrace extracts the "at file:line:col" locations of an error text.
func parseTrace(msg string) (files []string, lines []int) {
	for i := 0; i+5 < len(msg); i++ {
		if msg[i] == '\t' && msg[i+1] == 'a' && msg[i+2] == 't' && msg[i+3] == ' ' {
			j := i + 4
			k := j
			for k < len(msg) && msg[k] != '\n' {
				k++
			}
			loc := msg[j:k]
			// file:line:col
			c2 := len(loc) - 1
			for c2 >= 0 && loc[c2] != ':' {
				c2--
			}
			c1 := c2 - 1
			for c1 >= 0 && loc[c1] != ':' {
				c1--
			}
			if c1 < 0 {
				continue
			}
			n := 0
			for q := c1 + 1; q < c2; q++ {
				n = n*10 + int(loc[q]-'0')
			}
			files = append(files, loc[:c1])
			lines = append(lines, n)
			i = k - 1
		}
	}
	return
}

// C14_Positions: the failing statement and the call trace are reported by
// line, innermost first, in main, also when dead-code elimination shifted the
// instruction offsets.
func C14_Positions() {
	p := errProgs[vf.Choice("prog", len(errProgs))]
	sel := vf.Int64("sel")
	c := vf.Bool("c")
	vf.Assume(sel >= 0)
	vf.Assume(sel <= 3)
	want := p.expect(sel, c)
	if want == nil {
		vf.Stop()
	}
	s := tengo.NewScript([]byte(p.src))
	_ = s.Add("sel", sel)
	_ = s.Add("c", c)
	cc, err := s.Compile()
	vf.Assert(err == nil, "error-position program compiles: "+p.name)
	useCtx := vf.Choice("ctx", 2) == 1
	var rerr error
	if useCtx {
		res := vf.Guard(func() { rerr = cc.RunContext(liveCtx()) }, 8000000)
		vf.Assert(res == 0, "RunContext returns")
	} else {
		var panicked bool
		rerr, panicked, _ = RunGuarded(cc)
		vf.Assert(!panicked, "no Go panic")
	}
	vf.Assert(rerr != nil, "the selected operation fails: "+p.name)
	files, lines := parseTrace(rerr.Error())
	vf.Assert(len(lines) == len(want), "one location per active call, innermost first: "+p.name+": "+rerr.Error())
	for k := range want {
		vf.Assert(files[k] == p.file, "location names the source file")
		vf.Assert(lines[k] == want[k], "location lies in the statement that was executing: "+p.name+": "+rerr.Error())
	}
	vf.Reach("positions")
}

// C14_Module: an error raised inside a module function is located in the
// module's file, the caller's location in main.
func C14_Module() {
	sel := vf.Int64("sel")
	vf.Assume(sel >= 0)
	vf.Assume(sel <= 1)
	mods := tengo.NewModuleMap()
	mods.AddSourceModule("mod", []byte(`helper := func(v) {
  if v == 0 { return v + "s" - 1 }
  return v
}
export {
  f: func(v) { return helper(v) + 1 }
}`))
	s := tengo.NewScript([]byte(`m := import("mod")
x := 1
if sel == 0 { x = m.f(0) }
if sel == 1 { x = m.f(1)() }
out := x`))
	s.SetImports(mods)
	_ = s.Add("sel", sel)
	cc, err := s.Compile()
	vf.Assert(err == nil, "module program compiles")
	rerr, panicked, _ := RunGuarded(cc)
	vf.Assert(!panicked && rerr != nil, "the selected operation fails")
	files, lines := parseTrace(rerr.Error())
	if sel == 0 {
		vf.Assert(len(lines) == 3, "trace has the failing statement, the module function and the call in main: "+rerr.Error())
		vf.Assert(files[0] == "mod" && lines[0] == 2, "failing statement is located in the module file")
		vf.Assert(files[1] == "mod" && lines[1] == 6, "calling statement inside the module")
		vf.Assert(files[2] == "(main)" && lines[2] == 3, "calling statement in main")
	} else {
		vf.Assert(len(lines) == 1 && files[0] == "(main)" && lines[0] == 4, "failure in main after a module call returned: "+rerr.Error())
	}
	vf.Reach("module")
}

// ---- systematic placement of the failing statement

// failing statements; `@` marks where the statement starts (its line is the
// expected location). $X is the function parameter (a string) where there is
// one, a literal otherwise.
var markForms = []string{
	`@q := -$X`,
	`@q := $X - 1`,
	`@len(1, 2, 3)`,
	`@$X()`,
	`@q := [1]["k"]`,
	`@for v in 5 { }`,
	`@-$X`,
}

var deadBefore = []string{"", "if x == 0 { return 0; y := 2 }\n", "if x == 0 { return 0; y := 2; y = 3 }\n", "for i := 0; i < 1; i++ { if x == 0 { continue; y := [2] } }\n"}
var markTails = []string{"", "\nreturn 1", "\nreturn 1\ny := 2", "\nreturn 1\ny := 2\ny = [3]"}
var markLeads = []string{"", "pad := 1\n"}

func countLines(s string, upto int) int {
	n := 1
	for i := 0; i < upto; i++ {
		if s[i] == '\n' {
			n++
		}
	}
	return n
}

// C14_Marked: the failing statement is placed at the first byte / after a
// lead statement, in main, a function, a module body or a module function,
// with dead code before and after it and with or without a trailing return;
// one or two modules; the compiled script run once or twice. Frame 0 must
// name the file and line of the statement, every frame a file and a line.
func C14_Marked() {
	place := vf.Choice("place", 4)
	form := markForms[vf.Choice("form", len(markForms))]
	lead := markLeads[vf.Choice("lead", len(markLeads))]
	dead, tail := "", ""
	if place == 1 || place == 3 {
		dead = deadBefore[vf.Choice("dead", len(deadBefore))]
		tail = markTails[vf.Choice("tail", len(markTails))]
	}
	twoMods := vf.Choice("mods", 2) == 1
	twice := vf.Choice("twice", 2) == 1
	xarg := `"s"`
	if place == 1 || place == 3 {
		xarg = "x"
	}
	stmt := ""
	for i := 0; i < len(form); i++ {
		if form[i] == '$' && i+1 < len(form) && form[i+1] == 'X' {
			stmt += xarg
			i++
			continue
		}
		stmt += string(form[i])
	}
	fn := "func(x) {\n" + dead + lead + stmt + tail + "\n}"
	// twin: a function literal with the same text (so, where the body mentions
	// no literal, the same instructions) defined a few lines earlier and never
	// called: locations must be those of the function that runs
	twin := ""
	if (place == 1 || place == 3) && vf.Choice("twin", 2) == 1 {
		for i := 0; i < len(fn); i++ {
			if fn[i] != '@' {
				twin += string(fn[i])
			}
		}
		twin = "twin := " + twin + "\n"
	}
	var mainSrc, modSrc, file string
	switch place {
	case 0: // main, top level
		mainSrc, file = lead+stmt+"\nout := 1", "(main)"
	case 1: // function in main
		mainSrc, file = lead+twin+"f := "+fn+"\nout := f(\"s\")", "(main)"
	case 2: // module body: fails while the import expression is evaluated
		modSrc, file = lead+stmt+"\nexport 1", "mod1"
		mainSrc = "a := import(\"mod1\")"
	default: // function exported by a module
		modSrc, file = lead+twin+"export "+fn, "mod1"
		mainSrc = "import(\"mod1\")(\"s\")"
	}
	if twoMods {
		mainSrc += "\nb := import(\"mod2\")"
	}
	marked := mainSrc
	if place >= 2 {
		marked = modSrc
	}
	at := indexOf(marked, "@")
	wantLine := countLines(marked, at)
	strip := func(t string) string {
		out := ""
		for i := 0; i < len(t); i++ {
			if t[i] != '@' {
				out += string(t[i])
			}
		}
		return out
	}
	mods := tengo.NewModuleMap()
	if place >= 2 {
		mods.AddSourceModule("mod1", []byte(strip(modSrc)))
	} else {
		mods.AddSourceModule("mod1", []byte("export 1"))
	}
	mods.AddSourceModule("mod2", []byte("export 2\n"))
	s := tengo.NewScript([]byte(strip(mainSrc)))
	s.SetImports(mods)
	cc, err := s.Compile()
	what := "`" + strip(marked) + "` in " + file
	vf.Assert(err == nil, "marked program compiles: "+what)
	rerr, panicked, _ := RunGuarded(cc)
	vf.Assert(!panicked && rerr != nil, "the marked statement fails: "+what)
	if twice {
		rerr2, panicked2, _ := RunGuarded(cc)
		vf.Assert(!panicked2 && rerr2 != nil && rerr2.Error() == rerr.Error(), "a second run reports the same error and locations: "+what)
		rerr = rerr2
	}
	msg := rerr.Error()
	files, lines := parseTrace(msg)
	nAt := 0
	for i := 0; i+4 <= len(msg); i++ {
		if msg[i:i+4] == "\tat " {
			nAt++
		}
	}
	vf.Assert(nAt >= 1 && nAt == len(lines), "every frame of the trace has a file:line:col location: "+msg)
	for k := range files {
		vf.Assert(files[k] == "(main)" || files[k] == "mod1", "every location names a source file of the program: "+msg)
		vf.Assert(lines[k] >= 1, "every location has a line: "+msg)
	}
	vf.Assert(files[0] == file && lines[0] == wantLine, "the innermost location is the failing statement ("+file+" line "+strconv.Itoa(wantLine)+"): "+what+": "+msg)
	vf.Reach("marked")
}

type hostErr struct {
	code  int
	cause error
}

func (e *hostErr) Error() string { return "host failure" }
func (e *hostErr) Unwrap() error { return e.cause }

// causes a host error may carry in its Unwrap chain: nothing, another host
// error, or any of the engine's own error values
var hostCauses = []error{nil, errors.New("io failure"), tengo.ErrWrongNumArguments, tengo.ErrInvalidArgumentType{Name: "first", Expected: "int", Found: "string"},
	tengo.ErrIndexOutOfBounds, tengo.ErrStackOverflow, tengo.ErrObjectAllocLimit, tengo.ErrStringLimit, tengo.ErrBytesLimit, tengo.ErrNotIndexAssignable,
	tengo.ErrInvalidIndexType, tengo.ErrInvalidOperator, tengo.ErrNotIndexable, tengo.ErrNotImplemented}

// C14_Unwrap: sentinel errors and host errors stay recognisable through
// errors.Is / errors.As in the returned run-time error.
func C14_Unwrap() {
	k := vf.Choice("kind", 6)
	var src string
	var sentinel error
	maxAllocs := int64(-1)
	oldS, oldB := tengo.MaxStringLen, tengo.MaxBytesLen
	defer func() { tengo.MaxStringLen, tengo.MaxBytesLen = oldS, oldB }()
	switch k {
	case 0:
		src, sentinel, maxAllocs = `x := [1, 2, 3]; y := x + [4]`, tengo.ErrObjectAllocLimit, 2
	case 1:
		src, sentinel = `f := func() { return [f()] }; f()`, tengo.ErrStackOverflow
	case 2:
		src, sentinel = `x := [1]; x[3] = 1`, tengo.ErrIndexOutOfBounds
	case 3:
		src, sentinel = `s := "aaaa" + "bbbb"`, tengo.ErrStringLimit
		tengo.MaxStringLen = 6
	case 4:
		src, sentinel = `b := bytes("aaaa") + bytes("bbbb")`, tengo.ErrBytesLimit
		tengo.MaxBytesLen = 6
	case 5:
		srcs := []string{`out := hostfn(1)`, `f := func(x) { return [hostfn(x)] }; out := f(1)`, `out := [1, 2, hostfn()]`}
		src = srcs[vf.Choice("hostsrc", len(srcs))]
	}
	s := tengo.NewScript([]byte(src))
	s.SetMaxAllocs(maxAllocs)
	he := &hostErr{code: 42}
	var ret error = he
	if k == 5 {
		he.cause = hostCauses[vf.Choice("cause", len(hostCauses))]
		if vf.Choice("wrapped", 2) == 1 {
			ret = &hostErr{code: 1, cause: he} // the error is itself wrapped by the host
		}
	}
	_ = s.Add("hostfn", &tengo.UserFunction{Name: "hostfn", Value: func(args ...tengo.Object) (tengo.Object, error) { return nil, ret }})
	cc, err := s.Compile()
	vf.Assert(err == nil, "compiles")
	useCtx := vf.Choice("ctx", 2) == 1
	var rerr error
	if useCtx {
		res := vf.Guard(func() { rerr = cc.RunContext(liveCtx()) }, 30000000)
		vf.Assert(res == 0, "RunContext returns")
	} else {
		rerr, _, _ = RunGuarded(cc)
	}
	vf.Assert(rerr != nil, "run fails")
	if k == 5 {
		var got *hostErr
		vf.Assert(errors.As(rerr, &got) && (got == he || got == ret), "a host function's error is found by errors.As")
		vf.Assert(errors.Is(rerr, he), "a host function's error is found by errors.Is")
		if he.cause != nil {
			vf.Assert(errors.Is(rerr, he.cause), "what the host function's error wraps is found by errors.Is")
		}
	} else {
		vf.Assert(errors.Is(rerr, sentinel), "the sentinel error is recognisable through unwrapping")
	}
	_, lines := parseTrace(rerr.Error())
	vf.Assert(len(lines) >= 1 && lines[0] == 1, "the failing statement is located")
	vf.Reach("unwrap")
}

// C14_Gen: the generated failing programs (gen.go: one statement per line,
// one failing statement placed at every position of every small nesting of
// loops, conditionals and function literals, in four variable-placement
// contexts). Whenever a run fails, the trace must be exactly: the line of the
// failing statement, then the line of the call of every enclosing function,
// innermost first.
func C14_Gen() {
	ps := GenFailing()
	p := ps[vf.Choice("prog", len(ps))]
	// the compiler iterates Go maps (source map): both iteration orders the engine offers
	vf.MapOrder(vf.Choice("maporder", 2))
	s := tengo.NewScript([]byte(p.Src))
	_ = s.Add("a", vf.Int64("a"))
	_ = s.Add("b", vf.Int64("b"))
	_ = s.Add("c", vf.Bool("c"))
	cc, err := s.Compile()
	if err != nil {
		vf.Stop()
	}
	rerr, panicked, ptext := RunGuarded(cc)
	vf.Assert(!panicked, "no Go panic: "+p.Name+": "+ptext)
	if rerr == nil {
		vf.Reach("gen-nofail")
		return
	}
	msg := rerr.Error()
	vf.Assert(contains(msg, p.WantMsg), "the failure is the failing statement's: "+p.Name+": "+msg)
	files, lines := parseTrace(msg)
	want := ""
	for _, w := range p.WantLines {
		want += " " + strconv.Itoa(w)
	}
	ok := len(lines) == len(p.WantLines)
	if ok {
		for k := range lines {
			if lines[k] != p.WantLines[k] || files[k] != "(main)" {
				ok = false
			}
		}
	}
	vf.Assert(ok, "trace lines are"+want+" (failing statement, then each active call, innermost first): "+p.Src+": "+msg)
	vf.Reach("gen")
}
