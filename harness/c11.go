package h

// C11 — a program means the same wherever its variables live.

import (
	"github.com/d5/tengo/v2"
	"verif/h/vf"
)

// scopeProg: Body uses inputs a, b (int) and c (bool); `@name` marks a
// variable occurrence (for renaming), `#(` ... `)#` marks a sub-expression
// that may be wrapped in an immediately-invoked function literal. Results
// lists the expressions whose values are compared.
type scopeProg struct {
	Name    string
	Body    string
	Results string
	Small   bool
}

var scopeProgs = []scopeProg{
	{"assign-ops", `@x := a; @x += b; @x -= 1; @x *= 2; @y := #(@x + a)#; @y++; @y--; @y %= 7`, `@x, @y`, false},
	{"if-else", `@r := 0; if #(a < b)# { @r = #(a + b)# } else if a == b { @r = a * 2 } else { @r = a - b }`, `@r`, false},
	{"loop-sum", `@s := 0; for @i := 0; @i < a; @i++ { if @i == b { continue }; @s += #(@i * 2)# }`, `@s`, true},
	{"for-in", `@s := 0; @ks := 0; for @k, @v in [a, b, #(a + b)#] { @s += @v; @ks += @k }`, `@s, @ks`, false},
	{"closure-counter", `@n := a; @inc := func(@d) { @n += @d; return @n }; @inc(b); @q := @inc(#(1 + 1)#)`, `@n, @q`, false},
	{"closure-shared", `@x := a; @add := func() { @x += b }; @get := func() { return @x }; @add(); @add(); @g := @get()`, `@x, @g`, false},
	{"nested-closure", `@mk := func(@p) { return func(@q) { return func(@r) { return @p*100 + @q*10 + @r } } }; @o := @mk(a)(b)(#(3)#)`, `@o`, false},
	{"sel-assign", `@m := {k: {v: a}, l: [1, 2]}; @m.k.v += b; @m.l[1] = #(a * 2)#; @m.k.w = c; @f := func() { @m.k.v = @m.k.v + 1 }; @f()`, `@m`, false},
	{"sel-assign-free", `@m := {k: a}; @g := func() { @h := func() { @m.k = @m.k * 2 + b; @m.j = c }; @h() }; @g()`, `@m`, false},
	{"copied-closure", `@n := 0; @obj := {inc: func() { @n += 1 }, get: func() { return @n }}; @cp := copy(@obj); @cp.inc(); @obj.inc(); @fs := copy([@obj.get]); @r := [@n, @obj.get(), @cp.get(), @fs[0]()]`, `@r`, false},
	{"captured-then-reused-slot", `@o := 0; if c { @k := a; @g := func() { return @k }; @o = @g() }; @s := 0; for @v in [1, 2, b] { @s += @v }; @h := func() { return @s + @o }; @r := @h()`, `@r, @s, @o`, false},
	{"live-closure-then-forin", `@g := undefined; @s := 0; if c { @k := a; @g = func() { return @k } }; for @v in [1, 2, b] { @s += @v }; if c { @k2 := b; @g2 := func() { return @k2 }; @s += @g2() }; for @i, @w in {x: a} { @s += @w }; @r := is_undefined(@g) ? -1 : @g()`, `@r, @s`, false},
	{"incdec-closure", `@x := a; @f := func() { @x++; @x++; @x-- }; @f(); @y := b; @y -= @x`, `@x, @y`, false},
	{"shadow", `@x := a; @o := 0; if c { @x := b; @x += 1; @o = @x } else { @x = @x + 2; @o = @x }`, `@x, @o`, false},
	{"logical", `@p := #(a > 0)# && b > 0; @q := a > 0 || #(b > 0)#; @r := c ? @p : @q`, `@p, @q, @r`, false},
	{"variadic", `@f := func(@x, ...@r) { @s := @x; for @v in @r { @s += @v }; return @s*10 + len(@r) }; @o1 := @f(a); @o2 := @f(a, b); @o3 := @f([a, b, 1]...)`, `@o1, @o2, @o3`, false},
	{"recursive", `@fib := func(@n) { if @n < 2 { return @n }; return @fib(@n-1) + @fib(@n-2) }; @o := @fib(a)`, `@o`, true},
	{"failing-div", `@x := a; @y := @x / #(b - b)#`, `@x`, false},
	{"failing-type", `@x := a; @y := #(@x + "s")# - 1`, `@x`, false},
	{"failing-index", `@x := [1, 2, 3]; @y := @x[#(a)#]; @z := @y + 1`, `@z`, false},
}

func stripMarks(s string, rename bool, wrap int) string {
	out := ""
	nwrap := 0
	for i := 0; i < len(s); i++ {
		switch {
		case s[i] == '@':
			// identifier follows
			j := i + 1
			for j < len(s) && (s[j] == '_' || s[j] >= 'a' && s[j] <= 'z' || s[j] >= 'A' && s[j] <= 'Z' || s[j] >= '0' && s[j] <= '9') {
				j++
			}
			out += s[i+1 : j]
			if rename {
				out += "_renamed"
			}
			i = j - 1
		case s[i] == '#' && i+1 < len(s) && s[i+1] == '(':
			if nwrap == wrap {
				out += "(func() { return ("
			} else {
				out += "("
			}
			i++
		case s[i] == ')' && i+1 < len(s) && s[i+1] == '#':
			if nwrap == wrap {
				out += ") })()"
			} else {
				out += ")"
			}
			nwrap++
			i++
		default:
			out += string(s[i])
		}
	}
	return out
}

func countWraps(s string) int {
	n := 0
	for i := 0; i+1 < len(s); i++ {
		if s[i] == '#' && s[i+1] == '(' {
			n++
		}
	}
	return n
}

type outcome struct {
	compileErr bool
	runErr     bool
	panicked   bool
	class      string
	out        tengo.Object
}

func runVariant(src string, mods *tengo.ModuleMap, a, b int64, c bool) outcome {
	s := tengo.NewScript([]byte(src))
	_ = s.Add("a", a)
	_ = s.Add("b", b)
	_ = s.Add("c", c)
	if mods != nil {
		s.SetImports(mods)
	}
	cc, err := s.Compile()
	if err != nil {
		return outcome{compileErr: true, class: "compile"}
	}
	rerr, panicked, ptext := RunGuarded(cc)
	if panicked {
		return outcome{panicked: true, class: "panic:" + ptext, out: cc.Get("out").Object()}
	}
	if rerr != nil {
		return outcome{runErr: true, class: classifyErr(rerr.Error()).String(), out: cc.Get("out").Object()}
	}
	return outcome{out: cc.Get("out").Object()}
}

func sameOutcome(x, y outcome) bool {
	if x.compileErr != y.compileErr || x.runErr != y.runErr || x.panicked != y.panicked || x.class != y.class {
		return false
	}
	if x.compileErr || x.runErr || x.panicked {
		return true
	}
	return Same(x.out, y.out)
}

// C11_Relocate: the same statements at top level, inside a function body,
// inside a module function, with one sub-expression wrapped in an
// immediately-invoked function literal, and with all variables renamed.
func C11_Relocate() {
	p := scopeProgs[vf.Choice("prog", len(scopeProgs))]
	a, b := vf.Int64("a"), vf.Int64("b")
	c := vf.Bool("c")
	if p.Small {
		vf.Assume(a >= -1)
		vf.Assume(a <= 3)
		vf.Assume(b >= -1)
		vf.Assume(b <= 3)
	}
	body := stripMarks(p.Body, false, -1)
	res := stripMarks(p.Results, false, -1)
	base := runVariant(body+"; out := ["+res+"]", nil, a, b, c)
	nw := countWraps(p.Body)
	v := vf.Choice("variant", 3+nw)
	var other outcome
	what := ""
	switch {
	case v == 0:
		what = "inside a function body"
		other = runVariant("fn := func() { "+body+"; return ["+res+"] }; out := fn()", nil, a, b, c)
	case v == 1:
		what = "inside a module"
		mods := tengo.NewModuleMap()
		mods.AddSourceModule("m", []byte("export func(a, b, c) { "+body+"; return ["+res+"] }"))
		other = runVariant(`out := import("m")(a, b, c)`, mods, a, b, c)
	case v == 2:
		what = "with renamed variables"
		other = runVariant(stripMarks(p.Body, true, -1)+"; out := ["+stripMarks(p.Results, true, -1)+"]", nil, a, b, c)
	default:
		what = "with a sub-expression wrapped in an immediately-invoked function literal"
		other = runVariant(stripMarks(p.Body, false, v-3)+"; out := ["+res+"]", nil, a, b, c)
	}
	vf.Assert(sameOutcome(base, other), p.Name+" computes the same "+what)
	vf.Reach("relocate")
}

// C11_GenRelocate: every relocatable body of the generated grammar family
// (gen.go) computes the same results at top level (variables are
// globals), inside a function body (parameters and locals), inside a closure
// (captured parameter and captured locals) and inside a module function.
func C11_GenRelocate() {
	bs := GenRelocatable()
	body := bs[vf.Choice("body", len(bs))]
	a, b := vf.Int64("a"), vf.Int64("b")
	c := vf.Bool("c")
	base := runVariant(genWrap(body, GTop), nil, a, b, c)
	var other outcome
	what := ""
	switch vf.Choice("variant", 3) {
	case 0:
		what = "inside a function body"
		other = runVariant(genWrap(body, GFunc), nil, a, b, c)
	case 1:
		what = "inside a closure (captured variables)"
		other = runVariant("f := func(x) { y := b; "+genPre+"g := func() { "+body+" }; g(); return "+genRes+" }; out := f(a)", nil, a, b, c)
	default:
		what = "inside a module function"
		mods := tengo.NewModuleMap()
		mods.AddSourceModule("m", []byte("export func(a, b, c) { x := a; y := b; "+genPre+body+"; return "+genRes+" }"))
		other = runVariant(`out := import("m")(a, b, c)`, mods, a, b, c)
	}
	vf.Assert(sameOutcome(base, other), "gen: "+body+" computes the same "+what)
	vf.Reach("genrelocate")
}

// C11_GenRec: the recursion family (gen2.go) with f as a global vs f as a
// local of a function body, inside a module function, and with the recursive
// call wrapped in an immediately-invoked function literal (which takes it out
// of tail position): same results, same values reported by the closures that
// escaped each activation.
func C11_GenRec() {
	pre := vf.Choice("pre", len(recPre))
	step := vf.Choice("step", len(recStep))
	a, b := vf.Int64("a"), vf.Int64("b")
	name := recPreNames[pre] + "/" + recStepNames[step]
	base := runVariant(recSrc(pre, step, 0), nil, a, b, false)
	var other outcome
	what := ""
	switch vf.Choice("variant", 3) {
	case 0:
		what = "with the function local to a function body"
		other = runVariant(recSrc(pre, step, 1), nil, a, b, false)
	case 1:
		what = "inside a module function"
		mods := tengo.NewModuleMap()
		mods.AddSourceModule("m", []byte("export func(a, b) { "+recSrc(pre, step, 0)+"; return out }"))
		other = runVariant(`out := import("m")(a, b)`, mods, a, b, false)
	default:
		what = "with the recursive call wrapped in an immediately-invoked function literal"
		other = runVariant(recSrcD(pre, step, 0, recCallWrapped, "a & 3"), nil, a, b, false)
	}
	vf.Assert(sameOutcome(base, other), "genrec "+name+" computes the same "+what)
	vf.Reach("genrec")
}
