package h

// C02 — emitted bytecode is structurally sound and stack-balanced.

import (
	"strconv"

	"github.com/d5/tengo/v2"
	"github.com/d5/tengo/v2/parser"
	"verif/h/vf"
)

// C02_Encoding: for every opcode and all operand values within the operand
// widths, ReadOperands(MakeInstruction(op, operands)) gives the operands back
// and the instruction length is 1 + sum of widths.
func C02_Encoding() {
	op := vf.Choice("op", len(parser.OpcodeOperands))
	widths := parser.OpcodeOperands[op]
	var ops []int
	total := 1
	for k, w := range widths {
		o := vf.Int("o" + strconv.Itoa(k))
		vf.Assume(o >= 0)
		switch w {
		case 1:
			vf.Assume(o < 1<<8)
		case 2:
			vf.Assume(o < 1<<16)
		case 4:
			vf.Assume(o < 1<<32)
		}
		ops = append(ops, o)
		total += w
	}
	ins := tengo.MakeInstruction(byte(op), ops...)
	vf.Assert(len(ins) == total, "instruction length is 1 + operand widths")
	vf.Assert(ins[0] == byte(op), "first byte is the opcode")
	got, read := parser.ReadOperands(widths, ins[1:])
	vf.Assert(read == total-1, "ReadOperands consumes all operand bytes")
	vf.Assert(len(got) == len(ops), "ReadOperands yields one value per operand")
	for k := range ops {
		vf.Assert(got[k] == ops[k], "operand round-trips through MakeInstruction/ReadOperands")
	}
	vf.Reach("enc")
}

func mkVM(insts []byte, consts []tengo.Object) *tengo.VM {
	bc := &tengo.Bytecode{
		FileSet:      parser.NewFileSet(),
		MainFunction: &tengo.CompiledFunction{Instructions: insts},
		Constants:    consts,
	}
	return tengo.NewVM(bc, nil, -1)
}

// C02_DecodeJump: the VM's inline operand decoders of the four jump opcodes
// agree with MakeInstruction for every 32-bit target: after executing the
// jump the instruction pointer is the encoded target (observed when the next
// fetch happens, in range or not).
func C02_DecodeJump() {
	ops := []byte{parser.OpJump, parser.OpJumpFalsy, parser.OpAndJump, parser.OpOrJump}
	op := ops[vf.Choice("op", len(ops))]
	taken := vf.Choice("taken", 2) == 1
	t := vf.Int("t")
	vf.Assume(t >= 0)
	vf.Assume(t < 1<<32)
	var insts []byte
	// push the condition value first (JMP ignores it)
	truthy := true
	switch op {
	case parser.OpJumpFalsy, parser.OpAndJump:
		truthy = !taken
	case parser.OpOrJump:
		truthy = taken
	}
	if truthy {
		insts = append(insts, tengo.MakeInstruction(parser.OpTrue)...)
	} else {
		insts = append(insts, tengo.MakeInstruction(parser.OpFalse)...)
	}
	jmpAt := len(insts)
	insts = append(insts, tengo.MakeInstruction(op, t)...)
	for k := 0; k < 4; k++ {
		insts = append(insts, tengo.MakeInstruction(parser.OpSuspend)...)
	}
	// targets inside the prefix would re-execute it; every other 32-bit target
	// is covered (in the OpSuspend tail or beyond the stream)
	vf.Assume(t >= jmpAt+5)
	vm := mkVM(insts, nil)
	tengo.VerifSetState(vm, 0, -1, 1)
	res := vf.Guard(func() { tengo.VerifRunRaw(vm) }, 100000)
	vf.Assert(res == 0 || res == 1, "single VM step ends by returning or by a recoverable index panic")
	st := tengo.VerifState(vm)
	if op == parser.OpJump || taken {
		vf.Assert(st.IP == t, "jump lands on the encoded target")
	} else {
		vf.Assert(st.IP == jmpAt+5, "untaken conditional jump falls through to the next instruction")
	}
	vf.Reach("decjump")
}

// C02_DecodeIndex: the inline decoders of the slot-indexed opcodes agree with
// MakeInstruction: the slot the VM touches is the encoded one.
func C02_DecodeIndex() {
	which := vf.Choice("which", 4)
	idx := vf.Int("idx")
	vf.Assume(idx >= 0)
	marks := []tengo.Object{&tengo.Int{Value: 100}, &tengo.Int{Value: 101}, &tengo.Int{Value: 102}, &tengo.Int{Value: 103}, &tengo.Int{Value: 104}}
	switch which {
	case 0: // OpConstant (2 bytes)
		vf.Assume(idx < 1<<16)
		insts := append(tengo.MakeInstruction(parser.OpConstant, idx), tengo.MakeInstruction(parser.OpSuspend)...)
		vm := mkVM(insts, marks)
		tengo.VerifSetState(vm, 0, -1, 1)
		res := vf.Guard(func() { tengo.VerifRunRaw(vm) }, 100000)
		if idx < len(marks) {
			vf.Assert(res == 0, "in-range constant load returns")
			vf.Assert(tengo.VerifStackAt(vm, 0) == marks[idx], "OpConstant pushes the encoded constant")
		} else {
			vf.Assert(res == 1, "out-of-range constant index is a recoverable panic, not a wrong slot")
		}
	case 1: // OpGetGlobal (2 bytes)
		vf.Assume(idx < 1<<16)
		insts := append(tengo.MakeInstruction(parser.OpGetGlobal, idx), tengo.MakeInstruction(parser.OpSuspend)...)
		vm := mkVM(insts, nil)
		g := tengo.VerifGlobals(vm)
		for k := range marks {
			g[k*200+3] = marks[k]
		}
		tengo.VerifSetState(vm, 0, -1, 1)
		res := vf.Guard(func() { tengo.VerifRunRaw(vm) }, 100000)
		if idx < tengo.GlobalsSize {
			vf.Assert(res == 0, "in-range global load returns")
			got := tengo.VerifStackAt(vm, 0)
			for k := range marks {
				if idx == k*200+3 {
					vf.Assert(got == marks[k], "OpGetGlobal reads the encoded slot")
				}
			}
			if got != nil {
				hit := false
				for k := range marks {
					if got == marks[k] {
						hit = vf.Or(hit, idx == k*200+3)
					}
				}
				vf.Assert(hit, "OpGetGlobal reads no other slot")
			}
		} else {
			vf.Assert(res == 1, "out-of-range global index is a recoverable panic")
		}
	case 2: // OpSetGlobal (2 bytes)
		vf.Assume(idx < tengo.GlobalsSize)
		insts := append(tengo.MakeInstruction(parser.OpTrue), tengo.MakeInstruction(parser.OpSetGlobal, idx)...)
		insts = append(insts, tengo.MakeInstruction(parser.OpSuspend)...)
		vm := mkVM(insts, nil)
		tengo.VerifSetState(vm, 0, -1, 1)
		res := vf.Guard(func() { tengo.VerifRunRaw(vm) }, 100000)
		vf.Assert(res == 0, "global store returns")
		g := tengo.VerifGlobals(vm)
		n := 0
		for k := range g {
			if g[k] != nil {
				n++
				vf.Assert(k == idx, "OpSetGlobal writes the encoded slot only")
			}
		}
		vf.Assert(n == 1, "OpSetGlobal writes exactly one slot")
	case 3: // OpGetLocal / OpDefineLocal (1 byte) in frame 0 (basePointer 0)
		vf.Assume(idx < 1<<8)
		insts := append(tengo.MakeInstruction(parser.OpGetLocal, idx), tengo.MakeInstruction(parser.OpSuspend)...)
		vm := mkVM(insts, nil)
		for k := 0; k < 256; k++ {
			tengo.VerifSetStack(vm, k, tengo.UndefinedValue)
		}
		for k := range marks {
			tengo.VerifSetStack(vm, k*60+1, marks[k])
		}
		tengo.VerifSetState(vm, 300, -1, 1)
		res := vf.Guard(func() { tengo.VerifRunRaw(vm) }, 100000)
		vf.Assert(res == 0, "local load returns")
		got := tengo.VerifStackAt(vm, 300)
		for k := range marks {
			vf.Assert(vf.Iff(idx == k*60+1, got == marks[k]), "OpGetLocal reads the encoded slot")
		}
	}
	vf.Reach("decidx")
}

// ---- static structure verifier for one compiled function

func stackDelta(op byte, operands []int) (delta int, terminal bool) {
	switch op {
	case parser.OpConstant, parser.OpNull, parser.OpTrue, parser.OpFalse, parser.OpGetGlobal, parser.OpGetLocal,
		parser.OpGetBuiltin, parser.OpGetFree, parser.OpGetFreePtr, parser.OpGetLocalPtr:
		return 1, false
	case parser.OpPop, parser.OpBinaryOp, parser.OpEqual, parser.OpNotEqual, parser.OpSetGlobal, parser.OpSetLocal,
		parser.OpDefineLocal, parser.OpSetFree, parser.OpIndex, parser.OpJumpFalsy:
		return -1, false
	case parser.OpBComplement, parser.OpMinus, parser.OpLNot, parser.OpError, parser.OpImmutable, parser.OpJump,
		parser.OpIteratorInit, parser.OpIteratorNext, parser.OpIteratorKey, parser.OpIteratorValue:
		return 0, false
	case parser.OpSliceIndex:
		return -2, false
	case parser.OpArray, parser.OpMap:
		return 1 - operands[0], false
	case parser.OpSetSelGlobal, parser.OpSetSelLocal, parser.OpSetSelFree:
		return -(operands[1] + 1), false
	case parser.OpCall:
		return -operands[0], false
	case parser.OpClosure:
		return 1 - operands[1], false
	case parser.OpReturn, parser.OpSuspend:
		return 0, true
	}
	return 0, false
}

// verifyFunc returns "" when fn is well-formed, else a description.
func verifyFunc(fn *tengo.CompiledFunction, consts []tengo.Object, nBuiltins int, isMain bool) string {
	ins := fn.Instructions
	n := len(ins)
	boundary := make([]bool, n+1)
	type instr struct {
		op       byte
		operands []int
		next     int
	}
	at := map[int]instr{}
	for i := 0; i < n; {
		op := ins[i]
		if int(op) >= len(parser.OpcodeOperands) || (op != parser.OpConstant && parser.OpcodeNames[op] == "") {
			return "unknown opcode at " + strconv.Itoa(i)
		}
		widths := parser.OpcodeOperands[op]
		need := 0
		for _, w := range widths {
			need += w
		}
		if i+1+need > n {
			return "instruction at " + strconv.Itoa(i) + " reads outside the instruction stream"
		}
		operands, read := parser.ReadOperands(widths, ins[i+1:])
		boundary[i] = true
		at[i] = instr{op, operands, i + 1 + read}
		i += 1 + read
	}
	height := map[int]int{}
	work := []int{0}
	height[0] = 0
	if n == 0 {
		return "empty function"
	}
	for len(work) > 0 {
		pos := work[len(work)-1]
		work = work[:len(work)-1]
		h := height[pos]
		if pos >= n {
			return "control falls off the end of the function (no return)"
		}
		if !boundary[pos] {
			return "control reaches a non-boundary offset " + strconv.Itoa(pos)
		}
		in := at[pos]
		// operand checks
		switch in.op {
		case parser.OpConstant:
			if in.operands[0] >= len(consts) {
				return "constant index out of range at " + strconv.Itoa(pos)
			}
		case parser.OpClosure:
			if in.operands[0] >= len(consts) {
				return "closure constant index out of range at " + strconv.Itoa(pos)
			}
			if _, ok := consts[in.operands[0]].(*tengo.CompiledFunction); !ok {
				return "closure constant is not a function at " + strconv.Itoa(pos)
			}
		case parser.OpGetGlobal, parser.OpSetGlobal, parser.OpSetSelGlobal:
			if in.operands[0] >= tengo.GlobalsSize {
				return "global index out of range at " + strconv.Itoa(pos)
			}
		case parser.OpGetLocal, parser.OpSetLocal, parser.OpDefineLocal, parser.OpSetSelLocal, parser.OpGetLocalPtr:
			if isMain || in.operands[0] >= fn.NumLocals {
				return "local index out of range at " + strconv.Itoa(pos)
			}
		case parser.OpGetBuiltin:
			if in.operands[0] >= nBuiltins {
				return "builtin index out of range at " + strconv.Itoa(pos)
			}
		case parser.OpJump, parser.OpJumpFalsy, parser.OpAndJump, parser.OpOrJump:
			t := in.operands[0]
			if t < 0 || t >= n || !boundary[t] {
				return "jump at " + strconv.Itoa(pos) + " does not land on an instruction boundary of the function"
			}
		}
		d, term := stackDelta(in.op, in.operands)
		if in.op == parser.OpReturn && in.operands[0] == 1 && h < 1 {
			return "return of a value with empty operand stack at " + strconv.Itoa(pos)
		}
		if term {
			continue
		}
		// minimum stack needed
		needs := 0
		if d < 0 {
			needs = -d
		}
		switch in.op {
		case parser.OpBinaryOp, parser.OpEqual, parser.OpNotEqual, parser.OpIndex:
			needs = 2
		case parser.OpSliceIndex:
			needs = 3
		case parser.OpBComplement, parser.OpMinus, parser.OpLNot, parser.OpError, parser.OpImmutable, parser.OpAndJump, parser.OpOrJump,
			parser.OpIteratorInit, parser.OpIteratorNext, parser.OpIteratorKey, parser.OpIteratorValue:
			needs = 1
		case parser.OpCall:
			needs = in.operands[0] + 1
		case parser.OpArray, parser.OpMap:
			needs = in.operands[0]
		case parser.OpClosure:
			needs = in.operands[1]
		}
		if h < needs {
			return "operand stack underflow at " + strconv.Itoa(pos)
		}
		var succ [][2]int
		switch in.op {
		case parser.OpJump:
			succ = append(succ, [2]int{in.operands[0], h})
		case parser.OpJumpFalsy:
			succ = append(succ, [2]int{in.operands[0], h - 1}, [2]int{in.next, h - 1})
		case parser.OpAndJump, parser.OpOrJump:
			succ = append(succ, [2]int{in.operands[0], h}, [2]int{in.next, h - 1})
		default:
			succ = append(succ, [2]int{in.next, h + d})
		}
		for _, s := range succ {
			if old, ok := height[s[0]]; ok {
				if old != s[1] {
					return "operand-stack height differs between paths at " + strconv.Itoa(s[0])
				}
				continue
			}
			height[s[0]] = s[1]
			work = append(work, s[0])
		}
	}
	return ""
}

// verifyBytecode checks every function reachable from the constant pool.
func verifyBytecode(bc *tengo.Bytecode) string {
	nb := tengo.VerifNumBuiltins()
	if msg := verifyFunc(bc.MainFunction, bc.Constants, nb, true); msg != "" {
		return "main: " + msg
	}
	var walk func(o tengo.Object, depth int) string
	walk = func(o tengo.Object, depth int) string {
		switch c := o.(type) {
		case *tengo.CompiledFunction:
			if msg := verifyFunc(c, bc.Constants, nb, false); msg != "" {
				return "function constant: " + msg
			}
		case *tengo.Array:
			for _, e := range c.Value {
				if m := walk(e, depth+1); m != "" {
					return m
				}
			}
		case *tengo.ImmutableMap:
			for _, e := range c.Value {
				if m := walk(e, depth+1); m != "" {
					return m
				}
			}
		}
		return ""
	}
	for _, c := range bc.Constants {
		if m := walk(c, 0); m != "" {
			return m
		}
	}
	return ""
}

// ---- dynamic monitor

type c02Mon struct {
	vm      *tengo.VM
	bounds  map[*byte][]bool
	heights map[*byte]map[int]int
	bad     string
	polls   int
}

func (m *c02Mon) poll() {
	if m.bad != "" {
		return
	}
	m.polls++
	st := tengo.VerifState(m.vm)
	ins := st.Insts
	if len(ins) == 0 {
		m.bad = "empty instruction stream"
		return
	}
	key := &ins[0]
	b, ok := m.bounds[key]
	if !ok {
		b = make([]bool, len(ins)+1)
		for i := 0; i < len(ins); {
			b[i] = true
			w := 0
			if int(ins[i]) < len(parser.OpcodeOperands) {
				for _, x := range parser.OpcodeOperands[ins[i]] {
					w += x
				}
			}
			i += 1 + w
		}
		m.bounds[key] = b
		m.heights[key] = map[int]int{}
	}
	next := st.IP + 1
	if next < 0 || next >= len(ins) || !b[next] {
		m.bad = "instruction pointer is not on an instruction boundary of the current function"
		return
	}
	if st.SP < 0 || st.SP > tengo.StackSize {
		m.bad = "operand stack pointer out of range"
		return
	}
	floor := st.BasePointer
	if st.FramesIndex > 1 {
		floor += st.NumLocals
	}
	if st.SP < floor {
		m.bad = "operand stack below the frame's locals"
		return
	}
	h := st.SP - floor
	if old, ok := m.heights[key][next]; ok {
		if old != h {
			m.bad = "operand-stack height at an instruction differs between visits"
			return
		}
	} else {
		m.heights[key][next] = h
	}
}

// C02_Monitor: every function of every catalog program is statically
// well-formed, and for all inputs the running VM keeps the structural
// invariants at every instruction; a run that ends without error leaves the
// operand stack empty and no run ends in an internal fault.
func C02_Monitor() {
	k := vf.Choice("prog", len(Catalog)+len(deadCodeProgs))
	var p Prog
	if k < len(Catalog) {
		p = Catalog[k]
	} else {
		p = deadCodeProgs[k-len(Catalog)]
	}
	c02Monitor(p, false)
	vf.Reach("monitor")
}

// C02_GenMonitor: the same for every program of the generated grammar family
// (gen.go); programs the compiler rejects are skipped (their rejection is
// compared with the reference semantics by C01).
func C02_GenMonitor() {
	ps := GenPrograms()
	p := ps[vf.Choice("prog", len(ps))]
	c02Monitor(p.Prog, true)
	vf.Reach("genmonitor")
}

func c02Monitor(p Prog, mayReject bool) { c02MonitorB(p, mayReject, 4000000) }

func c02MonitorB(p Prog, mayReject bool, runBudget int64) {
	s := tengo.NewScript([]byte(p.Src))
	progInputs(s, p)
	c, err := s.Compile()
	if err != nil && mayReject {
		vf.Stop()
	}
	vf.Assert(err == nil, "catalog program compiles: "+p.Name)
	bc := tengo.VerifBytecode(c)
	msg := verifyBytecode(bc)
	vf.Assert(msg == "", "bytecode well-formed: "+p.Name+": "+msg)
	vm := tengo.NewVM(bc, tengo.VerifCompiledGlobals(c), -1)
	m := &c02Mon{vm: vm, bounds: map[*byte][]bool{}, heights: map[*byte]map[int]int{}}
	vf.SetHook("poll", m.poll)
	var rerr error
	res := vf.Guard(func() { rerr = vm.Run() }, runBudget)
	vf.SetHook("poll", nil)
	// a script-level division by zero surfaces as Go's (recoverable) run-time
	// panic; it is an error of the script, not an internal fault of the code
	divZero := res == 1 && contains(vf.LastGuard(), "integer divide by zero")
	vf.Assert(res == 0 || divZero, "run of compiled code returns (no Go panic, no hang): "+p.Name+" "+vf.LastGuard())
	vf.Assert(m.bad == "", "VM structural invariant: "+p.Name+": "+m.bad)
	if divZero {
		return
	}
	if rerr == nil {
		vf.Assert(vm.IsStackEmpty(), "operand stack empty after a run without error: "+p.Name)
	} else {
		es := rerr.Error()
		vf.Assert(!contains(es, "unknown opcode") && !contains(es, "not function"), "no internal fault: "+p.Name)
	}
}

func contains(s, sub string) bool {
	for i := 0; i+len(sub) <= len(s); i++ {
		if s[i:i+len(sub)] == sub {
			return true
		}
	}
	return false
}

// C02_LargeFunction: function bodies whose instruction stream crosses the
// 16-bit offset boundary (jump operands above 65535, source-map keys above
// 65535): n repetitions of a four-instruction statement (9 bytes), n chosen
// around 65536/9, followed by one of four endings that jump to or over the
// end of the body. The static verifier decides well-formedness for both
// directions of the final branch; the run (input c symbolic) exercises it.
func C02_LargeFunction() {
	n := 7281 + vf.Choice("n", 2) // 7281..7282 statements: 65529..65538 bytes before the ending
	endings := []string{"if c { return r }", "if c { return r } else { r += 2 }", "return c ? r : 0"}
	ending := endings[vf.Choice("ending", len(endings))]
	body := ""
	for k := 0; k < n; k++ {
		body += "r += 1\n"
	}
	src := "f := func(c) {\nr := 0\n" + body + ending + "\n}\nout := f(c)"
	p := Prog{Name: "large-function n=" + strconv.Itoa(n) + " ending `" + ending + "`", Src: src}
	c02MonitorB(p, false, 100000000)
	vf.Reach("large")
}
