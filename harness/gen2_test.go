package h

import (
	"fmt"
	"testing"

	"github.com/d5/tengo/v2"
	"verif/h/refsem"
)

// Native differential run of the call/recursion families against refsem on a
// few concrete inputs (developer aid; the check itself runs them symbolically).
func TestGen2Native(t *testing.T) {
	ps := genCallAndRec()
	fmt.Println("gen2 programs", len(ps))
	bad := 0
	for _, p := range ps {
		for _, in := range [][2]int64{{0, 5}, {1, 7}, {2, -1}, {3, 100}} {
			inputs := map[string]tengo.Object{"a": &tengo.Int{Value: in[0]}, "b": &tengo.Int{Value: in[1]}, "c": tengo.TrueValue}
			rin := map[string]refsem.Value{}
			for k, v := range inputs {
				rin[k] = toRef(v)
			}
			ref := refsem.Run(p.Src, rin, 200000)
			kind, c, text := realOutcome(p.Src, inputs)
			ok := kind == ref.Kind
			if ok && c != nil {
				for name, w := range ref.Globals {
					if !sameRef(w, c.Get(name).Object()) {
						ok = false
						text += " global " + name + " differs: real " + c.Get(name).Object().String()
					}
				}
			}
			if !ok {
				bad++
				if bad < 12 {
					t.Errorf("%s\n  %s\n  inputs %v ref=%s %s real=%s %s", p.Name, p.Src, in, ref.Kind, ref.Msg, kind, text)
				}
			}
		}
	}
	fmt.Println("disagreements", bad)
}
