package refsem_test

// Systematic matrices: every operator / indexer / builtin applied to every
// combination of sample values of every type. Complements the hand-written
// corpus; the same differential comparison is used.

import (
	"strings"
	"testing"

	"verif/h/refsem"
)

type atom struct {
	src string
	typ string
}

var atoms = []atom{
	{`0`, "int"}, {`1`, "int"}, {`-1`, "int"}, {`2`, "int"}, {`63`, "int"}, {`64`, "int"}, {`97`, "int"},
	{`9223372036854775807`, "int"}, {`(-9223372036854775807 - 1)`, "int"},
	{`0.0`, "float"}, {`1.5`, "float"}, {`-2.5`, "float"}, {`2.0`, "float"}, {`(0.0/0.0)`, "float"}, {`(1.0/0.0)`, "float"}, {`1e19`, "float"},
	{`true`, "bool"}, {`false`, "bool"},
	{`'a'`, "char"}, {`'\x00'`, "char"}, {`'九'`, "char"},
	{`""`, "string"}, {`"a"`, "string"}, {`"abc"`, "string"}, {`"1"`, "string"}, {`"value"`, "string"}, {`"é九"`, "string"},
	{`bytes("")`, "bytes"}, {`bytes("ab")`, "bytes"},
	{`[]`, "array"}, {`[1, 2, 3]`, "array"}, {`[1, "a", [2]]`, "array"},
	{`immutable([1, 2])`, "immutable-array"}, {`immutable([])`, "immutable-array"},
	{`{}`, "map"}, {`{a: 1}`, "map"},
	{`immutable({a: 1})`, "immutable-map"},
	{`undefined`, "undefined"},
	{`error("e")`, "error"},
	{`time(0)`, "time"}, {`time(5)`, "time"},
	{`func() {}`, "function"}, {`func(a, ...b) { return a }`, "function"},
	{`len`, "builtin"},
}

type matrixStats struct {
	compared, unsupported, exempt, mismatches int
}

func (st *matrixStats) run(t *testing.T, src string, isExempt bool) {
	inputs := withOut(nil)
	ref := refsem.Run(src, inputs, testMaxSteps)
	if ref.Kind == refsem.Unsupported {
		st.unsupported++
		return
	}
	real := runReal(src, inputs)
	d := compare(ref, real)
	if isExempt {
		st.exempt++
		return
	}
	st.compared++
	if d != "" {
		st.mismatches++
		if st.mismatches <= 40 {
			t.Errorf("MISMATCH\nprogram: %s\n%s", src, d)
		}
	}
}

func (st *matrixStats) report(t *testing.T, name string) {
	t.Logf("%s: %d compared, %d unsupported by refsem, %d exempt (listed discrepancies), %d mismatches",
		name, st.compared, st.unsupported, st.exempt, st.mismatches)
}

func TestMatrixBinary(t *testing.T) {
	if testing.Short() {
		t.Skip("short")
	}
	ops := []string{"+", "-", "*", "/", "%", "&", "|", "^", "&^", "<<", ">>",
		"==", "!=", "<", "<=", ">", ">=", "&&", "||"}
	var st matrixStats
	for _, op := range ops {
		for _, a := range atoms {
			for _, b := range atoms {
				// +0.0 times/divided by a negative number: listed divergence F13
				signedZero := a.src == "0.0" && (op == "*" || op == "/") &&
					(strings.HasPrefix(b.src, "-") || strings.HasPrefix(b.src, "(-"))
				st.run(t, "a := "+a.src+"; b := "+b.src+"; out = a "+op+" b", signedZero)
			}
		}
	}
	st.report(t, "binary operators")
}

func TestMatrixCompoundAssign(t *testing.T) {
	if testing.Short() {
		t.Skip("short")
	}
	ops := []string{"+=", "-=", "*=", "/=", "%=", "&=", "|=", "^=", "&^=", "<<=", ">>="}
	small := []atom{atoms[1], atoms[3], atoms[10], atoms[16], atoms[18], atoms[22], atoms[28], atoms[30], atoms[35], atoms[37], atoms[40]}
	var st matrixStats
	for _, op := range ops {
		for _, a := range small {
			for _, b := range small {
				st.run(t, "a := "+a.src+"; a "+op+" "+b.src+"; out = a", false)
				st.run(t, "out = func() { a := ["+a.src+"]; a[0] "+op+" "+b.src+"; return a }()", false)
			}
		}
	}
	for _, a := range atoms {
		st.run(t, "a := "+a.src+"; a++; out = a", false)
		st.run(t, "a := "+a.src+"; a--; out = a", false)
		st.run(t, "m := {k: "+a.src+"}; m.k++; out = m", false)
	}
	st.report(t, "compound assignment")
}

func TestMatrixUnaryAndTruthiness(t *testing.T) {
	if testing.Short() {
		t.Skip("short")
	}
	var st matrixStats
	for _, a := range atoms {
		numeric := a.typ == "int" || a.typ == "float"
		st.run(t, "a := "+a.src+"; out = -a", false)
		st.run(t, "a := "+a.src+"; out = ^a", false)
		st.run(t, "a := "+a.src+"; out = !a", false)
		// unary + on non-numeric operands: NOTES.md D2
		st.run(t, "a := "+a.src+"; out = +a", !numeric)
		st.run(t, "a := "+a.src+"; out = a ? 1 : 2", false)
		st.run(t, "a := "+a.src+"; if a { out = 1 } else { out = 2 }", false)
		st.run(t, "a := "+a.src+"; n := 0; for a { n++; if n == 2 { break } }; out = n", false)
		st.run(t, "a := "+a.src+"; n := 0; for k, v in a { n++ }; out = n", false)
		st.run(t, "a := "+a.src+"; r := []; for k, v in a { r = append(r, [k, v]) }; out = r", a.typ == "map" && false)
		st.run(t, "a := "+a.src+"; out = a()", false)
		st.run(t, "a := "+a.src+"; out = a(1)", false)
		st.run(t, "a := "+a.src+"; out = a(1, 2)", false)
		st.run(t, "a := "+a.src+"; f := func(...x) { return x }; out = f(a...)", false)
		st.run(t, "a := "+a.src+"; out = a.value", false)
		st.run(t, "a := "+a.src+"; out = a.a", false)
		st.run(t, "a := "+a.src+"; a.a = 1; out = a", false)
		st.run(t, "a := "+a.src+"; out = immutable(a)", false)
		st.run(t, "a := "+a.src+"; out = error(a)", false)
		st.run(t, "a := "+a.src+"; out = [a, {k: a}]", false)
	}
	st.report(t, "unary operators / truthiness / iteration / calls")
}

func indexExempt(container, index atom, assign bool) bool {
	switch container.typ {
	case "map", "immutable-map":
		if assign && container.typ == "immutable-map" {
			return false
		}
		// non-string map index: NOTES.md D4 (undefined fails in both)
		return index.typ != "string" && index.typ != "undefined"
	case "array":
		if assign {
			// convertible array index on assignment: NOTES.md D3
			switch index.typ {
			case "float", "char", "bool", "string":
				return true
			}
		}
	}
	return false
}

func TestMatrixIndex(t *testing.T) {
	if testing.Short() {
		t.Skip("short")
	}
	var st matrixStats
	for _, a := range atoms {
		for _, b := range atoms {
			st.run(t, "a := "+a.src+"; b := "+b.src+"; out = a[b]", indexExempt(a, b, false))
			st.run(t, "a := "+a.src+"; b := "+b.src+"; a[b] = 7; out = a", indexExempt(a, b, true))
		}
	}
	st.report(t, "index read / index assignment")
}

func TestMatrixSlice(t *testing.T) {
	if testing.Short() {
		t.Skip("short")
	}
	bounds := []string{"", "0", "1", "2", "-1", "5", "9223372036854775807", `"a"`, "1.5", "undefined", "true", "'a'"}
	var st matrixStats
	for _, a := range atoms {
		for _, lo := range bounds {
			for _, hi := range bounds {
				st.run(t, "a := "+a.src+"; out = a["+lo+":"+hi+"]", false)
			}
		}
	}
	st.report(t, "slices")
}

func TestMatrixBuiltins(t *testing.T) {
	if testing.Short() {
		t.Skip("short")
	}
	names := []string{"len", "copy", "append", "delete", "splice", "string", "int", "bool",
		"float", "char", "bytes", "time", "is_int", "is_float", "is_string",
		"is_bool", "is_char", "is_bytes", "is_array", "is_immutable_array",
		"is_map", "is_immutable_map", "is_iterable", "is_time", "is_error",
		"is_undefined", "is_function", "is_callable", "type_name", "range", "freeze"}
	var st matrixStats
	for _, name := range names {
		st.run(t, "out = "+name+"()", false)
		st.run(t, "out = "+name+"(1, 2, 3)", false)
		st.run(t, "out = "+name+"(1, 2, 3, 4)", false)
		for _, a := range atoms {
			// bytes(negative): listed divergence F12
			negBytes := name == "bytes" && (a.src == "-1" || strings.HasPrefix(a.src, "(-9223372036854775807"))
			// copy(builtin function) loses the name: listed divergence F14
			copyBuiltin := name == "copy" && a.typ == "builtin"
			st.run(t, "a := "+a.src+"; out = "+name+"(a)", negBytes || copyBuiltin)
			if name == "range" {
				continue
			}
			for _, b := range atoms {
				st.run(t, "a := "+a.src+"; b := "+b.src+"; out = "+name+"(a, b)", negBytes)
			}
		}
	}
	// range with small ints and every other type
	rangeArgs := []string{"0", "1", "-1", "3", "7", `"a"`, "1.5", "undefined", "true", "'a'", "[]"}
	for _, a := range rangeArgs {
		for _, b := range rangeArgs {
			st.run(t, "out = range("+a+", "+b+")", false)
			for _, c := range rangeArgs {
				st.run(t, "out = range("+a+", "+b+", "+c+")", false)
			}
		}
	}
	// splice with every index combination on a fixed array
	spliceArgs := []string{"0", "1", "2", "3", "4", "-1", `"a"`, "1.5", "undefined"}
	for _, a := range spliceArgs {
		st.run(t, "v := [1, 2, 3]; r := splice(v, "+a+"); out = [r, v]", false)
		for _, b := range spliceArgs {
			st.run(t, "v := [1, 2, 3]; r := splice(v, "+a+", "+b+"); out = [r, v]", false)
			st.run(t, "v := [1, 2, 3]; r := splice(v, "+a+", "+b+", 8, 9); out = [r, v]", false)
		}
	}
	st.report(t, "builtins")
}
