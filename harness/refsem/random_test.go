package refsem_test

// Randomly generated (fixed seed) statement-level programs: scoping,
// shadowing, closures in loops, nested functions, early returns, break and
// continue. All loops are bounded by construction and functions only call
// functions declared before them, so every program terminates.

import (
	"fmt"
	"math/rand"
	"strings"
	"testing"

	"verif/h/refsem"
)

type genVar struct {
	name  string
	arity int // -1: int variable, >= 0: function variable with that many parameters
}

type gen struct {
	r      *rand.Rand
	scopes [][]genVar // innermost last
	inFunc int
	inLoop int
	depth  int
	sb     strings.Builder
	uniq   int
}

var genNames = []string{"a", "b", "c", "d", "x", "y"}

func (g *gen) visible(fn bool) []genVar {
	var out []genVar
	seen := map[string]bool{}
	for i := len(g.scopes) - 1; i >= 0; i-- {
		for j := len(g.scopes[i]) - 1; j >= 0; j-- {
			v := g.scopes[i][j]
			if seen[v.name] {
				continue
			}
			seen[v.name] = true
			if (v.arity >= 0) == fn {
				out = append(out, v)
			}
		}
	}
	return out
}

func (g *gen) declare(v genVar) {
	top := len(g.scopes) - 1
	g.scopes[top] = append(g.scopes[top], v)
}

func (g *gen) declaredHere(name string) bool {
	for _, v := range g.scopes[len(g.scopes)-1] {
		if v.name == name {
			return true
		}
	}
	return false
}

func (g *gen) push() { g.scopes = append(g.scopes, nil) }
func (g *gen) pop()  { g.scopes = g.scopes[:len(g.scopes)-1] }

func (g *gen) intExpr(d int) string {
	vars := g.visible(false)
	switch k := g.r.Intn(10); {
	case k < 3 || d > 2:
		if len(vars) > 0 && g.r.Intn(4) > 0 {
			return vars[g.r.Intn(len(vars))].name
		}
		return fmt.Sprint(g.r.Intn(7) - 2)
	case k < 7:
		ops := []string{"+", "-", "*", "+", "-", "*", "+", "-", "+", "-", "*", "+", "-", "%", "/"}
		return "(" + g.intExpr(d+1) + " " + ops[g.r.Intn(len(ops))] + " " + g.intExpr(d+1) + ")"
	case k < 8:
		return "(" + g.cond(d+1) + " ? " + g.intExpr(d+1) + " : " + g.intExpr(d+1) + ")"
	case k < 9:
		fns := g.visible(true)
		if len(fns) > 0 {
			return g.call(fns[g.r.Intn(len(fns))], d+1)
		}
		return fmt.Sprint(g.r.Intn(5))
	}
	// rarely a name that may not exist or may be a function
	if g.r.Intn(40) == 0 {
		return genNames[g.r.Intn(len(genNames))]
	}
	return fmt.Sprint(g.r.Intn(9))
}

func (g *gen) call(f genVar, d int) string {
	var args []string
	n := f.arity
	if g.r.Intn(25) == 0 {
		n++ // wrong argument count
	}
	for i := 0; i < n; i++ {
		args = append(args, g.intExpr(d+1))
	}
	return f.name + "(" + strings.Join(args, ", ") + ")"
}

func (g *gen) cond(d int) string {
	ops := []string{"<", ">", "==", "!=", "<=", ">="}
	c := g.intExpr(d+1) + " " + ops[g.r.Intn(len(ops))] + " " + g.intExpr(d+1)
	switch g.r.Intn(6) {
	case 0:
		return "(" + c + " && " + g.intExpr(d+1) + " > 0)"
	case 1:
		return "(" + c + " || " + g.intExpr(d+1) + " < 0)"
	}
	return c
}

func (g *gen) emit(s string) {
	g.sb.WriteString(strings.Repeat("\t", g.depth))
	g.sb.WriteString(s)
	g.sb.WriteString("\n")
}

func (g *gen) block(n int) {
	g.push()
	g.depth++
	for i := 0; i < n; i++ {
		g.stmt()
	}
	g.depth--
	g.pop()
}

func (g *gen) newName() string {
	name := genNames[g.r.Intn(len(genNames))]
	if g.declaredHere(name) && g.r.Intn(20) > 0 {
		g.uniq++
		name = fmt.Sprintf("%s%d", name, g.uniq)
	}
	return name
}

func (g *gen) stmt() {
	vars := g.visible(false)
	k := g.r.Intn(100)
	if g.depth > 3 && k >= 40 {
		k = g.r.Intn(40)
	}
	switch {
	case k < 14:
		name := g.newName()
		g.emit(name + " := " + g.intExpr(0))
		g.declare(genVar{name, -1})
	case k < 26:
		if len(vars) == 0 {
			g.emit("out = " + g.intExpr(0))
			return
		}
		v := vars[g.r.Intn(len(vars))]
		ops := []string{"=", "+=", "-=", "*=", "="}
		g.emit(v.name + " " + ops[g.r.Intn(len(ops))] + " " + g.intExpr(0))
	case k < 30:
		if len(vars) > 0 {
			v := vars[g.r.Intn(len(vars))]
			g.emit(v.name + []string{"++", "--"}[g.r.Intn(2)])
		}
	case k < 40:
		// closure capture
		g.emit("fns = append(fns, func() { return " + g.intExpr(0) + " })")
	case k < 52:
		if g.r.Intn(3) == 0 {
			t := g.newName()
			g.push()
			g.emit("if " + t + " := " + g.intExpr(0) + "; " + t + " > 0 {")
			g.declare(genVar{t, -1})
		} else {
			g.push()
			g.emit("if " + g.cond(0) + " {")
		}
		g.block(1 + g.r.Intn(3))
		if g.r.Intn(2) == 0 {
			g.emit("} else {")
			g.block(1 + g.r.Intn(2))
		}
		g.emit("}")
		g.pop()
	case k < 62:
		i := g.newName()
		g.push()
		g.emit(fmt.Sprintf("for %s := 0; %s < %d; %s++ {", i, i, 1+g.r.Intn(3), i))
		g.declare(genVar{i, -1})
		g.inLoop++
		g.block(1 + g.r.Intn(3))
		g.inLoop--
		g.emit("}")
		g.pop()
	case k < 70:
		kn, vn := g.newName(), g.newName()
		if kn == vn {
			vn = vn + "v"
		}
		g.push()
		g.emit("for " + kn + ", " + vn + " in [" + g.intExpr(1) + ", " + g.intExpr(1) + ", " + g.intExpr(1) + "] {")
		g.declare(genVar{kn, -1})
		g.declare(genVar{vn, -1})
		g.inLoop++
		g.block(1 + g.r.Intn(3))
		g.inLoop--
		g.emit("}")
		g.pop()
	case k < 80:
		if g.inFunc >= 2 {
			g.emit("out = " + g.intExpr(0))
			return
		}
		name := g.newName()
		arity := g.r.Intn(3)
		params := []string{"p", "q"}[:arity]
		g.emit(name + " := func(" + strings.Join(params, ", ") + ") {")
		// the function may refer to itself only as a value, never call itself
		g.push()
		for _, p := range params {
			g.declare(genVar{p, -1})
		}
		savedLoop := g.inLoop
		g.inLoop = 0
		g.inFunc++
		g.block(1 + g.r.Intn(4))
		g.depth++
		if g.r.Intn(4) > 0 {
			g.push()
			for _, p := range params {
				g.declare(genVar{p, -1})
			}
			g.emit("return " + g.intExpr(0))
			g.pop()
		}
		g.depth--
		g.inFunc--
		g.inLoop = savedLoop
		g.pop()
		g.emit("}")
		g.declare(genVar{name, arity})
	case k < 88:
		fns := g.visible(true)
		if len(fns) > 0 {
			f := fns[g.r.Intn(len(fns))]
			if len(vars) > 0 && g.r.Intn(2) == 0 {
				g.emit(vars[g.r.Intn(len(vars))].name + " = " + g.call(f, 0))
			} else {
				g.emit(g.call(f, 0))
			}
		}
	case k < 92:
		if g.inLoop > 0 {
			g.emit("if " + g.cond(0) + " { " + []string{"break", "continue"}[g.r.Intn(2)] + " }")
		}
	case k < 96:
		if g.inFunc > 0 {
			g.emit("if " + g.cond(0) + " { return " + g.intExpr(0) + " }")
		}
	default:
		if len(vars) > 0 {
			g.emit("log = append(log, " + vars[g.r.Intn(len(vars))].name + ")")
		}
	}
}

func genProgram(seed int64) string {
	g := &gen{r: rand.New(rand.NewSource(seed))}
	g.push()
	g.emit("fns := []")
	g.emit("log := []")
	n := 5 + g.r.Intn(8)
	for i := 0; i < n; i++ {
		g.stmt()
	}
	g.emit("res := []")
	g.emit("for g in fns { res = append(res, g()) }")
	return g.sb.String()
}

func TestRandomPrograms(t *testing.T) {
	if testing.Short() {
		t.Skip("short")
	}
	const n = 6000
	kinds := map[string]int{}
	mismatches := 0
	for seed := int64(1); seed <= n; seed++ {
		src := genProgram(seed)
		inputs := withOut(nil)
		ref := refsem.Run(src, inputs, 200000)
		kinds[kindName(ref.Kind)]++
		if ref.Kind == refsem.Unsupported {
			continue
		}
		real := runReal(src, inputs)
		if ref.Kind == refsem.StackOverflow && real.kind == kindGoPanic &&
			strings.Contains(real.msg, "index out of range [204") {
			// listed divergence F11: a generated function shadows and so
			// calls itself; the real VM overruns its value stack first
			kinds["(F11 value stack)"]++
			continue
		}
		if d := compare(ref, real); d != "" {
			mismatches++
			if mismatches <= 10 {
				t.Errorf("MISMATCH (seed %d)\n%s\n%s", seed, src, d)
			}
		}
	}
	t.Logf("random programs: %d, outcome classes %v, %d mismatches", n, kinds, mismatches)
}
