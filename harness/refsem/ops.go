package refsem

import (
	"strconv"
	"time"

	"github.com/d5/tengo/v2/token"
)

// truthy implements runtime-types.md "Object.IsFalsy()" (negated). Function
// values are not listed there; they are truthy.
func truthy(v Value) bool {
	switch v := v.(type) {
	case Int:
		return v.V != 0
	case String:
		return len(v.V) != 0
	case Float:
		return v.V == v.V // falsy iff NaN
	case Bool:
		return v.V
	case Char:
		return v.V != 0
	case Bytes:
		return len(v.V) != 0
	case *Array:
		return len(v.Elems) != 0
	case *Map:
		return len(v.M) != 0
	case Time:
		return !v.V.IsZero()
	case *Error:
		return false
	case Undefined:
		return false
	}
	return true
}

func typeName(v Value) string {
	switch v := v.(type) {
	case Int:
		return "int"
	case Float:
		return "float"
	case Bool:
		return "bool"
	case Char:
		return "char"
	case String:
		return "string"
	case Bytes:
		return "bytes"
	case *Array:
		if v.Immutable {
			return "immutable-array"
		}
		return "array"
	case *Map:
		if v.Immutable {
			return "immutable-map"
		}
		return "map"
	case *Error:
		return "error"
	case Time:
		return "time"
	case Undefined:
		return "undefined"
	case *Func:
		return "compiled-function"
	case Builtin:
		return "builtin-function:" + v.Name
	}
	return "?"
}

func invalidUnary(op token.Token, v Value) *rtErr {
	return fail(InvalidOperation, "invalid operation: "+op.String()+typeName(v))
}

// unaryOp: + and - on int/float, ^ on int, ! on everything.
func unaryOp(op token.Token, v Value) (Value, *rtErr) {
	switch op {
	case token.Not:
		return Bool{V: !truthy(v)}, nil
	case token.Sub:
		switch v := v.(type) {
		case Int:
			return Int{V: -v.V}, nil
		case Float:
			return Float{V: -v.V}, nil
		}
	case token.Add:
		switch v := v.(type) {
		case Int:
			return Int{V: v.V}, nil
		case Float:
			return Float{V: v.V}, nil
		}
	case token.Xor:
		switch v := v.(type) {
		case Int:
			return Int{V: ^v.V}, nil
		}
	}
	return nil, invalidUnary(op, v)
}

func invalidBinary(op token.Token, l, r Value) *rtErr {
	return fail(InvalidOperation,
		"invalid operation: "+typeName(l)+" "+op.String()+" "+typeName(r))
}

// binaryOp implements operators.md for every operator except == != && ||.
func (e *evaluator) binaryOp(op token.Token, l, r Value) (Value, *rtErr) {
	switch a := l.(type) {
	case Int:
		switch b := r.(type) {
		case Int:
			switch op {
			case token.Add:
				return Int{V: a.V + b.V}, nil
			case token.Sub:
				return Int{V: a.V - b.V}, nil
			case token.Mul:
				return Int{V: a.V * b.V}, nil
			case token.Quo:
				if b.V == 0 {
					return nil, fail(DivisionByZero, "integer divide by zero")
				}
				return Int{V: a.V / b.V}, nil
			case token.Rem:
				if b.V == 0 {
					return nil, fail(DivisionByZero, "integer divide by zero")
				}
				return Int{V: a.V % b.V}, nil
			case token.And:
				return Int{V: a.V & b.V}, nil
			case token.Or:
				return Int{V: a.V | b.V}, nil
			case token.Xor:
				return Int{V: a.V ^ b.V}, nil
			case token.AndNot:
				return Int{V: a.V &^ b.V}, nil
			case token.Shl:
				return Int{V: a.V << uint64(b.V)}, nil
			case token.Shr:
				return Int{V: a.V >> uint64(b.V)}, nil
			case token.Less:
				return Bool{V: a.V < b.V}, nil
			case token.Greater:
				return Bool{V: a.V > b.V}, nil
			case token.LessEq:
				return Bool{V: a.V <= b.V}, nil
			case token.GreaterEq:
				return Bool{V: a.V >= b.V}, nil
			}
		case Float:
			switch op {
			case token.Add:
				return Float{V: float64(a.V) + b.V}, nil
			case token.Sub:
				return Float{V: float64(a.V) - b.V}, nil
			case token.Mul:
				return Float{V: float64(a.V) * b.V}, nil
			case token.Quo:
				return Float{V: float64(a.V) / b.V}, nil
			case token.Less:
				return Bool{V: float64(a.V) < b.V}, nil
			case token.Greater:
				return Bool{V: float64(a.V) > b.V}, nil
			case token.LessEq:
				return Bool{V: float64(a.V) <= b.V}, nil
			case token.GreaterEq:
				return Bool{V: float64(a.V) >= b.V}, nil
			}
		case Char:
			switch op {
			case token.Add:
				return Char{V: rune(a.V) + b.V}, nil
			case token.Sub:
				return Char{V: rune(a.V) - b.V}, nil
			case token.Less:
				return Bool{V: a.V < int64(b.V)}, nil
			case token.Greater:
				return Bool{V: a.V > int64(b.V)}, nil
			case token.LessEq:
				return Bool{V: a.V <= int64(b.V)}, nil
			case token.GreaterEq:
				return Bool{V: a.V >= int64(b.V)}, nil
			}
		}

	case Float:
		switch b := r.(type) {
		case Float:
			switch op {
			case token.Add:
				return Float{V: a.V + b.V}, nil
			case token.Sub:
				return Float{V: a.V - b.V}, nil
			case token.Mul:
				return Float{V: a.V * b.V}, nil
			case token.Quo:
				return Float{V: a.V / b.V}, nil
			case token.Less:
				return Bool{V: a.V < b.V}, nil
			case token.Greater:
				return Bool{V: a.V > b.V}, nil
			case token.LessEq:
				return Bool{V: a.V <= b.V}, nil
			case token.GreaterEq:
				return Bool{V: a.V >= b.V}, nil
			}
		case Int:
			// operators.md prints the result type of float-op-int as
			// "(int)"; that is taken to be a typo (NOTES.md D1)
			switch op {
			case token.Add:
				return Float{V: a.V + float64(b.V)}, nil
			case token.Sub:
				return Float{V: a.V - float64(b.V)}, nil
			case token.Mul:
				return Float{V: a.V * float64(b.V)}, nil
			case token.Quo:
				return Float{V: a.V / float64(b.V)}, nil
			case token.Less:
				return Bool{V: a.V < float64(b.V)}, nil
			case token.Greater:
				return Bool{V: a.V > float64(b.V)}, nil
			case token.LessEq:
				return Bool{V: a.V <= float64(b.V)}, nil
			case token.GreaterEq:
				return Bool{V: a.V >= float64(b.V)}, nil
			}
		}

	case Char:
		switch b := r.(type) {
		case Char:
			switch op {
			case token.Add:
				return Char{V: a.V + b.V}, nil
			case token.Sub:
				return Char{V: a.V - b.V}, nil
			case token.Less:
				return Bool{V: a.V < b.V}, nil
			case token.Greater:
				return Bool{V: a.V > b.V}, nil
			case token.LessEq:
				return Bool{V: a.V <= b.V}, nil
			case token.GreaterEq:
				return Bool{V: a.V >= b.V}, nil
			}
		case Int:
			switch op {
			case token.Add:
				return Char{V: a.V + rune(b.V)}, nil
			case token.Sub:
				return Char{V: a.V - rune(b.V)}, nil
			case token.Less:
				return Bool{V: int64(a.V) < b.V}, nil
			case token.Greater:
				return Bool{V: int64(a.V) > b.V}, nil
			case token.LessEq:
				return Bool{V: int64(a.V) <= b.V}, nil
			case token.GreaterEq:
				return Bool{V: int64(a.V) >= b.V}, nil
			}
		}

	case String:
		switch op {
		case token.Add:
			if b, ok := r.(String); ok {
				return String{V: a.V + b.V}, nil
			}
			s, err := e.display(r)
			if err != nil {
				return nil, err
			}
			return String{V: a.V + s}, nil
		case token.Less:
			if b, ok := r.(String); ok {
				return Bool{V: a.V < b.V}, nil
			}
		case token.Greater:
			if b, ok := r.(String); ok {
				return Bool{V: a.V > b.V}, nil
			}
		case token.LessEq:
			if b, ok := r.(String); ok {
				return Bool{V: a.V <= b.V}, nil
			}
		case token.GreaterEq:
			if b, ok := r.(String); ok {
				return Bool{V: a.V >= b.V}, nil
			}
		}

	case Bytes:
		// not in operators.md; the implementation concatenates (NOTES.md)
		if b, ok := r.(Bytes); ok && op == token.Add {
			out := make([]byte, 0, len(a.V)+len(b.V))
			for _, x := range a.V {
				out = append(out, x)
			}
			for _, x := range b.V {
				out = append(out, x)
			}
			return Bytes{V: out}, nil
		}

	case *Array:
		// (array) + (array): a new, concatenated array. Only operands of
		// the same mutability are accepted (follows the implementation).
		if b, ok := r.(*Array); ok && op == token.Add && a.Immutable == b.Immutable {
			out := make([]Value, 0, len(a.Elems)+len(b.Elems))
			for _, x := range a.Elems {
				out = append(out, x)
			}
			for _, x := range b.Elems {
				out = append(out, x)
			}
			return &Array{Elems: out}, nil
		}

	case Time:
		switch b := r.(type) {
		case Int:
			switch op {
			case token.Add:
				return Time{V: a.V.Add(time.Duration(b.V))}, nil
			case token.Sub:
				return Time{V: a.V.Add(time.Duration(-b.V))}, nil
			}
		case Time:
			switch op {
			case token.Sub:
				return Int{V: int64(a.V.Sub(b.V))}, nil
			case token.Less:
				return Bool{V: a.V.Before(b.V)}, nil
			case token.Greater:
				return Bool{V: a.V.After(b.V)}, nil
			case token.LessEq:
				return Bool{V: a.V.Equal(b.V) || a.V.Before(b.V)}, nil
			case token.GreaterEq:
				return Bool{V: a.V.Equal(b.V) || a.V.After(b.V)}, nil
			}
		}
	}
	return nil, invalidBinary(op, l, r)
}

// equals implements ==. It never fails for acyclic values; the error result
// only reports the step limit (cyclic containers).
func (e *evaluator) equals(l, r Value) (bool, *rtErr) {
	if err := e.enter(); err != nil {
		return false, err
	}
	eq, err := e.equals1(l, r)
	e.exit()
	return eq, err
}

func (e *evaluator) equals1(l, r Value) (bool, *rtErr) {
	switch a := l.(type) {
	case Int:
		switch b := r.(type) {
		case Int:
			return a.V == b.V, nil
		case Float:
			return float64(a.V) == b.V, nil
		}
	case Float:
		switch b := r.(type) {
		case Float:
			return a.V == b.V, nil
		case Int:
			return a.V == float64(b.V), nil
		}
	case Bool:
		if b, ok := r.(Bool); ok {
			return a.V == b.V, nil
		}
	case Char:
		if b, ok := r.(Char); ok {
			return a.V == b.V, nil
		}
	case String:
		if b, ok := r.(String); ok {
			return a.V == b.V, nil
		}
	case Bytes:
		if b, ok := r.(Bytes); ok {
			if len(a.V) != len(b.V) {
				return false, nil
			}
			for i := range a.V {
				if a.V[i] != b.V[i] {
					return false, nil
				}
			}
			return true, nil
		}
	case Time:
		if b, ok := r.(Time); ok {
			return a.V.Equal(b.V), nil
		}
	case Undefined:
		_, ok := r.(Undefined)
		return ok, nil
	case *Error:
		// errors compare by identity
		b, ok := r.(*Error)
		return ok && a == b, nil
	case *Array:
		b, ok := r.(*Array)
		if !ok || len(a.Elems) != len(b.Elems) {
			return false, nil
		}
		for i := range a.Elems {
			eq, err := e.equals(a.Elems[i], b.Elems[i])
			if err != nil {
				return false, err
			}
			if !eq {
				return false, nil
			}
		}
		return true, nil
	case *Map:
		b, ok := r.(*Map)
		if !ok || len(a.M) != len(b.M) {
			return false, nil
		}
		all := true
		for k, av := range a.M {
			bv, present := b.M[k]
			if !present {
				all = false
				continue
			}
			eq, err := e.equals(av, bv)
			if err != nil {
				return false, err
			}
			if !eq {
				all = false
			}
		}
		return all, nil
	}
	// functions (and builtin functions) are never equal to anything
	return false, nil
}

// display renders a value the way it appears inside string concatenation,
// string(x) of containers and error values: strings nested in containers are
// quoted, map keys are not (and are sorted here; the implementation uses Go
// map order).
func (e *evaluator) display(v Value) (string, *rtErr) {
	if err := e.enter(); err != nil {
		return "", err
	}
	s, err := e.display1(v)
	e.exit()
	return s, err
}

func (e *evaluator) display1(v Value) (string, *rtErr) {
	switch v := v.(type) {
	case Int:
		return strconv.FormatInt(v.V, 10), nil
	case Float:
		return strconv.FormatFloat(v.V, 'f', -1, 64), nil
	case Bool:
		if v.V {
			return "true", nil
		}
		return "false", nil
	case Char:
		return string(v.V), nil
	case String:
		return strconv.Quote(v.V), nil
	case Bytes:
		return string(v.V), nil
	case *Array:
		s := "["
		for i, el := range v.Elems {
			if i > 0 {
				s += ", "
			}
			es, err := e.display(el)
			if err != nil {
				return "", err
			}
			s += es
		}
		return s + "]", nil
	case *Map:
		s := "{"
		for i, k := range sortedKeys(v.M) {
			if i > 0 {
				s += ", "
			}
			es, err := e.display(v.M[k])
			if err != nil {
				return "", err
			}
			s += k + ": " + es
		}
		return s + "}", nil
	case *Error:
		es, err := e.display(v.V)
		if err != nil {
			return "", err
		}
		return "error: " + es, nil
	case Undefined:
		return "<undefined>", nil
	case *Func:
		return "<compiled-function>", nil
	case Builtin:
		return "<builtin-function>", nil
	case Time:
		return "", fail(Unsupported, "time formatting")
	}
	return "", fail(Unsupported, "display of unknown value")
}

// deepCopy implements copy(): a deep, mutable copy.
func (e *evaluator) deepCopy(v Value) (Value, *rtErr) {
	if err := e.enter(); err != nil {
		return nil, err
	}
	c, err := e.deepCopy1(v)
	e.exit()
	return c, err
}

func (e *evaluator) deepCopy1(v Value) (Value, *rtErr) {
	switch v := v.(type) {
	case *Array:
		var out []Value
		for _, el := range v.Elems {
			c, err := e.deepCopy(el)
			if err != nil {
				return nil, err
			}
			out = append(out, c)
		}
		return &Array{Elems: out}, nil
	case *Map:
		out := make(map[string]Value, len(v.M))
		for k, el := range v.M {
			c, err := e.deepCopy(el)
			if err != nil {
				return nil, err
			}
			out[k] = c
		}
		return &Map{M: out}, nil
	case *Error:
		c, err := e.deepCopy(v.V)
		if err != nil {
			return nil, err
		}
		return &Error{V: c}, nil
	case Bytes:
		out := make([]byte, 0, len(v.V))
		for _, b := range v.V {
			out = append(out, b)
		}
		return Bytes{V: out}, nil
	}
	return v, nil
}
