package refsem

import (
	"sort"

	"github.com/d5/tengo/v2/parser"
	"github.com/d5/tengo/v2/token"
)

// cell is the storage of one variable. Closures share cells with the scope
// that created them (capture by reference).
type cell struct{ v Value }

// env is the activation of one user function call: every variable visible in
// the function (captured ones and its own), by declaration id. Top-level code
// runs with a nil env; its variables live in evaluator.static.
type env struct {
	vars map[int]*cell
	fn   *Func // the function being executed
}

// rtErr is a runtime error (or an Unsupported abort).
type rtErr struct {
	kind ErrKind
	msg  string
}

func fail(kind ErrKind, msg string) *rtErr { return &rtErr{kind: kind, msg: msg} }

type ctlKind int

const (
	ctlNone ctlKind = iota
	ctlBreak
	ctlContinue
	ctlReturn
	ctlTail // the running function calls itself in tail position
)

// completion says how a statement finished.
type completion struct {
	kind    ctlKind
	val     Value   // ctlReturn: the returned value
	args    []Value // ctlTail: arguments of the self call
	discard bool    // ctlTail: the call was an expression statement; its value is dropped
}

type evaluator struct {
	refs     map[parser.Pos]int // identifier position -> declaration id
	static   map[int]*cell      // builtins, host inputs and all variables of top-level code
	steps    int
	maxSteps int
	depth    int    // active user function calls
	nest     int    // nesting depth of the value currently being compared/rendered/copied
	internal string // set when refsem itself is inconsistent (never expected)
}

// maxValueNesting bounds the recursion over nested (possibly cyclic) values.
const maxValueNesting = 10000

// enter/exit bracket one level of recursion over a value's structure.
func (e *evaluator) enter() *rtErr {
	if err := e.step(); err != nil {
		return err
	}
	e.nest++
	if e.nest > maxValueNesting {
		return fail(Unsupported, "value nested too deeply (cyclic container?)")
	}
	return nil
}

func (e *evaluator) exit() { e.nest-- }

// idAt returns the declaration id the identifier at pos was resolved to.
func (e *evaluator) idAt(pos parser.Pos) int {
	id, ok := e.refs[pos]
	if !ok {
		e.internal = "identifier without declaration"
		return -1
	}
	return id
}

func (e *evaluator) step() *rtErr {
	e.steps++
	if e.steps > e.maxSteps {
		return fail(Unsupported, "step limit")
	}
	return nil
}

// lookup returns the cell of the variable an identifier refers to.
func (e *evaluator) lookup(pos parser.Pos, en *env) *cell {
	id := e.idAt(pos)
	if en != nil {
		if c := en.vars[id]; c != nil {
			return c
		}
	}
	c := e.static[id]
	if c == nil {
		c = &cell{v: Undefined{}}
		e.static[id] = c
	}
	return c
}

// declare creates the variable of a ':=' (or for-in variable, or parameter).
// Inside a function every execution of a declaration makes a fresh variable;
// in top-level code a declaration owns one variable for the whole run (see
// NOTES.md: closures created in a top-level loop share the loop body's
// variables).
func (e *evaluator) declare(id int, en *env) *cell {
	if en == nil {
		c := e.static[id]
		if c == nil {
			c = &cell{v: Undefined{}}
			e.static[id] = c
		}
		return c
	}
	c := &cell{v: Undefined{}}
	en.vars[id] = c
	return c
}

// ---------------------------------------------------------------------------
// statements

// endsFunction reports whether nothing but a value-less return can run after
// stmts[i] in the list.
func endsFunction(stmts []parser.Stmt, i int) bool {
	j := i + 1
	for j < len(stmts) {
		if _, empty := stmts[j].(*parser.EmptyStmt); !empty {
			break
		}
		j++
	}
	if j >= len(stmts) {
		return true
	}
	if ret, ok := stmts[j].(*parser.ReturnStmt); ok && ret.Result == nil {
		return true
	}
	return false
}

// execStmts runs a statement list. tail is true when falling off the end of
// the list ends the enclosing function (used only to recognise self calls
// that need no new call frame).
func (e *evaluator) execStmts(stmts []parser.Stmt, en *env, tail bool) (completion, *rtErr) {
	for i, s := range stmts {
		c, err := e.execStmt(s, en, tail && endsFunction(stmts, i))
		if err != nil {
			return completion{}, err
		}
		if c.kind != ctlNone {
			return c, nil
		}
	}
	return completion{}, nil
}

func stripParens(x parser.Expr) parser.Expr {
	for {
		p, ok := x.(*parser.ParenExpr)
		if !ok {
			return x
		}
		x = p.Expr
	}
}

func (e *evaluator) execStmt(s parser.Stmt, en *env, tail bool) (completion, *rtErr) {
	if err := e.step(); err != nil {
		return completion{}, err
	}
	switch s := s.(type) {
	case *parser.ExprStmt:
		if tail && en != nil {
			if call, ok := stripParens(s.Expr).(*parser.CallExpr); ok {
				callee, args, err := e.evalCallParts(call, en)
				if err != nil {
					return completion{}, err
				}
				if fn, isFn := callee.(*Func); isFn && fn == en.fn {
					return completion{kind: ctlTail, args: args, discard: true}, nil
				}
				_, err = e.apply(callee, args)
				return completion{}, err
			}
		}
		_, err := e.evalExpr(s.Expr, en)
		return completion{}, err

	case *parser.IncDecStmt:
		op := token.Add
		if s.Token == token.Dec {
			op = token.Sub
		}
		return completion{}, e.execAssign(s.Expr, nil, op, false, en)

	case *parser.AssignStmt:
		if len(s.LHS) != 1 || len(s.RHS) != 1 {
			return completion{}, fail(OtherRuntimeError, "tuple assignment")
		}
		switch s.Token {
		case token.Define:
			return completion{}, e.execAssign(s.LHS[0], s.RHS[0], token.Assign, true, en)
		case token.Assign:
			return completion{}, e.execAssign(s.LHS[0], s.RHS[0], token.Assign, false, en)
		case token.AddAssign:
			return completion{}, e.execAssign(s.LHS[0], s.RHS[0], token.Add, false, en)
		case token.SubAssign:
			return completion{}, e.execAssign(s.LHS[0], s.RHS[0], token.Sub, false, en)
		case token.MulAssign:
			return completion{}, e.execAssign(s.LHS[0], s.RHS[0], token.Mul, false, en)
		case token.QuoAssign:
			return completion{}, e.execAssign(s.LHS[0], s.RHS[0], token.Quo, false, en)
		case token.RemAssign:
			return completion{}, e.execAssign(s.LHS[0], s.RHS[0], token.Rem, false, en)
		case token.AndAssign:
			return completion{}, e.execAssign(s.LHS[0], s.RHS[0], token.And, false, en)
		case token.OrAssign:
			return completion{}, e.execAssign(s.LHS[0], s.RHS[0], token.Or, false, en)
		case token.XorAssign:
			return completion{}, e.execAssign(s.LHS[0], s.RHS[0], token.Xor, false, en)
		case token.AndNotAssign:
			return completion{}, e.execAssign(s.LHS[0], s.RHS[0], token.AndNot, false, en)
		case token.ShlAssign:
			return completion{}, e.execAssign(s.LHS[0], s.RHS[0], token.Shl, false, en)
		case token.ShrAssign:
			return completion{}, e.execAssign(s.LHS[0], s.RHS[0], token.Shr, false, en)
		}
		return completion{}, fail(OtherRuntimeError, "unknown assignment operator")

	case *parser.IfStmt:
		if s.Init != nil {
			if _, err := e.execStmt(s.Init, en, false); err != nil {
				return completion{}, err
			}
		}
		cond, err := e.evalExpr(s.Cond, en)
		if err != nil {
			return completion{}, err
		}
		if truthy(cond) {
			return e.execStmts(s.Body.Stmts, en, tail && s.Else == nil)
		}
		if s.Else != nil {
			return e.execStmt(s.Else, en, tail)
		}
		return completion{}, nil

	case *parser.BlockStmt:
		return e.execStmts(s.Stmts, en, tail)

	case *parser.ForStmt:
		if s.Init != nil {
			if _, err := e.execStmt(s.Init, en, false); err != nil {
				return completion{}, err
			}
		}
		for {
			if s.Cond != nil {
				cond, err := e.evalExpr(s.Cond, en)
				if err != nil {
					return completion{}, err
				}
				if !truthy(cond) {
					break
				}
			} else if err := e.step(); err != nil {
				return completion{}, err
			}
			c, err := e.execStmts(s.Body.Stmts, en, false)
			if err != nil {
				return completion{}, err
			}
			if c.kind == ctlBreak {
				break
			}
			if c.kind == ctlReturn || c.kind == ctlTail {
				return c, nil
			}
			if s.Post != nil {
				if _, err := e.execStmt(s.Post, en, false); err != nil {
					return completion{}, err
				}
			}
		}
		return completion{}, nil

	case *parser.ForInStmt:
		return e.execForIn(s, en)

	case *parser.BranchStmt:
		if s.Token == token.Break {
			return completion{kind: ctlBreak}, nil
		}
		return completion{kind: ctlContinue}, nil

	case *parser.ReturnStmt:
		if s.Result == nil {
			return completion{kind: ctlReturn, val: Undefined{}}, nil
		}
		return e.evalTail(s.Result, en)

	case *parser.EmptyStmt:
		return completion{}, nil
	}
	return completion{}, fail(Unsupported, "statement")
}

// evalTail evaluates the operand of a return statement. A call of the running
// function to itself that is returned directly (also as the right operand of
// && or ||) is handed back to callFunc, which re-enters the function without
// a new call frame.
func (e *evaluator) evalTail(x parser.Expr, en *env) (completion, *rtErr) {
	x = stripParens(x)
	switch x := x.(type) {
	case *parser.CallExpr:
		if err := e.step(); err != nil {
			return completion{}, err
		}
		callee, args, err := e.evalCallParts(x, en)
		if err != nil {
			return completion{}, err
		}
		if fn, isFn := callee.(*Func); isFn && en != nil && fn == en.fn {
			return completion{kind: ctlTail, args: args}, nil
		}
		v, err := e.apply(callee, args)
		if err != nil {
			return completion{}, err
		}
		return completion{kind: ctlReturn, val: v}, nil
	case *parser.BinaryExpr:
		if x.Token == token.LAnd || x.Token == token.LOr {
			if err := e.step(); err != nil {
				return completion{}, err
			}
			l, err := e.evalExpr(x.LHS, en)
			if err != nil {
				return completion{}, err
			}
			if truthy(l) == (x.Token == token.LOr) {
				return completion{kind: ctlReturn, val: l}, nil
			}
			return e.evalTail(x.RHS, en)
		}
	}
	v, err := e.evalExpr(x, en)
	if err != nil {
		return completion{}, err
	}
	return completion{kind: ctlReturn, val: v}, nil
}

// execAssign performs  lhs := rhs,  lhs = rhs  or  lhs = lhs op rhs.
// rhs == nil stands for the literal 1 (++ and --). op == token.Assign means
// plain assignment.
func (e *evaluator) execAssign(lhs, rhs parser.Expr, op token.Token, define bool, en *env) *rtErr {
	base, sels, ok := splitLHS(lhs)
	if !ok {
		return fail(OtherRuntimeError, "bad assignment target")
	}
	id := e.idAt(base.NamePos)

	if define {
		if _, isFunc := rhs.(*parser.FuncLit); isFunc {
			// the function literal may refer to its own variable
			c := e.declare(id, en)
			v, err := e.evalExpr(rhs, en)
			if err != nil {
				return err
			}
			c.v = v
			return nil
		}
		v, err := e.evalExpr(rhs, en)
		if err != nil {
			return err
		}
		e.declare(id, en).v = v
		return nil
	}

	var val Value
	if op != token.Assign {
		// (lhs) = (lhs) op (rhs): the target is read first
		l, err := e.evalExpr(lhs, en)
		if err != nil {
			return err
		}
		var r Value = Int{V: 1}
		if rhs != nil {
			r, err = e.evalExpr(rhs, en)
			if err != nil {
				return err
			}
		}
		val, err = e.binaryOp(op, l, r)
		if err != nil {
			return err
		}
	} else {
		v, err := e.evalExpr(rhs, en)
		if err != nil {
			return err
		}
		val = v
	}

	if len(sels) == 0 {
		e.lookup(base.NamePos, en).v = val
		return nil
	}

	// index expressions of the target are evaluated after the right-hand
	// side, last one first (follows the implementation; docs are silent)
	idx := make([]Value, len(sels))
	for i := len(sels) - 1; i >= 0; i-- {
		v, err := e.evalExpr(sels[i], en)
		if err != nil {
			return err
		}
		idx[i] = v
	}
	cur := e.lookup(base.NamePos, en).v
	for i := 0; i < len(sels)-1; i++ {
		next, err := e.indexGet(cur, idx[i])
		if err != nil {
			return err
		}
		cur = next
	}
	return e.indexSet(cur, idx[len(sels)-1], val)
}

// forIn holds what one for-in loop needs for each iteration.
type forIn struct {
	stmt   *parser.ForInStmt
	en     *env
	hasKey bool
	hasVal bool
	keyID  int
	valID  int
}

// forInIter runs the loop body once; stop is true when the loop must end.
func (e *evaluator) forInIter(f *forIn, k, v Value) (c completion, stop bool, err *rtErr) {
	if err = e.step(); err != nil {
		return completion{}, true, err
	}
	if f.hasKey {
		e.declare(f.keyID, f.en).v = k
	}
	if f.hasVal {
		e.declare(f.valID, f.en).v = v
	}
	c, err = e.execStmts(f.stmt.Body.Stmts, f.en, false)
	if err != nil {
		return completion{}, true, err
	}
	switch c.kind {
	case ctlBreak:
		return completion{}, true, nil
	case ctlReturn, ctlTail:
		return c, true, nil
	}
	return completion{}, false, nil
}

func (e *evaluator) execForIn(s *parser.ForInStmt, en *env) (completion, *rtErr) {
	it, err := e.evalExpr(s.Iterable, en)
	if err != nil {
		return completion{}, err
	}
	f := &forIn{stmt: s, en: en}
	f.hasKey = s.Key.Name != "_"
	f.hasVal = s.Value.Name != "_"
	if f.hasKey {
		f.keyID = e.idAt(s.Key.NamePos)
	}
	if f.hasVal {
		f.valID = e.idAt(s.Value.NamePos)
	}

	switch it := it.(type) {
	case *Array:
		elems := it.Elems // the sequence is fixed when the loop starts
		for i := 0; i < len(elems); i++ {
			c, stop, err := e.forInIter(f, Int{V: int64(i)}, elems[i])
			if stop {
				return c, err
			}
		}
	case String:
		runes := []rune(it.V)
		for i := 0; i < len(runes); i++ {
			c, stop, err := e.forInIter(f, Int{V: int64(i)}, Char{V: runes[i]})
			if stop {
				return c, err
			}
		}
	case Bytes:
		bs := it.V
		for i := 0; i < len(bs); i++ {
			c, stop, err := e.forInIter(f, Int{V: int64(i)}, Int{V: int64(bs[i])})
			if stop {
				return c, err
			}
		}
	case *Map:
		keys := sortedKeys(it.M)
		for _, k := range keys {
			v, present := it.M[k]
			if !present {
				v = Undefined{}
			}
			c, stop, err := e.forInIter(f, String{V: k}, v)
			if stop {
				return c, err
			}
		}
	case Undefined:
		// iterates zero times
	default:
		return completion{}, fail(NotIterable, "not iterable: "+typeName(it))
	}
	return completion{}, nil
}

func sortedKeys(m map[string]Value) []string {
	keys := make([]string, 0, len(m))
	for k := range m {
		keys = append(keys, k)
	}
	sort.Strings(keys)
	return keys
}

// ---------------------------------------------------------------------------
// expressions

func (e *evaluator) evalExpr(x parser.Expr, en *env) (Value, *rtErr) {
	if err := e.step(); err != nil {
		return nil, err
	}
	switch x := x.(type) {
	case *parser.Ident:
		return e.lookup(x.NamePos, en).v, nil
	case *parser.IntLit:
		return Int{V: x.Value}, nil
	case *parser.FloatLit:
		return Float{V: x.Value}, nil
	case *parser.BoolLit:
		return Bool{V: x.Value}, nil
	case *parser.CharLit:
		return Char{V: x.Value}, nil
	case *parser.StringLit:
		return String{V: x.Value}, nil
	case *parser.UndefinedLit:
		return Undefined{}, nil
	case *parser.ParenExpr:
		return e.evalExpr(x.Expr, en)

	case *parser.UnaryExpr:
		v, err := e.evalExpr(x.Expr, en)
		if err != nil {
			return nil, err
		}
		return unaryOp(x.Token, v)

	case *parser.BinaryExpr:
		l, err := e.evalExpr(x.LHS, en)
		if err != nil {
			return nil, err
		}
		switch x.Token {
		case token.LAnd:
			if !truthy(l) {
				return l, nil
			}
			return e.evalExpr(x.RHS, en)
		case token.LOr:
			if truthy(l) {
				return l, nil
			}
			return e.evalExpr(x.RHS, en)
		}
		r, err := e.evalExpr(x.RHS, en)
		if err != nil {
			return nil, err
		}
		switch x.Token {
		case token.Equal:
			eq, err := e.equals(l, r)
			if err != nil {
				return nil, err
			}
			return Bool{V: eq}, nil
		case token.NotEqual:
			eq, err := e.equals(l, r)
			if err != nil {
				return nil, err
			}
			return Bool{V: !eq}, nil
		}
		return e.binaryOp(x.Token, l, r)

	case *parser.CondExpr:
		c, err := e.evalExpr(x.Cond, en)
		if err != nil {
			return nil, err
		}
		if truthy(c) {
			return e.evalExpr(x.True, en)
		}
		return e.evalExpr(x.False, en)

	case *parser.ArrayLit:
		var elems []Value
		for _, el := range x.Elements {
			v, err := e.evalExpr(el, en)
			if err != nil {
				return nil, err
			}
			elems = append(elems, v)
		}
		return &Array{Elems: elems}, nil

	case *parser.MapLit:
		m := make(map[string]Value, len(x.Elements))
		for _, el := range x.Elements {
			v, err := e.evalExpr(el.Value, en)
			if err != nil {
				return nil, err
			}
			m[el.Key] = v
		}
		return &Map{M: m}, nil

	case *parser.SelectorExpr:
		obj, err := e.evalExpr(x.Expr, en)
		if err != nil {
			return nil, err
		}
		sel, err := e.evalExpr(x.Sel, en)
		if err != nil {
			return nil, err
		}
		return e.indexGet(obj, sel)

	case *parser.IndexExpr:
		obj, err := e.evalExpr(x.Expr, en)
		if err != nil {
			return nil, err
		}
		idx, err := e.evalExpr(x.Index, en)
		if err != nil {
			return nil, err
		}
		return e.indexGet(obj, idx)

	case *parser.SliceExpr:
		obj, err := e.evalExpr(x.Expr, en)
		if err != nil {
			return nil, err
		}
		var low, high Value = Undefined{}, Undefined{}
		if x.Low != nil {
			low, err = e.evalExpr(x.Low, en)
			if err != nil {
				return nil, err
			}
		}
		if x.High != nil {
			high, err = e.evalExpr(x.High, en)
			if err != nil {
				return nil, err
			}
		}
		return sliceOf(obj, low, high)

	case *parser.CallExpr:
		callee, args, err := e.evalCallParts(x, en)
		if err != nil {
			return nil, err
		}
		return e.apply(callee, args)

	case *parser.ErrorExpr:
		v, err := e.evalExpr(x.Expr, en)
		if err != nil {
			return nil, err
		}
		return &Error{V: v}, nil

	case *parser.ImmutableExpr:
		v, err := e.evalExpr(x.Expr, en)
		if err != nil {
			return nil, err
		}
		switch v := v.(type) {
		case *Array:
			if v.Immutable {
				return v, nil
			}
			// an immutable view of the same elements (NOTES.md)
			return &Array{Elems: v.Elems, Immutable: true}, nil
		case *Map:
			if v.Immutable {
				return v, nil
			}
			return &Map{M: v.M, Immutable: true}, nil
		}
		return v, nil

	case *parser.FuncLit:
		fn := &Func{
			Variadic: x.Type.Params.VarArgs,
			Body:     x.Body,
		}
		for _, p := range x.Type.Params.List {
			fn.Params = append(fn.Params, p.Name)
			fn.paramIDs = append(fn.paramIDs, e.idAt(p.NamePos))
		}
		if en != nil {
			// capture by reference: the closure shares the cells that are
			// visible now; later re-declarations in the enclosing function
			// create new cells the closure does not see
			fn.captured = make(map[int]*cell, len(en.vars))
			for id, c := range en.vars {
				fn.captured[id] = c
			}
		}
		return fn, nil
	}
	return nil, fail(Unsupported, "expression")
}

// evalCallParts evaluates the callee and the arguments of a call (expanding a
// trailing spread argument) and checks that the callee can be called.
func (e *evaluator) evalCallParts(x *parser.CallExpr, en *env) (Value, []Value, *rtErr) {
	callee, err := e.evalExpr(x.Func, en)
	if err != nil {
		return nil, nil, err
	}
	args := make([]Value, 0, len(x.Args))
	for _, a := range x.Args {
		v, err := e.evalExpr(a, en)
		if err != nil {
			return nil, nil, err
		}
		args = append(args, v)
	}
	switch callee.(type) {
	case *Func, Builtin:
	default:
		return nil, nil, fail(NotCallable, "not callable: "+typeName(callee))
	}
	if x.Ellipsis.IsValid() && len(args) > 0 {
		last := args[len(args)-1]
		arr, ok := last.(*Array)
		if !ok {
			return nil, nil, fail(OtherRuntimeError, "not an array: "+typeName(last))
		}
		args = args[:len(args)-1]
		for _, v := range arr.Elems {
			args = append(args, v)
		}
	}
	return callee, args, nil
}

func (e *evaluator) apply(callee Value, args []Value) (Value, *rtErr) {
	switch f := callee.(type) {
	case *Func:
		return e.callFunc(f, args)
	case Builtin:
		return e.callBuiltin(f.Name, args)
	}
	return nil, fail(NotCallable, "not callable: "+typeName(callee))
}

// callFunc calls a user function. Self calls in tail position come back as
// ctlTail completions and are executed by looping, so they do not count
// towards the call depth limit.
func (e *evaluator) callFunc(fn *Func, args []Value) (Value, *rtErr) {
	entered := false
	discard := false
	for {
		np := len(fn.paramIDs)
		if fn.Variadic {
			if len(args) < np-1 {
				return nil, e.leave(entered, fail(WrongNumArguments, "wrong number of arguments"))
			}
			rest := make([]Value, len(args)-(np-1))
			for i := range rest {
				rest[i] = args[np-1+i]
			}
			fixed := make([]Value, 0, np)
			for i := 0; i < np-1; i++ {
				fixed = append(fixed, args[i])
			}
			args = append(fixed, &Array{Elems: rest})
		} else if len(args) != np {
			return nil, e.leave(entered, fail(WrongNumArguments, "wrong number of arguments"))
		}

		if !entered {
			if e.depth >= maxCallDepth {
				return nil, fail(StackOverflow, "stack overflow")
			}
			e.depth++
			entered = true
		}

		vars := make(map[int]*cell, len(fn.captured)+np)
		for id, c := range fn.captured {
			vars[id] = c
		}
		for i, id := range fn.paramIDs {
			vars[id] = &cell{v: args[i]}
		}
		en := &env{vars: vars, fn: fn}

		c, err := e.execStmts(fn.Body.Stmts, en, true)
		if err != nil {
			return nil, e.leave(entered, err)
		}
		switch c.kind {
		case ctlTail:
			if c.discard {
				discard = true
			}
			args = c.args
			if err := e.step(); err != nil {
				return nil, e.leave(entered, err)
			}
			continue
		case ctlReturn:
			e.depth--
			if discard {
				return Undefined{}, nil
			}
			return c.val, nil
		}
		// fell off the end: a function that does not return a value
		// explicitly returns undefined
		e.depth--
		return Undefined{}, nil
	}
}

func (e *evaluator) leave(entered bool, err *rtErr) *rtErr {
	if entered {
		e.depth--
	}
	return err
}

// ---------------------------------------------------------------------------
// indexing

func (e *evaluator) indexGet(obj, idx Value) (Value, *rtErr) {
	switch o := obj.(type) {
	case *Array:
		i, ok := idx.(Int)
		if !ok {
			return nil, fail(InvalidIndexType, "invalid index type: "+typeName(idx))
		}
		if i.V < 0 || i.V >= int64(len(o.Elems)) {
			return Undefined{}, nil
		}
		return o.Elems[i.V], nil
	case String:
		i, ok := idx.(Int)
		if !ok {
			return nil, fail(InvalidIndexType, "invalid index type: "+typeName(idx))
		}
		runes := []rune(o.V)
		if i.V < 0 || i.V >= int64(len(runes)) {
			return Undefined{}, nil
		}
		return Char{V: runes[i.V]}, nil
	case Bytes:
		i, ok := idx.(Int)
		if !ok {
			return nil, fail(InvalidIndexType, "invalid index type: "+typeName(idx))
		}
		if i.V < 0 || i.V >= int64(len(o.V)) {
			return Undefined{}, nil
		}
		return Int{V: int64(o.V[i.V])}, nil
	case *Map:
		k, ok := idx.(String)
		if !ok {
			return nil, fail(InvalidIndexType, "invalid index type: "+typeName(idx))
		}
		v, present := o.M[k.V]
		if !present {
			return Undefined{}, nil
		}
		return v, nil
	case *Error:
		if k, ok := idx.(String); ok && k.V == "value" {
			return o.V, nil
		}
		return nil, fail(OtherRuntimeError, "invalid index on error")
	case Undefined:
		return Undefined{}, nil
	}
	return nil, fail(NotIndexable, "not indexable: "+typeName(obj))
}

func (e *evaluator) indexSet(obj, idx, val Value) *rtErr {
	switch o := obj.(type) {
	case *Array:
		if o.Immutable {
			return fail(NotIndexAssignable, "not index-assignable: immutable-array")
		}
		i, ok := idx.(Int)
		if !ok {
			return fail(InvalidIndexType, "invalid index type: "+typeName(idx))
		}
		if i.V < 0 || i.V >= int64(len(o.Elems)) {
			return fail(IndexOutOfBounds, "index out of bounds")
		}
		o.Elems[i.V] = val
		return nil
	case *Map:
		if o.Immutable {
			return fail(NotIndexAssignable, "not index-assignable: immutable-map")
		}
		k, ok := idx.(String)
		if !ok {
			return fail(InvalidIndexType, "invalid index type: "+typeName(idx))
		}
		o.M[k.V] = val
		return nil
	}
	return fail(NotIndexAssignable, "not index-assignable: "+typeName(obj))
}

// sliceOf evaluates obj[low:high]; an omitted bound is Undefined.
func sliceOf(obj, low, high Value) (Value, *rtErr) {
	var lo int64
	if _, omitted := low.(Undefined); !omitted {
		l, ok := low.(Int)
		if !ok {
			return nil, fail(InvalidIndexType, "invalid slice index type: "+typeName(low))
		}
		lo = l.V
	}
	var n int64
	switch o := obj.(type) {
	case *Array:
		n = int64(len(o.Elems))
	case String:
		n = int64(len(o.V))
	case Bytes:
		n = int64(len(o.V))
	default:
		return nil, fail(NotIndexable, "not indexable: "+typeName(obj))
	}
	hi := n
	if _, omitted := high.(Undefined); !omitted {
		h, ok := high.(Int)
		if !ok {
			return nil, fail(InvalidIndexType, "invalid slice index type: "+typeName(high))
		}
		hi = h.V
	}
	if lo > hi {
		return nil, fail(OtherRuntimeError, "invalid slice index: low > high")
	}
	if lo < 0 {
		lo = 0
	} else if lo > n {
		lo = n
	}
	if hi < 0 {
		hi = 0
	} else if hi > n {
		hi = n
	}
	switch o := obj.(type) {
	case *Array:
		if o.Immutable {
			// a slice of an immutable array is a new, independent array
			out := make([]Value, 0, hi-lo)
			for i := lo; i < hi; i++ {
				out = append(out, o.Elems[i])
			}
			return &Array{Elems: out}, nil
		}
		// like Go: a slice of a mutable array is a view of the same elements
		return &Array{Elems: o.Elems[lo:hi]}, nil
	case String:
		return String{V: o.V[lo:hi]}, nil
	case Bytes:
		out := make([]byte, 0, hi-lo)
		for i := lo; i < hi; i++ {
			out = append(out, o.V[i])
		}
		return Bytes{V: out}, nil
	}
	return nil, fail(NotIndexable, "not indexable: "+typeName(obj))
}
