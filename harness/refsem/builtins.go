package refsem

import (
	"math"
	"strconv"
	"time"
)

// maxBytesAlloc bounds bytes(N) so that a reference run cannot exhaust
// memory; larger requests are reported as Unsupported.
const maxBytesAlloc = 1 << 24

func wrongArgs(name string) *rtErr {
	return fail(WrongNumArguments, "wrong number of arguments in call to '"+name+"'")
}

func badArg(name, which, want string, got Value) *rtErr {
	return fail(InvalidArgumentType, "invalid type for argument '"+which+
		"' in call to '"+name+"': expected "+want+", found "+typeName(got))
}

func (e *evaluator) callBuiltin(name string, args []Value) (Value, *rtErr) {
	if err := e.step(); err != nil {
		return nil, err
	}
	switch name {
	case "len":
		if len(args) != 1 {
			return nil, wrongArgs(name)
		}
		switch a := args[0].(type) {
		case *Array:
			return Int{V: int64(len(a.Elems))}, nil
		case String:
			return Int{V: int64(len(a.V))}, nil
		case Bytes:
			return Int{V: int64(len(a.V))}, nil
		case *Map:
			return Int{V: int64(len(a.M))}, nil
		}
		return nil, badArg(name, "first", "array/string/bytes/map", args[0])

	case "copy":
		if len(args) != 1 {
			return nil, wrongArgs(name)
		}
		return e.deepCopy(args[0])

	case "append":
		if len(args) < 2 {
			return nil, wrongArgs(name)
		}
		a, ok := args[0].(*Array)
		if !ok {
			return nil, badArg(name, "first", "array", args[0])
		}
		base := a.Elems
		if a.Immutable {
			// never hand out the storage of an immutable array
			base = make([]Value, 0, len(a.Elems)+len(args)-1)
			for _, x := range a.Elems {
				base = append(base, x)
			}
		}
		// "Like Go's append builtin": for a mutable array the result may
		// share storage with the argument when it has spare capacity
		return &Array{Elems: append(base, args[1:]...)}, nil

	case "delete":
		if len(args) != 2 {
			return nil, wrongArgs(name)
		}
		m, ok := args[0].(*Map)
		if !ok || m.Immutable {
			return nil, badArg(name, "first", "map", args[0])
		}
		k, ok := args[1].(String)
		if !ok {
			return nil, badArg(name, "second", "string", args[1])
		}
		delete(m.M, k.V)
		return Undefined{}, nil

	case "splice":
		return e.builtinSplice(args)

	case "string":
		if len(args) != 1 && len(args) != 2 {
			return nil, wrongArgs(name)
		}
		switch a := args[0].(type) {
		case String:
			return a, nil
		case Undefined:
			// no conversion
		default:
			s, err := e.display(a)
			if err != nil {
				return nil, err
			}
			return String{V: s}, nil
		}
		return convDefault(args), nil

	case "int":
		if len(args) != 1 && len(args) != 2 {
			return nil, wrongArgs(name)
		}
		switch a := args[0].(type) {
		case Int:
			return a, nil
		case Float:
			return Int{V: int64(a.V)}, nil
		case Char:
			return Int{V: int64(a.V)}, nil
		case Bool:
			if a.V {
				return Int{V: 1}, nil
			}
			return Int{V: 0}, nil
		case String:
			n, perr := strconv.ParseInt(a.V, 10, 64)
			if perr == nil {
				return Int{V: n}, nil
			}
		}
		return convDefault(args), nil

	case "float":
		if len(args) != 1 && len(args) != 2 {
			return nil, wrongArgs(name)
		}
		switch a := args[0].(type) {
		case Float:
			return a, nil
		case Int:
			return Float{V: float64(a.V)}, nil
		case String:
			f, perr := strconv.ParseFloat(a.V, 64)
			if perr == nil {
				return Float{V: f}, nil
			}
		}
		return convDefault(args), nil

	case "bool":
		if len(args) != 1 {
			return nil, wrongArgs(name)
		}
		return Bool{V: truthy(args[0])}, nil

	case "char":
		if len(args) != 1 && len(args) != 2 {
			return nil, wrongArgs(name)
		}
		switch a := args[0].(type) {
		case Char:
			return a, nil
		case Int:
			return Char{V: rune(a.V)}, nil
		}
		return convDefault(args), nil

	case "bytes":
		if len(args) != 1 && len(args) != 2 {
			return nil, wrongArgs(name)
		}
		switch a := args[0].(type) {
		case Int:
			if a.V < 0 {
				return nil, fail(OtherRuntimeError, "bytes: negative size")
			}
			if a.V > maxBytesAlloc {
				return nil, fail(Unsupported, "bytes: size too large for refsem")
			}
			return Bytes{V: make([]byte, int(a.V))}, nil
		case Bytes:
			return a, nil
		case String:
			return Bytes{V: []byte(a.V)}, nil
		}
		return convDefault(args), nil

	case "time":
		if len(args) != 1 && len(args) != 2 {
			return nil, wrongArgs(name)
		}
		switch a := args[0].(type) {
		case Time:
			return a, nil
		case Int:
			return Time{V: time.Unix(a.V, 0)}, nil
		}
		return convDefault(args), nil

	case "is_int":
		if len(args) != 1 {
			return nil, wrongArgs(name)
		}
		_, ok := args[0].(Int)
		return Bool{V: ok}, nil
	case "is_float":
		if len(args) != 1 {
			return nil, wrongArgs(name)
		}
		_, ok := args[0].(Float)
		return Bool{V: ok}, nil
	case "is_string":
		if len(args) != 1 {
			return nil, wrongArgs(name)
		}
		_, ok := args[0].(String)
		return Bool{V: ok}, nil
	case "is_bool":
		if len(args) != 1 {
			return nil, wrongArgs(name)
		}
		_, ok := args[0].(Bool)
		return Bool{V: ok}, nil
	case "is_char":
		if len(args) != 1 {
			return nil, wrongArgs(name)
		}
		_, ok := args[0].(Char)
		return Bool{V: ok}, nil
	case "is_bytes":
		if len(args) != 1 {
			return nil, wrongArgs(name)
		}
		_, ok := args[0].(Bytes)
		return Bool{V: ok}, nil
	case "is_array":
		if len(args) != 1 {
			return nil, wrongArgs(name)
		}
		a, ok := args[0].(*Array)
		return Bool{V: ok && !a.Immutable}, nil
	case "is_immutable_array":
		if len(args) != 1 {
			return nil, wrongArgs(name)
		}
		a, ok := args[0].(*Array)
		return Bool{V: ok && a.Immutable}, nil
	case "is_map":
		if len(args) != 1 {
			return nil, wrongArgs(name)
		}
		m, ok := args[0].(*Map)
		return Bool{V: ok && !m.Immutable}, nil
	case "is_immutable_map":
		if len(args) != 1 {
			return nil, wrongArgs(name)
		}
		m, ok := args[0].(*Map)
		return Bool{V: ok && m.Immutable}, nil
	case "is_iterable":
		if len(args) != 1 {
			return nil, wrongArgs(name)
		}
		switch args[0].(type) {
		case *Array, *Map, String, Bytes, Undefined:
			return Bool{V: true}, nil
		}
		return Bool{V: false}, nil
	case "is_time":
		if len(args) != 1 {
			return nil, wrongArgs(name)
		}
		_, ok := args[0].(Time)
		return Bool{V: ok}, nil
	case "is_error":
		if len(args) != 1 {
			return nil, wrongArgs(name)
		}
		_, ok := args[0].(*Error)
		return Bool{V: ok}, nil
	case "is_undefined":
		if len(args) != 1 {
			return nil, wrongArgs(name)
		}
		_, ok := args[0].(Undefined)
		return Bool{V: ok}, nil
	case "is_function":
		if len(args) != 1 {
			return nil, wrongArgs(name)
		}
		_, ok := args[0].(*Func)
		return Bool{V: ok}, nil
	case "is_callable":
		if len(args) != 1 {
			return nil, wrongArgs(name)
		}
		switch args[0].(type) {
		case *Func, Builtin:
			return Bool{V: true}, nil
		}
		return Bool{V: false}, nil

	case "type_name":
		if len(args) != 1 {
			return nil, wrongArgs(name)
		}
		return String{V: typeName(args[0])}, nil

	case "range":
		return e.builtinRange(args)

	case "freeze":
		if len(args) != 1 {
			return nil, wrongArgs(name)
		}
		return e.freeze(args[0], &freezer{})

	case "format":
		return nil, fail(Unsupported, "format")
	}
	return nil, fail(Unsupported, "builtin "+name)
}

// convDefault is the result of a failed conversion: the optional second
// argument, else undefined.
func convDefault(args []Value) Value {
	if len(args) == 2 {
		return args[1]
	}
	return Undefined{}
}

// splice(array[, start[, delete_count[, item...]]])
func (e *evaluator) builtinSplice(args []Value) (Value, *rtErr) {
	const name = "splice"
	if len(args) == 0 {
		return nil, wrongArgs(name)
	}
	arr, ok := args[0].(*Array)
	if !ok || arr.Immutable {
		return nil, badArg(name, "first", "array", args[0])
	}
	n := int64(len(arr.Elems))

	var start int64
	if len(args) > 1 {
		s, ok := args[1].(Int)
		if !ok {
			return nil, badArg(name, "second", "int", args[1])
		}
		start = s.V
		if start < 0 || start > n {
			return nil, fail(IndexOutOfBounds, "index out of bounds")
		}
	}
	count := n
	if len(args) > 2 {
		c, ok := args[2].(Int)
		if !ok {
			return nil, badArg(name, "third", "int", args[2])
		}
		count = c.V
		if count < 0 {
			return nil, fail(IndexOutOfBounds, "index out of bounds")
		}
	}
	if count > n-start {
		count = n - start
	}
	end := start + count

	deleted := make([]Value, 0, count)
	for i := start; i < end; i++ {
		deleted = append(deleted, arr.Elems[i])
	}
	var items []Value
	for i := 3; i < len(args); i++ {
		items = append(items, args[i])
	}
	for i := end; i < n; i++ {
		items = append(items, arr.Elems[i])
	}
	// the array is changed in place
	arr.Elems = append(arr.Elems[:start], items...)
	return &Array{Elems: deleted}, nil
}

// range(start, stop[, step]): ints from start towards stop (exclusive).
func (e *evaluator) builtinRange(args []Value) (Value, *rtErr) {
	const name = "range"
	if len(args) < 2 || len(args) > 3 {
		return nil, wrongArgs(name)
	}
	var vals [3]int64
	vals[2] = 1
	which := [3]string{"start", "stop", "step"}
	for i, a := range args {
		v, ok := a.(Int)
		if !ok {
			return nil, badArg(name, which[i], "int", a)
		}
		if i == 2 && v.V <= 0 {
			return nil, fail(OtherRuntimeError, "range step must be greater than 0")
		}
		vals[i] = v.V
	}
	start, stop, step := vals[0], vals[1], vals[2]
	out := &Array{}
	if start <= stop {
		for i := start; i < stop; {
			if err := e.step(); err != nil {
				return nil, err
			}
			out.Elems = append(out.Elems, Int{V: i})
			if i > math.MaxInt64-step {
				break // the next value is not representable, hence >= stop
			}
			i += step
		}
	} else {
		for i := start; i > stop; {
			if err := e.step(); err != nil {
				return nil, err
			}
			out.Elems = append(out.Elems, Int{V: i})
			if i < math.MinInt64+step {
				break
			}
			i -= step
		}
	}
	return out, nil
}

// freezer remembers containers already frozen (shared and cyclic structures):
// srcArrays[i] was frozen into dstArrays[i], likewise for maps.
type freezer struct {
	srcArrays, dstArrays []*Array
	srcMaps, dstMaps     []*Map
}

func (fz *freezer) frozenArray(a *Array) *Array {
	for i, s := range fz.srcArrays {
		if s == a {
			return fz.dstArrays[i]
		}
	}
	return nil
}

func (fz *freezer) frozenMap(m *Map) *Map {
	for i, s := range fz.srcMaps {
		if s == m {
			return fz.dstMaps[i]
		}
	}
	return nil
}

// freeze converts mutable containers to immutable ones, recursively. A value
// that is already fully immutable is returned as is.
func (e *evaluator) freeze(v Value, fz *freezer) (Value, *rtErr) {
	if err := e.enter(); err != nil {
		return nil, err
	}
	f, err := e.freeze1(v, fz)
	e.exit()
	return f, err
}

func (e *evaluator) freeze1(v Value, fz *freezer) (Value, *rtErr) {
	switch v := v.(type) {
	case *Array:
		if !v.Immutable {
			if done := fz.frozenArray(v); done != nil {
				return done, nil
			}
			out := &Array{Elems: make([]Value, len(v.Elems)), Immutable: true}
			fz.srcArrays = append(fz.srcArrays, v)
			fz.dstArrays = append(fz.dstArrays, out)
			for i, el := range v.Elems {
				f, err := e.freeze(el, fz)
				if err != nil {
					return nil, err
				}
				out.Elems[i] = f
			}
			return out, nil
		}
		elems := make([]Value, len(v.Elems))
		changed := false
		for i, el := range v.Elems {
			f, err := e.freeze(el, fz)
			if err != nil {
				return nil, err
			}
			elems[i] = f
			if !sameRef(f, el) {
				changed = true
			}
		}
		if !changed {
			return v, nil
		}
		return &Array{Elems: elems, Immutable: true}, nil
	case *Map:
		if !v.Immutable {
			if done := fz.frozenMap(v); done != nil {
				return done, nil
			}
			out := &Map{M: make(map[string]Value, len(v.M)), Immutable: true}
			fz.srcMaps = append(fz.srcMaps, v)
			fz.dstMaps = append(fz.dstMaps, out)
			for k, el := range v.M {
				f, err := e.freeze(el, fz)
				if err != nil {
					return nil, err
				}
				out.M[k] = f
			}
			return out, nil
		}
		m := make(map[string]Value, len(v.M))
		changed := false
		for k, el := range v.M {
			f, err := e.freeze(el, fz)
			if err != nil {
				return nil, err
			}
			m[k] = f
			if !sameRef(f, el) {
				changed = true
			}
		}
		if !changed {
			return v, nil
		}
		return &Map{M: m, Immutable: true}, nil
	}
	return v, nil
}

// sameRef reports whether freezing left a value untouched: containers by
// identity, everything else is returned as is by freeze.
func sameRef(a, b Value) bool {
	switch x := a.(type) {
	case *Array:
		y, ok := b.(*Array)
		return ok && x == y
	case *Map:
		y, ok := b.(*Map)
		return ok && x == y
	}
	return true
}
