package refsem_test

// Native differential test: every corpus program is run by the real tengo
// pipeline (Script.Add -> Compile -> Run -> GetAll) and by refsem.Run, and the
// outcome class and every global variable are compared.

import (
	"bytes"
	"context"
	"fmt"
	"math"
	"sort"
	"strings"
	"testing"
	"time"

	"github.com/d5/tengo/v2"

	"verif/h/refsem"
)

const testMaxSteps = 2000000

// kind names used for the real side only
const (
	kindGoPanic = refsem.ErrKind(1000) // Go runtime panic other than integer division
	kindTimeout = refsem.ErrKind(1001)
)

type realOutcome struct {
	kind    refsem.ErrKind
	globals map[string]tengo.Object
	msg     string
}

func kindName(k refsem.ErrKind) string {
	switch k {
	case kindGoPanic:
		return "GoPanic"
	case kindTimeout:
		return "Timeout"
	}
	return k.String()
}

func classifyRuntime(msg string) refsem.ErrKind {
	first := msg
	if i := strings.Index(first, "\n"); i >= 0 {
		first = first[:i]
	}
	first = strings.TrimPrefix(first, "Runtime Error: ")
	switch {
	case strings.Contains(first, "integer divide by zero"):
		return refsem.DivisionByZero
	case strings.HasPrefix(first, "runtime error:"):
		return kindGoPanic
	case strings.HasPrefix(first, "invalid operation"):
		return refsem.InvalidOperation
	case strings.HasPrefix(first, "not indexable"):
		return refsem.NotIndexable
	case strings.HasPrefix(first, "not index-assignable"):
		return refsem.NotIndexAssignable
	case strings.HasPrefix(first, "index out of bounds"):
		return refsem.IndexOutOfBounds
	case strings.HasPrefix(first, "invalid index type"),
		strings.HasPrefix(first, "invalid slice index type"):
		return refsem.InvalidIndexType
	case strings.HasPrefix(first, "wrong number of arguments"):
		return refsem.WrongNumArguments
	case strings.HasPrefix(first, "invalid type for argument"):
		return refsem.InvalidArgumentType
	case strings.HasPrefix(first, "not callable"):
		return refsem.NotCallable
	case strings.HasPrefix(first, "not iterable"):
		return refsem.NotIterable
	case strings.HasPrefix(first, "stack overflow"):
		return refsem.StackOverflow
	}
	return refsem.OtherRuntimeError
}

func toTengo(v refsem.Value) tengo.Object {
	switch v := v.(type) {
	case refsem.Int:
		return &tengo.Int{Value: v.V}
	case refsem.Float:
		return &tengo.Float{Value: v.V}
	case refsem.Bool:
		if v.V {
			return tengo.TrueValue
		}
		return tengo.FalseValue
	case refsem.Char:
		return &tengo.Char{Value: v.V}
	case refsem.String:
		return &tengo.String{Value: v.V}
	case refsem.Bytes:
		return &tengo.Bytes{Value: append([]byte{}, v.V...)}
	case *refsem.Array:
		var elems []tengo.Object
		for _, e := range v.Elems {
			elems = append(elems, toTengo(e))
		}
		if v.Immutable {
			return &tengo.ImmutableArray{Value: elems}
		}
		return &tengo.Array{Value: elems}
	case *refsem.Map:
		m := make(map[string]tengo.Object)
		for k, e := range v.M {
			m[k] = toTengo(e)
		}
		if v.Immutable {
			return &tengo.ImmutableMap{Value: m}
		}
		return &tengo.Map{Value: m}
	case *refsem.Error:
		return &tengo.Error{Value: toTengo(v.V)}
	case refsem.Time:
		return &tengo.Time{Value: v.V}
	case refsem.Undefined, nil:
		return tengo.UndefinedValue
	}
	panic(fmt.Sprintf("toTengo: unsupported input %T", v))
}

func runReal(src string, inputs map[string]refsem.Value) (out realOutcome) {
	defer func() {
		if r := recover(); r != nil {
			out = realOutcome{kind: kindGoPanic, msg: fmt.Sprintf("panic: %v", r)}
		}
	}()
	s := tengo.NewScript([]byte(src))
	for name, v := range inputs {
		if err := s.Add(name, toTengo(v)); err != nil {
			panic(err)
		}
	}
	c, err := s.Compile()
	if err != nil {
		return realOutcome{kind: refsem.CompileError, msg: err.Error()}
	}
	ctx, cancel := context.WithTimeout(context.Background(), 20*time.Second)
	defer cancel()
	err = c.RunContext(ctx)
	out.globals = make(map[string]tengo.Object)
	for _, v := range c.GetAll() {
		out.globals[v.Name()] = v.Object()
	}
	if err != nil {
		if err == context.DeadlineExceeded {
			out.kind = kindTimeout
		} else {
			out.kind = classifyRuntime(err.Error())
		}
		out.msg = err.Error()
		if i := strings.Index(out.msg, "\n"); i >= 0 {
			out.msg = out.msg[:i]
		}
		return out
	}
	out.kind = refsem.OK
	return out
}

// same compares a refsem value with a tengo object structurally: floats by
// value with NaN equal to NaN, maps unordered, functions as "is a function".
func same(a refsem.Value, b tengo.Object) bool {
	switch a := a.(type) {
	case refsem.Int:
		b, ok := b.(*tengo.Int)
		return ok && a.V == b.Value
	case refsem.Float:
		b, ok := b.(*tengo.Float)
		if !ok {
			return false
		}
		if math.IsNaN(a.V) || math.IsNaN(b.Value) {
			return math.IsNaN(a.V) && math.IsNaN(b.Value)
		}
		return a.V == b.Value && math.Signbit(a.V) == math.Signbit(b.Value)
	case refsem.Bool:
		b, ok := b.(*tengo.Bool)
		return ok && a.V == !b.IsFalsy()
	case refsem.Char:
		b, ok := b.(*tengo.Char)
		return ok && a.V == b.Value
	case refsem.String:
		b, ok := b.(*tengo.String)
		return ok && a.V == b.Value
	case refsem.Bytes:
		b, ok := b.(*tengo.Bytes)
		return ok && bytes.Equal(a.V, b.Value)
	case *refsem.Array:
		var elems []tengo.Object
		switch b := b.(type) {
		case *tengo.Array:
			if a.Immutable {
				return false
			}
			elems = b.Value
		case *tengo.ImmutableArray:
			if !a.Immutable {
				return false
			}
			elems = b.Value
		default:
			return false
		}
		if len(a.Elems) != len(elems) {
			return false
		}
		for i := range elems {
			if !same(a.Elems[i], elems[i]) {
				return false
			}
		}
		return true
	case *refsem.Map:
		var m map[string]tengo.Object
		switch b := b.(type) {
		case *tengo.Map:
			if a.Immutable {
				return false
			}
			m = b.Value
		case *tengo.ImmutableMap:
			if !a.Immutable {
				return false
			}
			m = b.Value
		default:
			return false
		}
		if len(a.M) != len(m) {
			return false
		}
		for k, av := range a.M {
			bv, ok := m[k]
			if !ok || !same(av, bv) {
				return false
			}
		}
		return true
	case *refsem.Error:
		b, ok := b.(*tengo.Error)
		return ok && same(a.V, b.Value)
	case refsem.Time:
		b, ok := b.(*tengo.Time)
		return ok && a.V.Equal(b.Value)
	case refsem.Undefined:
		return b == tengo.UndefinedValue
	case *refsem.Func:
		_, ok := b.(*tengo.CompiledFunction)
		return ok
	case refsem.Builtin:
		b, ok := b.(*tengo.BuiltinFunction)
		return ok && b.Name == a.Name
	}
	return false
}

func showRef(v refsem.Value) string {
	switch v := v.(type) {
	case refsem.Int:
		return fmt.Sprintf("%d", v.V)
	case refsem.Float:
		return fmt.Sprintf("float(%v)", v.V)
	case refsem.Bool:
		return fmt.Sprintf("%v", v.V)
	case refsem.Char:
		return fmt.Sprintf("%q", v.V)
	case refsem.String:
		return fmt.Sprintf("%q", v.V)
	case refsem.Bytes:
		return fmt.Sprintf("bytes(%q)", string(v.V))
	case *refsem.Array:
		var parts []string
		for _, e := range v.Elems {
			parts = append(parts, showRef(e))
		}
		s := "[" + strings.Join(parts, ", ") + "]"
		if v.Immutable {
			s = "immutable(" + s + ")"
		}
		return s
	case *refsem.Map:
		var keys []string
		for k := range v.M {
			keys = append(keys, k)
		}
		sort.Strings(keys)
		var parts []string
		for _, k := range keys {
			parts = append(parts, k+": "+showRef(v.M[k]))
		}
		s := "{" + strings.Join(parts, ", ") + "}"
		if v.Immutable {
			s = "immutable(" + s + ")"
		}
		return s
	case *refsem.Error:
		return "error(" + showRef(v.V) + ")"
	case refsem.Time:
		return "time(" + v.V.UTC().Format(time.RFC3339Nano) + ")"
	case refsem.Undefined:
		return "undefined"
	case *refsem.Func:
		return "<func>"
	case refsem.Builtin:
		return "<builtin " + v.Name + ">"
	}
	return fmt.Sprintf("?%T", v)
}

func showRefGlobals(g map[string]refsem.Value) string {
	var keys []string
	for k := range g {
		keys = append(keys, k)
	}
	sort.Strings(keys)
	var parts []string
	for _, k := range keys {
		parts = append(parts, k+"="+showRef(g[k]))
	}
	return strings.Join(parts, "; ")
}

func showRealGlobals(g map[string]tengo.Object) string {
	var keys []string
	for k := range g {
		keys = append(keys, k)
	}
	sort.Strings(keys)
	var parts []string
	for _, k := range keys {
		o := g[k]
		s := o.String()
		if _, isMap := o.(*tengo.Map); isMap {
			s = "map" + s
		}
		parts = append(parts, k+"="+s+"("+o.TypeName()+")")
	}
	return strings.Join(parts, "; ")
}

// compare returns "" when both outcomes agree, else a description.
func compare(ref refsem.Result, real realOutcome) string {
	if ref.Kind != real.kind {
		return fmt.Sprintf("kind: refsem=%s (%s) real=%s (%s)",
			kindName(ref.Kind), ref.Msg, kindName(real.kind), real.msg)
	}
	if ref.Kind == refsem.CompileError {
		return ""
	}
	var diffs []string
	for name, rv := range ref.Globals {
		tv, ok := real.globals[name]
		if !ok {
			diffs = append(diffs, "global "+name+" missing in real")
			continue
		}
		if !same(rv, tv) {
			diffs = append(diffs, fmt.Sprintf("global %s: refsem=%s real=%s(%s)",
				name, showRef(rv), tv.String(), tv.TypeName()))
		}
	}
	for name := range real.globals {
		if _, ok := ref.Globals[name]; !ok {
			diffs = append(diffs, "global "+name+" missing in refsem")
		}
	}
	sort.Strings(diffs)
	return strings.Join(diffs, "\n")
}

func withOut(in map[string]refsem.Value) map[string]refsem.Value {
	m := map[string]refsem.Value{"out": refsem.Undefined{}}
	for k, v := range in {
		m[k] = v
	}
	return m
}

type prog struct {
	src string
	in  map[string]refsem.Value
}

func TestDifferential(t *testing.T) {
	var all []prog
	for _, s := range vmTestCorpus {
		all = append(all, prog{src: s.src})
	}
	all = append(all, ownCorpus...)

	skipSrc := make(map[string]bool)
	for _, d := range knownDivergences {
		skipSrc[d.src] = true
	}
	for _, d := range docDiscrepancies {
		skipSrc[d.src] = true
	}

	compared, unsupported, listed := 0, 0, 0
	seen := make(map[string]bool)
	for _, p := range all {
		key := p.src + "\x00" + showRefGlobals(p.in)
		if seen[key] {
			continue
		}
		seen[key] = true
		if skipSrc[p.src] {
			listed++
			continue
		}
		inputs := withOut(p.in)
		ref := refsem.Run(p.src, inputs, testMaxSteps)
		if ref.Kind == refsem.Unsupported {
			unsupported++
			t.Logf("unsupported by refsem (%s): %s", ref.Msg, oneLine(p.src))
			continue
		}
		real := runReal(p.src, inputs)
		if d := compare(ref, real); d != "" {
			t.Errorf("MISMATCH\nprogram: %s\ninputs: %s\n%s", p.src, showRefGlobals(p.in), d)
		}
		compared++
	}
	t.Logf("corpus: %d distinct programs (%d transcribed from vm_test.go, %d own); "+
		"%d compared, %d unsupported by refsem, %d listed as divergence/discrepancy",
		len(seen), len(vmTestCorpus), len(ownCorpus), compared, unsupported, listed)
	if compared < 250 {
		t.Errorf("only %d programs compared", compared)
	}
}

func oneLine(s string) string {
	s = strings.Join(strings.Fields(s), " ")
	if len(s) > 100 {
		s = s[:100] + "..."
	}
	return s
}

type divergence struct {
	src  string
	note string
	want refsem.ErrKind // outcome class refsem must give
}

// TestListedDivergences runs the programs that are excluded from the pass/fail
// comparison, prints both outcomes, and pins refsem's side.
func TestListedDivergences(t *testing.T) {
	run := func(title string, list []divergence) {
		for _, d := range list {
			inputs := withOut(nil)
			ref := refsem.Run(d.src, inputs, testMaxSteps)
			real := runReal(d.src, inputs)
			diff := compare(ref, real)
			status := "DIVERGES"
			if diff == "" {
				status = "agrees now (entry is stale)"
			}
			t.Logf("%s [%s] %s\n  program: %s\n  refsem: %s %s {%s}\n  real:   %s %s {%s}",
				title, status, d.note, oneLine(d.src),
				kindName(ref.Kind), ref.Msg, showRefGlobals(ref.Globals),
				kindName(real.kind), real.msg, showRealGlobals(real.globals))
			if ref.Kind != d.want {
				t.Errorf("%s: refsem gives %s, want %s for: %s",
					title, kindName(ref.Kind), kindName(d.want), d.src)
			}
		}
	}
	run("docs-vs-implementation", docDiscrepancies)
	run("suspected tengo bug", knownDivergences)
}

// TestExpectedValues pins a few refsem results independently of the real
// implementation (so that a common-mode change cannot go unnoticed).
func TestExpectedValues(t *testing.T) {
	cases := []struct {
		src  string
		want string
	}{
		{`out = 1 + 2 * 3`, "out=7"},
		{`out = 9223372036854775807 + 1`, "out=-9223372036854775808"},
		{`out = (-9223372036854775807 - 1) / -1`, "out=-9223372036854775808"},
		{`out = 1 << 64`, "out=0"},
		{`out = -1 >> 70`, "out=-1"},
		{`out = 7 / 2.0`, "out=float(3.5)"},
		{`out = 'a' + 1`, "out='b'"},
		{`out = "x" + 1.0 + true + 'c' + [1, "s"]`, `out="x1truec[1, \"s\"]"`},
		{`out = [1, 2, 3][3]`, "out=undefined"},
		{`out = {a: 1}.b.c.d`, "out=undefined"},
		{`out = [1,2,3,4,5][-1:10]`, "out=[1, 2, 3, 4, 5]"},
		{`out = "hello world"[2:10]`, `out="llo worl"`},
		{`f := func(a, ...b) { return [a, b] }; out = f(1, 2, 3)`, "f=<func>; out=[1, [2, 3]]"},
		{`out = func() { b := 4 }()`, "out=undefined"},
		{`f := func(n) { if n == 0 { return 7 }; f(n-1) }; out = f(1)`, "f=<func>; out=undefined"},
		{`out = int("foo")`, "out=undefined"},
		{`out = string(1984) + int("-999") + float(-51)`, `out="1984-999-51"`},
		{`a := immutable({b: 4, c: [1, 2, 3]}); a.c[1] = 5; out = a.c`, "a=immutable({b: 4, c: [1, 5, 3]}); out=[1, 5, 3]"},
		{`x := immutable([1,2,3]); y := x[0:2]; y[0] = 9; out = x`, "out=immutable([1, 2, 3]); x=immutable([1, 2, 3]); y=[9, 2]"},
		{`out = range(9223372036854775806, 9223372036854775807, 2)`, "out=[9223372036854775806]"},
		{`out = range(-9223372036854775807, -9223372036854775807 - 1, 5)`, "out=[-9223372036854775807]"},
		{`a := [1,2,3]; b := a + [4]; c := a + [5]; out = [b, c]`, "a=[1, 2, 3]; b=[1, 2, 3, 4]; c=[1, 2, 3, 5]; out=[[1, 2, 3, 4], [1, 2, 3, 5]]"},
	}
	for _, c := range cases {
		res := refsem.Run(c.src, withOut(nil), testMaxSteps)
		if res.Kind != refsem.OK {
			t.Errorf("%s: kind %s (%s)", c.src, res.Kind, res.Msg)
			continue
		}
		if got := showRefGlobals(res.Globals); got != c.want {
			t.Errorf("%s:\n got  %s\n want %s", c.src, got, c.want)
		}
	}

	errCases := []struct {
		src  string
		want refsem.ErrKind
	}{
		{`out = 1 / 0`, refsem.DivisionByZero},
		{`out = 1 % 0`, refsem.DivisionByZero},
		{`b = 25`, refsem.CompileError},
		{`a := 1; a := 2`, refsem.CompileError},
		{`break`, refsem.CompileError},
		{`return 1`, refsem.CompileError},
		{`f := func(a, b) {}; f(1, 2, 3)`, refsem.WrongNumArguments},
		{`s := "12345"; s[1] = 'b'`, refsem.NotIndexAssignable},
		{`b := immutable([1, 2, 3]); b[1] = "foo"`, refsem.NotIndexAssignable},
		{`delete({}, 1)`, refsem.InvalidArgumentType},
		{`delete({})`, refsem.WrongNumArguments},
		{`out = 1 + "a"`, refsem.InvalidOperation},
		{`out = 5()`, refsem.NotCallable},
		{`for x in 5 {}`, refsem.NotIterable},
		{`out = 5[0]`, refsem.NotIndexable},
		{`out = [1]["a"]`, refsem.InvalidIndexType},
		{`a := [1]; a[1] = 2`, refsem.IndexOutOfBounds},
		{`f := func() { return f() + 1 }; f()`, refsem.StackOverflow},
		{`out = format("%d", 1)`, refsem.Unsupported},
		{`m := import("math")`, refsem.Unsupported},
		{`for { }`, refsem.Unsupported},
		{`a := [0]; a[0] = a; out = a == a`, refsem.Unsupported},
		{`a := [0]; a[0] = a; out = string(a)`, refsem.Unsupported},
		{`a := [0]; a[0] = a; out = copy(a)`, refsem.Unsupported},
	}
	for _, c := range errCases {
		res := refsem.Run(c.src, withOut(nil), 100000)
		if res.Kind != c.want {
			t.Errorf("%s: kind %s (%s), want %s", c.src, res.Kind, res.Msg, c.want)
		}
	}
	if res := refsem.Run(`for { }`, nil, 1000); res.Msg != "step limit" {
		t.Errorf("step limit message: %q", res.Msg)
	}
}
