// Package refsem is a reference interpreter for the Tengo language, written
// from the language documentation (docs/tutorial.md, operators.md,
// runtime-types.md, builtins.md, objects.md) as a direct AST-walking
// evaluator. It shares only the parser (for the AST) with the real
// implementation; values, environments, operators and builtins are its own.
//
// Decisions where the documentation is silent or differs from the
// implementation are listed in NOTES.md.
package refsem

import (
	"time"

	"github.com/d5/tengo/v2/parser"
	"github.com/d5/tengo/v2/token"
)

// Value is a refsem runtime value: one of Int, Float, Bool, Char, String,
// Bytes, *Array, *Map, *Error, Time, Undefined, *Func, Builtin.
type Value interface{}

// Int is a signed 64-bit integer value.
type Int struct{ V int64 }

// Float is a 64-bit floating point value.
type Float struct{ V float64 }

// Bool is a boolean value.
type Bool struct{ V bool }

// Char is a unicode character.
type Char struct{ V rune }

// String is a string value.
type String struct{ V string }

// Bytes is a byte array (immutable from scripts).
type Bytes struct{ V []byte }

// Array is an array or immutable array; always used as *Array.
type Array struct {
	Elems     []Value
	Immutable bool
}

// Map is a map or immutable map; always used as *Map.
type Map struct {
	M         map[string]Value
	Immutable bool
}

// Error is an error value; always used as *Error (errors compare by identity).
type Error struct{ V Value }

// Time is a time value.
type Time struct{ V time.Time }

// Undefined is the undefined value.
type Undefined struct{}

// Func is a closure; always used as *Func.
type Func struct {
	Params   []string // parameter names
	Variadic bool     // last parameter collects the remaining arguments
	Body     *parser.BlockStmt

	paramIDs []int         // declaration ids of the parameters
	captured map[int]*cell // variables visible at creation (captured by reference)
}

// Builtin is a builtin function value.
type Builtin struct{ Name string }

// ErrKind classifies the outcome of a run.
type ErrKind int

// Outcome classes.
const (
	OK                  ErrKind = iota
	CompileError                // program rejected before running
	InvalidOperation            // operator not defined for operand types
	NotIndexable                //
	NotIndexAssignable          //
	IndexOutOfBounds            //
	InvalidIndexType            //
	WrongNumArguments           //
	InvalidArgumentType         //
	NotCallable                 //
	NotIterable                 // for-in over a non-iterable value
	DivisionByZero              // integer division or modulo by zero
	StackOverflow               //
	Unsupported                 // program uses something refsem does not model
	OtherRuntimeError           //
)

func (k ErrKind) String() string {
	switch k {
	case OK:
		return "OK"
	case CompileError:
		return "CompileError"
	case InvalidOperation:
		return "InvalidOperation"
	case NotIndexable:
		return "NotIndexable"
	case NotIndexAssignable:
		return "NotIndexAssignable"
	case IndexOutOfBounds:
		return "IndexOutOfBounds"
	case InvalidIndexType:
		return "InvalidIndexType"
	case WrongNumArguments:
		return "WrongNumArguments"
	case InvalidArgumentType:
		return "InvalidArgumentType"
	case NotCallable:
		return "NotCallable"
	case NotIterable:
		return "NotIterable"
	case DivisionByZero:
		return "DivisionByZero"
	case StackOverflow:
		return "StackOverflow"
	case Unsupported:
		return "Unsupported"
	case OtherRuntimeError:
		return "OtherRuntimeError"
	}
	return "ErrKind(?)"
}

// Result is the outcome of Run.
type Result struct {
	Kind    ErrKind
	Globals map[string]Value // final values of all top-level variables, including host inputs
	Msg     string           // free text for debugging
}

// maxCallDepth is the number of nested (non-tail) user function calls that
// may be active at once; one more is StackOverflow.
const maxCallDepth = 1023

// builtinNames lists the builtin functions in scope of every program.
var builtinNames = []string{
	"len", "copy", "append", "delete", "splice", "string", "int", "bool",
	"float", "char", "bytes", "time", "is_int", "is_float", "is_string",
	"is_bool", "is_char", "is_bytes", "is_array", "is_immutable_array",
	"is_map", "is_immutable_map", "is_iterable", "is_time", "is_error",
	"is_undefined", "is_function", "is_callable", "type_name", "format",
	"range", "freeze",
}

// Run parses src, evaluates it with inputs predefined as global variables and
// returns the outcome. maxSteps bounds the number of evaluation steps
// (statements + expressions); exceeding it gives Kind Unsupported with Msg
// "step limit". Input arrays and maps are used as they are (not copied), so
// the program can modify them, as it can modify host objects given to the
// real Script.
func Run(src string, inputs map[string]Value, maxSteps int) (res Result) {
	defer func() {
		// Single top-level safety net: an internal abort (a bug in refsem or
		// in the parser) becomes a Result instead of crashing the caller.
		if r := recover(); r != nil {
			res = Result{Kind: OtherRuntimeError, Msg: "refsem: internal abort"}
		}
	}()

	fileSet := parser.NewFileSet()
	srcFile := fileSet.AddFile("(main)", -1, len(src))
	p := parser.NewParser(srcFile, []byte(src), nil)
	file, perr := p.ParseFile()
	if perr != nil || file == nil {
		msg := "parse error"
		if perr != nil {
			msg = "parse error: " + perr.Error()
		}
		return Result{Kind: CompileError, Msg: msg}
	}

	// static phase: scoping and the other compile-time rules
	rs := newResolver()
	for _, name := range builtinNames {
		rs.defineBuiltin(name)
	}
	inputIDs := make(map[string]int, len(inputs))
	for name := range inputs {
		inputIDs[name] = rs.define(name)
	}
	for _, stmt := range file.Stmts {
		rs.stmt(stmt)
	}
	if rs.unsupported != "" {
		return Result{Kind: Unsupported, Msg: rs.unsupported}
	}
	if rs.err != "" {
		return Result{Kind: CompileError, Msg: rs.err}
	}

	// dynamic phase
	ev := &evaluator{
		refs:     rs.refs,
		static:   make(map[int]*cell),
		maxSteps: maxSteps,
	}
	for i, name := range builtinNames {
		ev.static[i] = &cell{v: Builtin{Name: name}}
	}
	for name, v := range inputs {
		if v == nil {
			v = Undefined{}
		}
		ev.static[inputIDs[name]] = &cell{v: v}
	}

	_, rerr := ev.execStmts(file.Stmts, nil, false)

	globals := make(map[string]Value)
	for name, id := range rs.root.names {
		if id < len(builtinNames) {
			continue
		}
		c := ev.static[id]
		if c == nil || c.v == nil {
			globals[name] = Undefined{}
		} else {
			globals[name] = c.v
		}
	}
	if ev.internal != "" {
		return Result{Kind: OtherRuntimeError, Globals: globals, Msg: "refsem: internal error: " + ev.internal}
	}
	if rerr != nil {
		return Result{Kind: rerr.kind, Globals: globals, Msg: rerr.msg}
	}
	return Result{Kind: OK, Globals: globals}
}

// ---------------------------------------------------------------------------
// Static phase: lexical scoping and compile-time rules.
//
// Every declaration gets a unique id; every identifier occurrence is mapped
// (by source position) to the id of the declaration it refers to. The dynamic
// phase only ever looks variables up by id, so shadowing and "declared later"
// questions are settled here, lexically.

type cscope struct {
	names  map[string]int // name -> declaration id
	parent *cscope
	block  bool // true: block scope; false: function (or root) scope
}

type resolver struct {
	refs        map[parser.Pos]int
	nextID      int
	root        *cscope
	cur         *cscope
	loopDepth   int // enclosing loops within the current function
	funcDepth   int // enclosing function literals
	err         string
	unsupported string
}

func newResolver() *resolver {
	root := &cscope{names: make(map[string]int)}
	return &resolver{
		refs: make(map[parser.Pos]int),
		root: root,
		cur:  root,
	}
}

func (r *resolver) fail(msg string) {
	if r.err == "" {
		r.err = msg
	}
}

func (r *resolver) notSupported(msg string) {
	if r.unsupported == "" {
		r.unsupported = msg
	}
}

func (r *resolver) defineBuiltin(name string) {
	r.root.names[name] = r.nextID
	r.nextID++
}

func (r *resolver) define(name string) int {
	id := r.nextID
	r.nextID++
	r.cur.names[name] = id
	return id
}

func (r *resolver) push(block bool) {
	r.cur = &cscope{names: make(map[string]int), parent: r.cur, block: block}
}

func (r *resolver) pop() {
	r.cur = r.cur.parent
}

// lookup finds the innermost visible declaration of name; depth is the number
// of scopes between the current scope and the one holding the declaration.
func (r *resolver) lookup(name string) (id int, depth int, ok bool) {
	for s := r.cur; s != nil; s = s.parent {
		if id, found := s.names[name]; found {
			return id, depth, true
		}
		depth++
	}
	return 0, 0, false
}

func (r *resolver) block(b *parser.BlockStmt) {
	if b == nil || len(b.Stmts) == 0 {
		return
	}
	r.push(true)
	for _, s := range b.Stmts {
		r.stmt(s)
	}
	r.pop()
}

func (r *resolver) stmt(s parser.Stmt) {
	switch s := s.(type) {
	case *parser.ExprStmt:
		r.expr(s.Expr)
	case *parser.IncDecStmt:
		// x++ is x += 1
		r.assign([]parser.Expr{s.Expr}, nil, true, false)
	case *parser.AssignStmt:
		r.assignStmt(s)
	case *parser.IfStmt:
		r.push(true)
		if s.Init != nil {
			r.stmt(s.Init)
		}
		r.expr(s.Cond)
		r.block(s.Body)
		if s.Else != nil {
			r.stmt(s.Else)
		}
		r.pop()
	case *parser.ForStmt:
		r.push(true)
		if s.Init != nil {
			r.stmt(s.Init)
		}
		if s.Cond != nil {
			r.expr(s.Cond)
		}
		r.loopDepth++
		r.block(s.Body)
		r.loopDepth--
		if s.Post != nil {
			r.stmt(s.Post)
		}
		r.pop()
	case *parser.ForInStmt:
		if s.Key == nil || s.Value == nil {
			r.fail("for-in takes one or two variables")
			return
		}
		r.push(true)
		r.expr(s.Iterable)
		r.loopDepth++
		if s.Key.Name != "_" {
			r.refs[s.Key.NamePos] = r.define(s.Key.Name)
		}
		if s.Value.Name != "_" {
			r.refs[s.Value.NamePos] = r.define(s.Value.Name)
		}
		r.block(s.Body)
		r.loopDepth--
		r.pop()
	case *parser.BranchStmt:
		if r.loopDepth == 0 {
			r.fail(s.Token.String() + " not allowed outside loop")
		}
	case *parser.BlockStmt:
		r.block(s)
	case *parser.ReturnStmt:
		if r.funcDepth == 0 {
			r.fail("return not allowed outside function")
		}
		if s.Result != nil {
			r.expr(s.Result)
		}
	case *parser.ExportStmt:
		r.notSupported("export")
	case *parser.EmptyStmt:
	default:
		r.fail("bad statement")
	}
}

func (r *resolver) assignStmt(s *parser.AssignStmt) {
	isDefine := s.Token == token.Define
	isPlain := s.Token == token.Assign
	r.assign(s.LHS, s.RHS, !isDefine && !isPlain, isDefine)
}

// splitLHS returns the variable at the root of an assignment target and the
// index/selector expressions applied to it (outermost last).
func splitLHS(x parser.Expr) (base *parser.Ident, sels []parser.Expr, ok bool) {
	switch x := x.(type) {
	case *parser.Ident:
		return x, nil, true
	case *parser.SelectorExpr:
		base, sels, ok = splitLHS(x.Expr)
		return base, append(sels, x.Sel), ok
	case *parser.IndexExpr:
		base, sels, ok = splitLHS(x.Expr)
		return base, append(sels, x.Index), ok
	}
	return nil, nil, false
}

// assign checks an assignment. rhs == nil stands for the literal 1 of ++/--.
func (r *resolver) assign(lhs, rhs []parser.Expr, compound, isDefine bool) {
	if len(lhs) != 1 || (rhs != nil && len(rhs) != 1) {
		r.fail("tuple assignment not allowed")
		return
	}
	base, sels, ok := splitLHS(lhs[0])
	if !ok || base == nil {
		r.fail("cannot assign to this expression")
		return
	}
	if isDefine && len(sels) > 0 {
		r.fail("operator ':=' not allowed with selector")
		return
	}
	isFunc := false
	if rhs != nil {
		_, isFunc = rhs[0].(*parser.FuncLit)
	}

	id, depth, exists := r.lookup(base.Name)
	if isDefine {
		if exists && depth == 0 {
			r.fail("'" + base.Name + "' redeclared in this block")
			return
		}
		if isFunc {
			// a function literal may refer to the variable it is assigned to
			id = r.define(base.Name)
		}
	} else {
		if !exists {
			r.fail("unresolved reference '" + base.Name + "'")
			return
		}
		if id < len(builtinNames) {
			r.fail("cannot assign to builtin function '" + base.Name + "'")
			return
		}
	}

	if compound {
		r.expr(lhs[0])
	}
	if rhs != nil {
		r.expr(rhs[0])
	}
	if isDefine && !isFunc {
		id = r.define(base.Name)
	}
	for _, sel := range sels {
		r.expr(sel)
	}
	r.refs[base.NamePos] = id
}

func (r *resolver) expr(x parser.Expr) {
	switch x := x.(type) {
	case nil:
		r.fail("missing expression")
	case *parser.Ident:
		id, _, ok := r.lookup(x.Name)
		if !ok {
			r.fail("unresolved reference '" + x.Name + "'")
			return
		}
		r.refs[x.NamePos] = id
	case *parser.IntLit, *parser.FloatLit, *parser.BoolLit, *parser.StringLit,
		*parser.CharLit, *parser.UndefinedLit:
	case *parser.ParenExpr:
		r.expr(x.Expr)
	case *parser.UnaryExpr:
		r.expr(x.Expr)
	case *parser.BinaryExpr:
		r.expr(x.LHS)
		r.expr(x.RHS)
	case *parser.CondExpr:
		r.expr(x.Cond)
		r.expr(x.True)
		r.expr(x.False)
	case *parser.ArrayLit:
		for _, el := range x.Elements {
			r.expr(el)
		}
	case *parser.MapLit:
		for _, el := range x.Elements {
			r.expr(el.Value)
		}
	case *parser.SelectorExpr:
		r.expr(x.Expr)
		r.expr(x.Sel)
	case *parser.IndexExpr:
		r.expr(x.Expr)
		r.expr(x.Index)
	case *parser.SliceExpr:
		r.expr(x.Expr)
		if x.Low != nil {
			r.expr(x.Low)
		}
		if x.High != nil {
			r.expr(x.High)
		}
	case *parser.CallExpr:
		r.expr(x.Func)
		for _, a := range x.Args {
			r.expr(a)
		}
	case *parser.ErrorExpr:
		r.expr(x.Expr)
	case *parser.ImmutableExpr:
		r.expr(x.Expr)
	case *parser.FuncLit:
		if x.Type == nil || x.Type.Params == nil || x.Body == nil {
			r.fail("bad function literal")
			return
		}
		savedLoops := r.loopDepth
		r.loopDepth = 0 // break/continue do not cross a function boundary
		r.funcDepth++
		r.push(false)
		for _, p := range x.Type.Params.List {
			r.refs[p.NamePos] = r.define(p.Name)
		}
		r.block(x.Body)
		r.pop()
		r.funcDepth--
		r.loopDepth = savedLoops
	case *parser.ImportExpr:
		r.notSupported("import")
	default:
		r.fail("bad expression")
	}
}
