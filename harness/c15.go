package h

// C15 — host/script value exchange is coherent over any sequence of API calls.

import (
	"errors"
	"strconv"
	"time"

	"github.com/d5/tengo/v2"
	"verif/h/vf"
)

// goScalar builds a Go scalar of the supported types (symbolic payload) and
// the object FromInterface must yield for it.
func goScalar(id string, k int) (interface{}, tengo.Object) {
	switch k {
	case 0:
		return nil, tengo.UndefinedValue
	case 1:
		s := vf.String(id+".s", vf.Choice(id+".slen", 3))
		return s, &tengo.String{Value: s}
	case 2:
		v := vf.Int(id + ".int")
		return v, &tengo.Int{Value: int64(v)}
	case 3:
		v := vf.Int64(id + ".i64")
		return v, &tengo.Int{Value: v}
	case 4:
		v := vf.Bool(id + ".b")
		if v {
			return v, tengo.TrueValue
		}
		return v, tengo.FalseValue
	case 5:
		v := vf.Rune(id + ".r")
		return v, &tengo.Char{Value: v}
	case 6:
		v := vf.Byte(id + ".y")
		return v, &tengo.Char{Value: rune(v)}
	case 7:
		v := vf.Float64(id + ".f")
		return v, &tengo.Float{Value: v}
	case 8:
		v := vf.Bytes(id+".bs", vf.Choice(id+".blen", 3))
		return v, &tengo.Bytes{Value: v}
	case 9:
		return errors.New("boom"), &tengo.Error{Value: &tengo.String{Value: "boom"}}
	default:
		t := SymTime(id + ".t")
		return t, &tengo.Time{Value: t}
	}
}

const nGoScalars = 11

// normEq: back (the result of ToInterface(FromInterface(g))) equals the
// documented normalisation of g: int kinds -> int64, byte/rune -> rune, error
// -> an error with the same message.
func normEq(g, back interface{}) bool {
	switch x := g.(type) {
	case nil:
		return back == nil
	case string:
		y, ok := back.(string)
		return ok && x == y
	case int:
		y, ok := back.(int64)
		return ok && int64(x) == y
	case int64:
		y, ok := back.(int64)
		return ok && x == y
	case bool:
		y, ok := back.(bool)
		return ok && x == y
	case rune:
		y, ok := back.(rune)
		return ok && x == y
	case byte:
		y, ok := back.(rune)
		return ok && rune(x) == y
	case float64:
		y, ok := back.(float64)
		if !ok {
			return false
		}
		return vf.Or(x == y, vf.And(x != x, y != y))
	case []byte:
		y, ok := back.([]byte)
		return ok && string(x) == string(y)
	case error:
		y, ok := back.(error)
		return ok && contains(y.Error(), x.Error())
	case time.Time:
		y, ok := back.(time.Time)
		return ok && x.Equal(y)
	case []interface{}:
		y, ok := back.([]interface{})
		if !ok || len(x) != len(y) {
			return false
		}
		acc := true
		for i := range x {
			acc = vf.And(acc, normEq(x[i], y[i]))
		}
		return acc
	case map[string]interface{}:
		y, ok := back.(map[string]interface{})
		if !ok || len(x) != len(y) {
			return false
		}
		acc := true
		for k, xv := range x {
			yv, ok := y[k]
			if !ok {
				return false
			}
			acc = vf.And(acc, normEq(xv, yv))
		}
		return acc
	}
	return false
}

// C15_RoundTrip: FromInterface yields the documented type/value and
// ToInterface(FromInterface(g)) is the documented normalisation of g.
func C15_RoundTrip() {
	shape := vf.Choice("shape", 6)
	var g interface{}
	var want tengo.Object
	switch shape {
	case 0: // scalar
		g, want = goScalar("g", vf.Choice("g.kind", nGoScalars))
	case 1: // []interface{}
		n := vf.Choice("n", 3)
		var arr []interface{}
		var ws []tengo.Object
		for i := 0; i < n; i++ {
			e, w := goScalar("e"+string(rune('0'+i)), vf.Choice("e.kind"+string(rune('0'+i)), nGoScalars))
			arr = append(arr, e)
			ws = append(ws, w)
		}
		if arr == nil {
			arr = []interface{}{}
		}
		g, want = arr, &tengo.Array{Value: ws}
	case 2: // map[string]interface{} incl. a nested slice
		e, w := goScalar("e0", vf.Choice("e.kind0", nGoScalars))
		inner, iw := goScalar("e1", vf.Choice("e.kind1", nGoScalars))
		g = map[string]interface{}{"k": e, "n": []interface{}{inner}}
		want = &tengo.Map{Value: map[string]tengo.Object{"k": w, "n": &tengo.Array{Value: []tengo.Object{iw}}}}
	case 3: // []Object passes through as Array
		o, _ := AnyObj("o", 0)
		g, want = []tengo.Object{o}, &tengo.Array{Value: []tengo.Object{o}}
	case 4: // map[string]Object passes through as Map
		o, _ := AnyObj("o", 0)
		g, want = map[string]tengo.Object{"k": o}, &tengo.Map{Value: map[string]tengo.Object{"k": o}}
	default: // Object: no conversion
		o, _ := AnyObj("o", 1)
		g, want = o, o
	}
	got, err := tengo.FromInterface(g)
	vf.Assert(err == nil, "FromInterface accepts every supported Go type")
	vf.Assert(Same(want, got), "FromInterface yields the documented Tengo type and value")
	if shape == 5 {
		vf.Assert(got == want, "an Object is passed through unchanged")
	}
	if shape <= 2 {
		back := tengo.ToInterface(got)
		vf.Assert(normEq(g, back), "ToInterface(FromInterface(g)) is g up to the documented normalisation")
	}
	vf.Reach("roundtrip")
}

// C15_Accessors: the typed accessors of Variable follow the documented
// coercion table (docs/runtime-types.md: X = zero value).
func C15_Accessors() {
	o, t := AnyObj("o", 1)
	if t == TFloat || t == TTime {
		// String() of a symbolic float/time is outside the solver's reach: boundary values
		o = boundaryNumeric(o, "o")
	}
	if iv, ok := o.(*tengo.Int); ok {
		vf.Assume(iv.Value > -1000)
		vf.Assume(iv.Value < 1000)
	}
	if t >= TError {
		// containers are rendered by String(): concrete payloads (decimal
		// rendering of symbolic ints is outside the solver's reach)
		o = concreteContainer(t)
	}
	v, err := tengo.NewVariable("x", o)
	vf.Assert(err == nil, "NewVariable accepts an Object")
	vf.Assert(v.Name() == "x" && v.Object() == o, "Name/Object")
	vf.Assert(v.ValueType() == o.TypeName(), "ValueType is the object's type name")
	vf.Assert(v.IsUndefined() == (t == TUndefined), "IsUndefined")
	// Int / Int64 / Float / Char / Bool / String / Bytes: same table as the conversion builtins
	for _, dst := range []string{"int", "float", "char", "bool", "string", "bytes"} {
		want, ok := convExpect(dst, o)
		switch dst {
		case "int":
			var w int64
			if ok {
				w = want.(*tengo.Int).Value
			}
			vf.Assert(v.Int64() == w, "Variable.Int64 follows the coercion table")
			vf.Assert(v.Int() == int(w), "Variable.Int follows the coercion table")
		case "float":
			var w float64
			if ok {
				w = want.(*tengo.Float).Value
			}
			g := v.Float()
			vf.Assert(vf.Or(g == w, vf.And(g != g, w != w)), "Variable.Float follows the coercion table")
		case "char":
			var w rune
			if ok {
				w = want.(*tengo.Char).Value
			}
			vf.Assert(v.Char() == w, "Variable.Char follows the coercion table")
		case "bool":
			vf.Assert(v.Bool() == !o.IsFalsy(), "Variable.Bool is !IsFalsy()")
		case "string":
			w := ""
			if ok {
				w = want.(*tengo.String).Value
			}
			vf.Assert(v.String() == w, "Variable.String follows the coercion table")
		case "bytes":
			var w []byte
			if ok {
				w = want.(*tengo.Bytes).Value
			}
			vf.Assert(string(v.Bytes()) == string(w), "Variable.Bytes follows the coercion table")
		}
	}
	if arr, ok := o.(*tengo.Array); ok {
		vf.Assert(len(v.Array()) == len(arr.Value), "Variable.Array converts an array")
	} else {
		vf.Assert(v.Array() == nil, "Variable.Array is nil for non-arrays")
	}
	if m, ok := o.(*tengo.Map); ok {
		vf.Assert(len(v.Map()) == len(m.Value), "Variable.Map converts a map")
	} else {
		vf.Assert(v.Map() == nil, "Variable.Map is nil for non-maps")
	}
	vf.Assert((v.Error() != nil) == (t == TError), "Variable.Error is set exactly for error values")
	vf.Reach("accessors")
}

// C15_Undefined: a nil handed to the script arrives as undefined in every
// Add/Set/Clone/Run ordering (the script inspects the value, it does not just
// pass it through).
func C15_Undefined() {
	s := tengo.NewScript([]byte(`isu := is_undefined(x); tn := type_name(x); eq := x == undefined; ne := x != undefined; alt := x || 5; st := string(x); arr := [x]; y := x`))
	how := vf.Choice("how", 3)
	v := vf.Int64("v")
	switch how {
	case 0:
		_ = s.Add("x", nil)
	case 1:
		_ = s.Add("x", v)
	case 2:
		_ = s.Add("x", tengo.UndefinedValue)
	}
	c, err := s.Compile()
	vf.Assert(err == nil, "script inspecting a host variable compiles")
	if how == 1 {
		vf.Assert(c.Set("x", nil) == nil, "Set accepts nil")
	}
	cur := c
	for k := vf.Choice("clones", 3); k > 0; k-- {
		cur = cur.Clone()
	}
	runs := 1 + vf.Choice("runs", 2)
	for k := 0; k < runs; k++ {
		rerr, panicked, ptext := RunGuarded(cur)
		vf.Assert(!panicked, "a script inspecting an undefined host variable does not panic: "+ptext)
		vf.Assert(rerr == nil, "a script inspecting an undefined host variable runs")
		vf.Assert(cur.Get("isu").Bool() && cur.Get("eq").Bool() && !cur.Get("ne").Bool(), "nil arrives as undefined (is_undefined, ==, !=)")
		vf.Assert(cur.Get("tn").String() == "undefined", "nil arrives with type undefined")
		vf.Assert(cur.Get("alt").Int() == 5, "nil arrives falsy")
		vf.Assert(cur.Get("st").IsUndefined(), "string(undefined) is undefined")
		vf.Assert(cur.Get("y").IsUndefined() && cur.Get("x").IsUndefined() && !cur.IsDefined("x"), "reads back as undefined")
		arr, ok := cur.Get("arr").Object().(*tengo.Array)
		vf.Assert(ok && len(arr.Value) == 1 && arr.Value[0] == tengo.UndefinedValue, "stored in a container as the undefined value")
	}
	vf.Reach("undefined")
}

// ---- API histories against a small model

var histScripts = []string{
	`y := x + 1`,
	`x = x * 2; y := x`,
	`y := 7`,
	`if x > 0 { z := x; y = z } else { y = -x }`,
}

// the third name is inert (no script mentions it as a variable); it is either
// a fresh name or the name of a builtin function, which a host variable shadows
var histInert = []string{"w", "len", "format"}

// C15_History: a sequence of API calls against a map-based model: a variable
// reads as the last value the host set or the script assigned; undeclared
// names are rejected by Set and read as undefined.
func C15_History() {
	L := 3
	if Tier() > 0 {
		L = 5
	}
	src := histScripts[vf.Choice("script", len(histScripts))]
	inert := histInert[vf.Choice("inert", len(histInert))]
	histNames := []string{"x", "y", inert}
	// every script ends in a call of the host function fin, which does nothing
	// unless a RunContext step has armed it: then it cancels that run's context,
	// so the cancellation and the end of the run coincide
	s := tengo.NewScript([]byte(src + "\nfin()"))
	var armed func()
	_ = s.Add("fin", &tengo.UserFunction{Name: "fin", Value: func(args ...tengo.Object) (tengo.Object, error) {
		if armed != nil {
			armed()
		}
		return tengo.UndefinedValue, nil
	}})
	added := map[string]int64{} // model of Script variables
	// phase 1: Add/Remove before compiling
	for k := 0; k < 2; k++ {
		switch vf.Choice("pre", 3) {
		case 0:
			n := histNames[vf.Choice("pn", len(histNames))]
			v := vf.Int64("pv" + string(rune('0'+k)))
			vf.Assert(s.Add(n, v) == nil, "Add accepts an int64")
			added[n] = v
		case 1:
			n := histNames[vf.Choice("pn", len(histNames))]
			_, had := added[n]
			vf.Assert(s.Remove(n) == had, "Remove reports whether the name was defined")
			delete(added, n)
		}
	}
	if _, ok := added["y"]; !ok && (src == histScripts[3]) {
		// script 3 assigns y without declaring it: needs y from the host
	}
	c, err := s.Compile()
	_, hasX := added["x"]
	_, hasY := added["y"]
	needY := src == histScripts[3]
	declaresY := src != histScripts[3]
	if !hasX && src != histScripts[2] {
		vf.Assert(err != nil, "script using x fails to compile when x was not added (or was removed)")
		vf.Reach("hist-nocompile")
		return
	}
	if needY && !hasY {
		vf.Assert(err != nil, "assignment to an undeclared variable fails to compile")
		vf.Reach("hist-nocompile")
		return
	}
	if declaresY && hasY {
		vf.Assert(err != nil, "':=' on a variable the host already declared is a redeclaration")
		vf.Reach("hist-nocompile")
		return
	}
	vf.Assert(err == nil, "script compiles")
	// model of the compiled globals
	model := map[string]int64{}
	defined := map[string]bool{}
	for n, v := range added {
		model[n] = v
		defined[n] = true
	}
	ran := false
	runModel := func() {
		x := model["x"]
		switch src {
		case histScripts[0]:
			model["y"] = x + 1
		case histScripts[1]:
			model["x"] = x * 2
			model["y"] = x * 2
		case histScripts[2]:
			model["y"] = 7
		case histScripts[3]:
			if x > 0 {
				model["y"] = x
			} else {
				model["y"] = -x
			}
		}
		defined["y"] = true
		ran = true
	}
	cur := c
	for k := 0; k < L; k++ {
		switch vf.Choice("op", 6) {
		case 6: // RunContext with a context that is cancelled just as the script finishes
			rounds := 1
			if !vf.Symbolic() {
				rounds = 40 // natively which pending event RunContext sees first is up to the scheduler
			}
			for r := 0; r < rounds; r++ {
				ctx := liveCtx()
				armed = func() {
					ctx.err = errCancelled
					close(ctx.done)
				}
				var rerr error
				res := vf.Guard(func() { rerr = cur.RunContext(ctx) }, 6000000)
				armed = nil
				vf.Assert(res == 0 && (rerr == nil || rerr == errCancelled), "a run cancelled as it finishes returns its own result or the context's error")
				runModel() // every statement before fin() was executed
			}
		case 5: // Set with a Go value that has no Tengo counterpart: rejected, nothing changes
			n := histNames[vf.Choice("bn", 2)]
			bad := []interface{}{float32(1.5), uint(7), []string{"a"}, struct{}{}, map[int]int{1: 2}}
			e := cur.Set(n, bad[k%len(bad)])
			vf.Assert(e != nil, "Set rejects a value that cannot be converted")
		case 0: // Set
			n := histNames[vf.Choice("sn", len(histNames))]
			v := vf.Int64("sv" + string(rune('0'+k)))
			e := cur.Set(n, v)
			known := defined[n] || (n == "y")
			if n == inert {
				known = defined[inert]
			}
			vf.Assert((e == nil) == known, "Set succeeds exactly for names the script declares")
			if e == nil {
				model[n] = v
				if n == "y" {
					defined["y"] = true
				}
			}
		case 1: // Run
			rerr, panicked, _ := RunGuarded(cur)
			vf.Assert(rerr == nil && !panicked, "script runs")
			runModel()
		case 2: // Get
			n := histNames[vf.Choice("gn", len(histNames))]
			got := cur.Get(n)
			if defined[n] {
				vf.Assert(got.Int64() == model[n], "Get reads the last value set by host or script")
			} else {
				vf.Assert(got.IsUndefined(), "Get of a name without a value reads as undefined")
			}
			vf.Assert(cur.IsDefined(n) == defined[n], "IsDefined")
		case 3: // Clone: the clone starts from the same values and is independent
			cl := cur.Clone()
			n := histNames[vf.Choice("cn", 2)]
			if defined[n] {
				vf.Assert(cl.Get(n).Int64() == model[n], "a clone starts with the current values")
				_ = cl.Set(n, model[n]+1)
				vf.Assert(cur.Get(n).Int64() == model[n], "setting a variable of a clone does not affect the original")
				_ = cl.Set(n, model[n])
			}
			if vf.Choice("continue-on-clone", 2) == 1 {
				// the rest of the history happens to the clone
				cur = cl
			}
		case 4: // GetAll
			for _, v := range cur.GetAll() {
				n := v.Name()
				if n == "fin" {
					continue
				}
				if defined[n] {
					vf.Assert(v.Int64() == model[n], "GetAll reads the last values")
				} else {
					vf.Assert(v.IsUndefined(), "GetAll: declared but unassigned is undefined")
				}
			}
		}
	}
	_ = ran
	vf.Reach("history")
}

// C15_CancelledRun: a fixed history around a run whose context is cancelled
// just as the script finishes (its last statement calls a host function that
// cancels the context): Set, RunContext (cancelled at the finish), Set, Run,
// Get - the variable reads as the last value the script assigned in the LAST
// run, on the object itself and on a clone taken afterwards.
func C15_CancelledRun() {
	src := histScripts[vf.Choice("script", 2)]
	s := tengo.NewScript([]byte(src + "\nfin()"))
	var armed func()
	_ = s.Add("fin", &tengo.UserFunction{Name: "fin", Value: func(args ...tengo.Object) (tengo.Object, error) {
		if armed != nil {
			armed()
		}
		return tengo.UndefinedValue, nil
	}})
	v0, v1 := vf.Int64("v0"), vf.Int64("v1")
	_ = s.Add("x", v0)
	c, err := s.Compile()
	vf.Assert(err == nil, "script compiles")
	useClone := vf.Choice("clone", 2) == 1
	rounds := 1
	if !vf.Symbolic() {
		rounds = 60 // natively which pending event RunContext sees first is up to the scheduler
	}
	for r := 0; r < rounds; r++ {
		ctx := liveCtx()
		armed = func() {
			ctx.err = errCancelled
			close(ctx.done)
		}
		var rerr error
		res := vf.Guard(func() { rerr = c.RunContext(ctx) }, 6000000)
		armed = nil
		vf.Assert(res == 0 && (rerr == nil || rerr == errCancelled), "a run cancelled as it finishes returns its own result or the context's error")
		cur := c
		if useClone {
			cur = c.Clone()
		}
		vf.Assert(cur.Set("x", v1) == nil, "Set after the cancelled run")
		rerr2, panicked, _ := RunGuarded(cur)
		vf.Assert(rerr2 == nil && !panicked, "a run after the cancelled run succeeds")
		want := v1 + 1
		if src == histScripts[1] {
			want = v1 * 2
		}
		vf.Assert(cur.Get("y").Int64() == want, "after Set and Run the variable reads as the value the script assigned in that run")
		_ = c.Set("x", v0)
	}
	vf.Reach("cancelledrun")
}

// numeric-looking strings at and beyond the int64 / float64 range and in the
// spellings strconv accepts or rejects with other bases
var accessorStrings = []string{"9223372036854775807", "9223372036854775808", "-9223372036854775808", "-9223372036854775809",
	"99999999999999999999999", "1e999", "-1e999", "1e-999", "1.7976931348623157e308", "1.7976931348623159e308", "0x10", "010", "0b11", "1_000",
	"+5", " 1", "1 ", "", "NaN", "Inf", "-Inf", "infinity", "1e3", ".5", "5.", "0x1p4", "१२"}

// C15_AccessorStrings: the typed accessors on string values that look numeric:
// a decimal int64 / a float64 in Go's syntax converts, anything else - also a
// well-formed number outside the range - reads as the zero value.
func C15_AccessorStrings() {
	text := accessorStrings[vf.Choice("s", len(accessorStrings))]
	v, err := tengo.NewVariable("x", &tengo.String{Value: text})
	vf.Assert(err == nil, "NewVariable accepts a string")
	var wi int64
	if n, perr := strconv.ParseInt(text, 10, 64); perr == nil {
		wi = n
	}
	var wf float64
	if f, perr := strconv.ParseFloat(text, 64); perr == nil {
		wf = f
	}
	vf.Assert(v.Int64() == wi && v.Int() == int(wi), "Variable.Int/Int64 of `"+text+"`: the decimal int64 it spells, else 0")
	g := v.Float()
	vf.Assert(g == wf || (g != g && wf != wf), "Variable.Float of `"+text+"`: the float64 it spells, else 0")
	// through a script variable and a clone
	s := tengo.NewScript([]byte(`y := x`))
	_ = s.Add("x", text)
	c, cerr := s.Compile()
	vf.Assert(cerr == nil && c.Run() == nil, "script runs")
	vf.Assert(c.Get("y").Int64() == wi && c.Clone().Get("y").Int64() == wi, "the same through a script variable and a clone: `"+text+"`")
	vf.Reach("accessorstrings")
}
