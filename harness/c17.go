package h

// C17 — format() agrees with Go's fmt for every documented verb.
// Both formatters are executed by the engine: tengo.Format and the real
// fmt.Sprintf (its non-reflective paths for int64/float64/string/bool/[]byte).

import (
	"fmt"

	"github.com/d5/tengo/v2"
	"verif/h/vf"
)

type fmtArg struct {
	name string
	obj  tengo.Object
	gov  interface{}
}

func fmtArgs() []fmtArg {
	return []fmtArg{
		{"int0", &tengo.Int{Value: 0}, int64(0)},
		{"int42", &tengo.Int{Value: 42}, int64(42)},
		{"int-7", &tengo.Int{Value: -7}, int64(-7)},
		{"intmin", &tengo.Int{Value: -9223372036854775808}, int64(-9223372036854775808)},
		{"int-cp", &tengo.Int{Value: 0x1F600}, int64(0x1F600)},
		{"f1.5", &tengo.Float{Value: 1.5}, float64(1.5)},
		{"f-0", &tengo.Float{Value: negZero()}, negZero()},
		{"f-2.5", &tengo.Float{Value: -2.5}, float64(-2.5)},
		{"f1e21", &tengo.Float{Value: 1e21}, float64(1e21)},
		{"f1e-7", &tengo.Float{Value: 1e-7}, float64(1e-7)},
		{"fnan", &tengo.Float{Value: nan()}, nan()},
		{"finf", &tengo.Float{Value: inf()}, inf()},
		{"str", &tengo.String{Value: "héy"}, "héy"},
		{"str-empty", &tengo.String{Value: ""}, ""},
		{"str-bad", &tengo.String{Value: "a\xffb\n"}, "a\xffb\n"},
		{"true", tengo.TrueValue, true},
		{"false", tengo.FalseValue, false},
		{"bytes", &tengo.Bytes{Value: []byte{0, 'a', 255}}, []byte{0, 'a', 255}},
	}
}

func negZero() float64 { z := 0.0; return -z }
func nan() float64     { z := 0.0; return z / z }
func inf() float64     { z := 0.0; return 1 / z }

// directive alphabet of the documented grammar
func inAlphabet(c byte) bool {
	switch c {
	case '#', '0', '+', '-', ' ', '.', '*', '[', ']', '1', '2', '3', '9',
		'v', 'T', 't', 'b', 'c', 'd', 'o', 'O', 'q', 'x', 'X', 'U', 'e', 'E', 'f', 'F', 'g', 'G', 's', '%':
		return true
	}
	return false
}

// excluded reports the combinations the property excludes (Go-version skew
// of the port): %q on ints that are not code points, '#' with %x/%X on floats.
func excludedFmt(dir []byte, a fmtArg) bool {
	hasSharp := false
	body := append(append([]byte(nil), dir...), '>')
	vi := verbIndex(body)
	verb := body[vi]
	for _, c := range body[:vi] {
		if c == '#' {
			hasSharp = true
		}
	}
	if _, ok := a.gov.(int64); ok && verb == 'q' {
		v := a.gov.(int64)
		if v < 0 || v > 0x10FFFF {
			return true
		}
	}
	if _, ok := a.gov.(float64); ok && hasSharp && (verb == 'x' || verb == 'X') {
		return true
	}
	return false
}

// verbIndex is the position of the verb of the directive whose text (after
// the '%') starts b, found the way fmt's doFormat scans a directive: flags,
// [n], width (* or digits), '.' precision ([n], * or digits), [n], verb.
// Returns len(b) when the text ends before a verb (%!(NOVERB)).
func verbIndex(b []byte) int {
	i := 0
	for i < len(b) && (b[i] == '#' || b[i] == '0' || b[i] == '+' || b[i] == '-' || b[i] == ' ') {
		i++
	}
	digits := func() bool {
		st := i
		for i < len(b) && b[i] >= '0' && b[i] <= '9' {
			i++
		}
		return i > st
	}
	// argNum mirrors (*pp).argNumber/parseArgNumber: reports "found"
	argNum := func() bool {
		if i >= len(b) || b[i] != '[' {
			return false
		}
		if len(b)-i < 3 {
			i++
			return false
		}
		for j := i + 1; j < len(b); j++ {
			if b[j] == ']' {
				ok := j > i+1
				for k := i + 1; k < j; k++ {
					if b[k] < '0' || b[k] > '9' {
						ok = false
					}
				}
				i = j + 1
				return ok
			}
		}
		i++
		return false
	}
	afterIndex := argNum()
	if i < len(b) && b[i] == '*' {
		i++
		afterIndex = false
	} else {
		digits()
	}
	if i < len(b) && b[i] == '.' {
		i++
		afterIndex = argNum()
		if i < len(b) && b[i] == '*' {
			i++
			afterIndex = false
		} else {
			digits()
		}
	}
	if !afterIndex {
		argNum()
	}
	return i
}

func indexOf(s, sub string) int {
	for i := 0; i+len(sub) <= len(s); i++ {
		if s[i:i+len(sub)] == sub {
			return i
		}
	}
	return -1
}

func argKind(a fmtArg) string {
	switch a.gov.(type) {
	case int64:
		return "int"
	case float64:
		return "float"
	case string:
		return "string"
	case bool:
		return "bool"
	}
	return "bytes"
}

// fmtMismatch reports a difference from fmt.Sprintf. The recorded deviations
// of the port (known findings F8a-d) are recognised by an exact model of what
// the port does instead, computed with Go's own %s formatting:
//
//	%v  formats Object.String() as %s would (same flags, width, precision)
//	%T  formats Object.TypeName() as %s would
//	a verb that does not apply prints %!verb(String()=<%v as above>) where
//	    fmt prints the Go type name before the '='
//	an integer verb (b c o O U) applied to bytes prints nothing
//
// A result that is neither fmt's nor the model's is a new violation; the part
// of the message before " | " names the class.
func fmtMismatch(want, got string, dir []byte, stars []interface{}, a fmtArg) {
	if contains(want, "%!(EXTRA") {
		vf.Stop() // rendering of surplus arguments is excluded by the property
	}
	k := argKind(a)
	// the text after '%' is dir followed by the closing '>' of the harness's
	// format; without a verb byte in dir the '>' itself is taken as the verb.
	// Directives that take no argument ("%%") are rendered literally and the
	// scan continues at the next '%'.
	body := append(append([]byte(nil), dir...), '>')
	out := "<"
	vi := verbIndex(body)
	for vi < len(body) && body[vi] == '%' {
		out += "%"
		nxt := -1
		for j := vi + 1; j < len(body); j++ {
			if body[j] == '%' {
				nxt = j
				break
			}
		}
		if nxt < 0 {
			vi = len(body)
			break
		}
		out += string(body[vi+1 : nxt])
		body = body[nxt+1:]
		vi = verbIndex(body)
	}
	generic := "format of a " + k + " differs from fmt.Sprintf and from the recorded deviations | arg " + a.name + " got " + got + " want " + want
	if vi >= len(body) {
		vf.Fail(generic)
	}
	verb := body[vi]
	pre := string(body[:vi])
	// the text after the directive is rendered by fmt itself (it may hold
	// further directives, which find no argument left)
	vf.RealFmt(true)
	rest := fmt.Sprintf(string(body[vi+1:]))
	vf.RealFmt(false)
	asS := func(text string) string {
		args := append(append([]interface{}(nil), stars...), text)
		vf.RealFmt(true)
		r := fmt.Sprintf("%"+pre+"s", args...)
		vf.RealFmt(false)
		// a bad '*' operand is reported once, where the directive is parsed
		for _, p := range []string{"%!(BADPREC)", "%!(BADWIDTH)"} {
			if len(r) >= len(p) && r[:len(p)] == p {
				r = r[len(p):]
			}
		}
		return r
	}
	tail := " | arg " + a.name + " got " + got + " want " + want
	switch {
	case verb == 'v':
		if got == out+asS(a.obj.String())+rest {
			vf.Fail("%v formats String() like %s instead of the default format of a " + k + tail)
		}
	case verb == 'T':
		if got == out+asS(a.obj.TypeName())+rest {
			vf.Fail("%T prints tengo's type name of a " + k + tail)
		}
	case k == "bytes" && verb != 'd' && verb != 's' && verb != 'x' && verb != 'X' && verb != 'q':
		// fmt prints the elements (with integer verbs) or a bad-verb text per
		// element; the port's fmtBytes has no default case
		idx := indexOf(want, "[")
		if idx >= 0 && got == want[:idx]+rest {
			vf.Fail("a verb other than v d s x X q applied to a bytes value prints nothing" + tail)
		}
	default:
		bad := string([]byte{'%', '!', verb, '('})
		idx := indexOf(want, bad)
		if idx >= 0 && got == want[:idx]+bad+a.obj.String()+"="+asS(a.obj.String())+")"+rest {
			vf.Fail("bad-verb text names the value instead of the Go type of a " + k + tail)
		}
	}
	vf.Fail(generic)
}

// C17_Directive: "%" followed by 1..3 bytes of the directive alphabet, one
// (or, with '*', two) arguments of the five directly mapped types: the text
// equals fmt.Sprintf's.
func C17_Directive() {
	maxN := 2
	if Tier() > 0 {
		maxN = 3
	}
	n := 1 + vf.Choice("n", maxN)
	dir := vf.Bytes("dir", n)
	for k := 0; k < n; k++ {
		vf.Assume(inAlphabet(dir[k]))
	}
	args := fmtArgs()
	a := args[vf.Choice("arg", len(args))]
	if excludedFmt(dir, a) {
		vf.Stop()
	}
	format := "<%" + string(dir) + ">"
	// '*' takes its width/precision from an int argument placed before the value
	stars := 0
	for _, c := range dir {
		if c == '*' {
			stars++
		}
	}
	var objs []tengo.Object
	var govs []interface{}
	for k := 0; k < stars; k++ {
		w := vf.Choice("w", 5) - 2 // -2..2
		objs = append(objs, &tengo.Int{Value: int64(w)})
		govs = append(govs, w)
	}
	objs = append(objs, a.obj)
	govs = append(govs, a.gov)
	var got string
	var err error
	res := vf.Guard(func() { got, err = tengo.Format(format, objs...) }, 3000000)
	vf.Assert(res == 0, "format terminates without panic: "+vf.LastGuard())
	vf.Assert(err == nil, "format of a short directive does not hit the string limit")
	vf.RealFmt(true)
	want := fmt.Sprintf(format, govs...)
	vf.RealFmt(false)
	if got != want {
		fmtMismatch(want, got, dir, govs[:stars], a)
	}
	vf.Reach("directive")
}

// C17_Total: arbitrary format bytes and arguments: formatting terminates with
// a string or the string-limit error, never a panic.
func C17_Total() {
	n := 1 + vf.Choice("n", 3)
	f := vf.Bytes("f", n)
	args := fmtArgs()
	a := args[vf.Choice("arg", len(args))]
	nargs := vf.Choice("nargs", 3)
	var objs []tengo.Object
	for k := 0; k < nargs; k++ {
		objs = append(objs, a.obj)
	}
	format := "%" + string(f)
	res := vf.Guard(func() { _, _ = tengo.Format(format, objs...) }, 3000000)
	vf.Assert(res == 0, "format terminates with a string or an error for arbitrary format bytes: "+vf.LastGuard())
	vf.Reach("total")
}

var idxFormats = []string{"%[2]d %[1]d", "%[1]d %d", "%d %d %d", "%[3]d", "%[1]*d", "%[2]*[1]d", "%d %[1]d", "%[0]d", "%[x]d", "%[2]d", "%.[2]d", "%-5d|", "%05d", "%+d", "% d", "%x %X %o %O %b", "%08.3f", "%+.2e", "%10s|%-10s|", "%.2s", "%5t", "%U %#U", "%c", "%q"}

// C17_Indexed: explicit argument indexes, missing arguments, flag/width/
// precision combinations with symbolic integer and string arguments of the
// formats that need no decimal rendering of a symbolic value.
func C17_Indexed() {
	f := idxFormats[vf.Choice("fmt", len(idxFormats))]
	kind := vf.Choice("kind", 3)
	var objs []tengo.Object
	var govs []interface{}
	desc := ""
	is := []int64{0, 7, -12, 65, 1234567}
	ss := []string{"", "a", "héllo wörld"}
	for k := 0; k < 2; k++ {
		switch kind {
		case 0:
			ci := vf.Choice("i", len(is))
			desc += string(rune('0' + ci))
			v := is[ci]
			objs, govs = append(objs, &tengo.Int{Value: v}), append(govs, v)
		case 1:
			ci := vf.Choice("s", len(ss))
			desc += string(rune('0' + ci))
			v := ss[ci]
			objs, govs = append(objs, &tengo.String{Value: v}), append(govs, v)
		default:
			fs := []float64{0, 1.5, -2.25, 1e21}
			ci := vf.Choice("f", len(fs))
			desc += string(rune('0' + ci))
			v := fs[ci]
			objs, govs = append(objs, &tengo.Float{Value: v}), append(govs, v)
		}
	}
	var got string
	var err error
	res := vf.Guard(func() { got, err = tengo.Format(f, objs...) }, 3000000)
	vf.Assert(res == 0 && err == nil, "format returns: "+vf.LastGuard())
	vf.RealFmt(true)
	want := fmt.Sprintf(f, govs...)
	vf.RealFmt(false)
	if contains(want, "%!(EXTRA") {
		vf.Stop() // rendering of surplus arguments is excluded by the property
	}
	if kind == 0 && contains(f, "%q") {
		vf.Stop()
	}
	if got != want {
		kinds := []string{"int", "string", "float"}
		// every value here is concrete: the message identifies the exact call
		vf.Fail("format differs from fmt.Sprintf | `" + f + "` with " + kinds[kind] + " arguments #" + desc + " got " + got + " want " + want)
	}
	vf.Reach("indexed")
}

// ---- '*' operands as solver variables

// starFormats: one '*' (width or precision) per directive; kinds = argument
// kinds the verb applies to (i int, f float, s string, y bytes).
var starFormats = []struct{ f, kinds string }{
	{"%*d", "i"}, {"%-*d", "i"}, {"%0*d", "i"}, {"%.*d", "i"}, {"%+.*d", "i"}, {"%#.*x", "isy"}, {"%.*x", "isy"}, {"% .*X", "sy"},
	{"%.*U", "i"}, {"%#.*U", "i"}, {"%#*U", "i"}, {"%*c", "i"}, {"%-*q", "is"}, {"%.*o", "i"}, {"%#.*b", "i"},
	{"%*s", "sy"}, {"%-*s", "s"}, {"%.*s", "sy"}, {"%.*q", "s"}, {"%0*s", "s"},
	{"%.*f", "f"}, {"%*.1f", "f"}, {"%+0*e", "f"}, {"%-*g", "f"}, {"%.*g", "f"}, {"%#.*e", "f"},
	{"%*t", "b"}, {"%-*v", "b"},
}

func kindLetter(a fmtArg) byte {
	switch a.gov.(type) {
	case int64:
		return 'i'
	case float64:
		return 'f'
	case string:
		return 's'
	case bool:
		return 'b'
	}
	return 'y'
}

// C17_Star: the width or precision is taken from a '*' operand that is a
// solver variable in -70..70 (beyond every internal scratch-buffer size of the
// formatter: 68 bytes), the value from the boundary set, restricted to the
// argument kinds the verb applies to: same text as fmt.Sprintf, no panic.
func C17_Star() {
	sf := starFormats[vf.Choice("fmt", len(starFormats))]
	args := fmtArgs()
	a := args[vf.Choice("arg", len(args))]
	if !contains(sf.kinds, string(kindLetter(a))) {
		vf.Stop()
	}
	dir := []byte(sf.f[1:])
	if excludedFmt(dir, a) {
		vf.Stop()
	}
	w := vf.Int64("w")
	vf.Assume(w >= -70)
	vf.Assume(w <= 70)
	format := "<" + sf.f + ">"
	var got string
	var err error
	res := vf.Guard(func() { got, err = tengo.Format(format, &tengo.Int{Value: w}, a.obj) }, 3000000)
	vf.Assert(res == 0, "format with a '*' operand terminates without panic: "+sf.f+" "+a.name+": "+vf.LastGuard())
	vf.Assert(err == nil, "format with a '*' operand of at most 70 does not hit the string limit")
	vf.RealFmt(true)
	want := fmt.Sprintf(format, int(w), a.gov)
	vf.RealFmt(false)
	if got != want {
		fmtMismatch(want, got, dir, []interface{}{int(w)}, a)
	}
	vf.Reach("star")
}

// ---- state carried from one directive (or one call) to the next

// seqFirst: directives that leave width/precision/flag state behind.
var seqFirst = []string{"%12d", "%-9d", "%*d", "%.7d", "%015d", "%+9.3d", "%[1]*d", "%#12x", "% 11d", "%8.2d"}

// seqSecond: directives without width and precision (flags and a verb only:
// the formatter's fast path), and plain ones.
var seqSecond = []string{"%0f", "%+0g", "% 0e", "%0d", "%-0d", "%+d", "%0x", "%#0o", "%0s", "%0v", "%f", "%d", "%s", "%-s", "%0q", "%+0.0f", "%0c", "%0U"}

// C17_Sequence: formatter state (flags, width, precision are per-directive;
// printers are recycled through a pool) must not leak from one directive to
// the next, nor from one call to the next: D1|D2 in one call, and D1 then D2
// in two consecutive calls, print what fmt.Sprintf prints.
func C17_Sequence() {
	d1 := seqFirst[vf.Choice("d1", len(seqFirst))]
	d2 := seqSecond[vf.Choice("d2", len(seqSecond))]
	is := []int64{7, -12, 1234567}
	v1 := is[vf.Choice("v1", len(is))]
	args := fmtArgs()
	a := args[vf.Choice("arg", len(args))]
	body := append([]byte(d2[1:]), '>')
	verb := body[verbIndex(body)]
	// the verb of D2 must apply to the argument kind (bad-verb texts are the
	// recorded deviation F8a, %v is F8b: both have their own harness)
	ok := false
	switch kindLetter(a) {
	case 'i':
		ok = contains("dxoqcU", string(verb))
	case 'f':
		ok = contains("fge", string(verb))
	case 's':
		ok = contains("sxq", string(verb))
	case 'b':
		ok = false
	case 'y':
		ok = contains("sx", string(verb))
	}
	if !ok || excludedFmt([]byte(d2[1:]), a) {
		vf.Stop()
	}
	var o1 []tengo.Object
	var g1 []interface{}
	if contains(d1, "*") {
		o1, g1 = append(o1, &tengo.Int{Value: 14}), append(g1, 14)
	}
	o1, g1 = append(o1, &tengo.Int{Value: v1}), append(g1, v1)
	twoCalls := vf.Choice("two-calls", 2) == 1
	var got, want string
	var err error
	if twoCalls {
		var gotA, gotB string
		res := vf.Guard(func() {
			gotA, err = tengo.Format(d1, o1...)
			if err == nil {
				gotB, err = tengo.Format("<"+d2+">", a.obj)
			}
		}, 3000000)
		vf.Assert(res == 0 && err == nil, "two consecutive format calls return: "+vf.LastGuard())
		got = gotA + "|" + gotB
		vf.RealFmt(true)
		want = fmt.Sprintf(d1, g1...) + "|" + fmt.Sprintf("<"+d2+">", a.gov)
		vf.RealFmt(false)
	} else {
		f := d1 + "|<" + d2 + ">"
		res := vf.Guard(func() { got, err = tengo.Format(f, append(o1, a.obj)...) }, 3000000)
		vf.Assert(res == 0 && err == nil, "format with two directives returns: "+vf.LastGuard())
		vf.RealFmt(true)
		want = fmt.Sprintf(f, append(g1, a.gov)...)
		vf.RealFmt(false)
	}
	if got != want {
		how := "in one call"
		if twoCalls {
			how = "in two consecutive calls"
		}
		vf.Fail("a directive after another directive " + how + " prints what it prints alone (as fmt.Sprintf) | `" + d1 + "` then `" + d2 + "` arg " + a.name + " got " + got + " want " + want)
	}
	vf.Reach("sequence")
}


// ---- two flags, a width, a verb

func isFlagByte(c byte) bool { return c == '#' || c == '0' || c == '+' || c == '-' || c == ' ' }

func isVerbByte(c byte) bool {
	switch c {
	case 'v', 't', 'b', 'c', 'd', 'o', 'O', 'q', 'x', 'X', 'U', 'e', 'E', 'f', 'F', 'g', 'G', 's':
		return true
	}
	return false
}

// C17_FlagPairs: '%' + two symbolic flag bytes + a width ('*' with operand 12
// or -12, or the literal 12.2) + a symbolic verb byte, arguments of every
// kind (signed and unsigned numbers): every pair of flags interacts with the
// width, the sign and the verb as in fmt.Sprintf.
func C17_FlagPairs() {
	f1, f2, v := vf.Byte("f1"), vf.Byte("f2"), vf.Byte("verb")
	vf.Assume(isFlagByte(f1))
	vf.Assume(isFlagByte(f2))
	vf.Assume(isVerbByte(v))
	names := []string{"int-7", "int42", "f-2.5", "f1.5", "fnan", "str", "bytes", "true"}
	name := names[vf.Choice("arg", len(names))]
	var a fmtArg
	for _, x := range fmtArgs() {
		if x.name == name {
			a = x
		}
	}
	// the verb applies to the argument's kind (a verb that does not apply gives
	// the bad-verb text, whose recorded deviation F8a C17_Directive covers; %v is F8b)
	applies := map[byte]string{'i': "dboOxXcqU", 'f': "eEfFgG", 's': "sqxX", 'y': "sqxX", 'b': "t"}[kindLetter(a)]
	ok := false
	for k := 0; k < len(applies); k++ {
		ok = vf.Or(ok, v == applies[k])
	}
	vf.Assume(ok)
	shape := vf.Choice("shape", 3)
	var dir []byte
	var objs []tengo.Object
	var govs []interface{}
	switch shape {
	case 0, 1:
		dir = []byte{f1, f2, '*', v}
		w := 12
		if shape == 1 {
			w = -12
		}
		objs, govs = append(objs, &tengo.Int{Value: int64(w)}), append(govs, w)
	default:
		dir = []byte{f1, f2, '1', '2', '.', '2', v}
	}
	if excludedFmt(dir, a) {
		vf.Stop()
	}
	objs, govs = append(objs, a.obj), append(govs, a.gov)
	format := "<%" + string(dir) + ">"
	var got string
	var err error
	res := vf.Guard(func() { got, err = tengo.Format(format, objs...) }, 3000000)
	vf.Assert(res == 0 && err == nil, "format with two flags and a width returns: "+vf.LastGuard())
	vf.RealFmt(true)
	want := fmt.Sprintf(format, govs...)
	vf.RealFmt(false)
	if got != want {
		fmtMismatch(want, got, dir, govs[:len(govs)-1], a)
	}
	vf.Reach("flagpairs")
}

// ---- operands of '*' that are rejected, or are not ints

var starOperandFormats = []string{"<%*d|%d>", "<%.*d|%d>", "<%-*x|%x>", "<%[1]*d|%d>", "<%+*d|%o>"}

// C17_StarOperand: a '*' operand outside the accepted range (magnitude above
// 10^6), or not an int at all, is reported once (%!(BADWIDTH) / %!(BADPREC)),
// is consumed, and the following operands are formatted by the following
// directives, as fmt.Sprintf does.
func C17_StarOperand() {
	f := starOperandFormats[vf.Choice("fmt", len(starOperandFormats))]
	ops := []fmtArg{
		{"int 1000001", &tengo.Int{Value: 1000001}, 1000001},
		{"int -1000001", &tengo.Int{Value: -1000001}, -1000001},
		{"int min", &tengo.Int{Value: -9223372036854775808}, -9223372036854775808},
		{"int 5", &tengo.Int{Value: 5}, 5},
		{"string x", &tengo.String{Value: "x"}, "x"},
		{"bytes", &tengo.Bytes{Value: []byte{1}}, []byte{1}},
		{"string 3", &tengo.String{Value: "3"}, "3"},
		{"float 3.5", &tengo.Float{Value: 3.5}, 3.5},
		{"bool true", tengo.TrueValue, true},
	}
	op := ops[vf.Choice("operand", len(ops))]
	x := vf.Int64("x")
	vf.Assume(x >= -9)
	vf.Assume(x <= 9)
	y := int64(42)
	var got string
	var err error
	res := vf.Guard(func() { got, err = tengo.Format(f, op.obj, &tengo.Int{Value: x}, &tengo.Int{Value: y}) }, 3000000)
	vf.Assert(res == 0 && err == nil, "format with a rejected '*' operand returns: "+vf.LastGuard())
	vf.RealFmt(true)
	want := fmt.Sprintf(f, op.gov, x, y)
	vf.RealFmt(false)
	if got != want {
		// recorded deviation: the port converts a non-int '*' operand with its
		// own coercion (float 3.5 -> 3, "3" -> 3, true -> 1) where fmt rejects it
		if _, isInt := op.obj.(*tengo.Int); !isInt {
			if n, ok := tengo.ToInt64(op.obj); ok {
				vf.RealFmt(true)
				model := fmt.Sprintf(f, int(n), x, y)
				vf.RealFmt(false)
				if got == model {
					vf.Fail("a '*' operand that is not an int is converted instead of rejected | `" + f + "` operand " + op.name)
				}
			}
		}
		vf.Fail("a rejected or non-int '*' operand is handled as fmt.Sprintf handles it | `" + f + "` operand " + op.name + " got " + got + " want " + want)
	}
	vf.Reach("staroperand")
}
