package h

// C17 — format() agrees with Go's fmt for every documented verb.
// Both formatters are executed by the engine: tengo.Format and the real
// fmt.Sprintf (its non-reflective paths for int64/float64/string/bool/[]byte).

import (
	"fmt"

	"github.com/d5/tengo/v2"
	"verif/h/vf"
)

type fmtArg struct {
	name string
	obj  tengo.Object
	gov  interface{}
}

func fmtArgs() []fmtArg {
	return []fmtArg{
		{"int0", &tengo.Int{Value: 0}, int64(0)},
		{"int42", &tengo.Int{Value: 42}, int64(42)},
		{"int-7", &tengo.Int{Value: -7}, int64(-7)},
		{"intmin", &tengo.Int{Value: -9223372036854775808}, int64(-9223372036854775808)},
		{"int-cp", &tengo.Int{Value: 0x1F600}, int64(0x1F600)},
		{"f1.5", &tengo.Float{Value: 1.5}, float64(1.5)},
		{"f-0", &tengo.Float{Value: negZero()}, negZero()},
		{"f1e21", &tengo.Float{Value: 1e21}, float64(1e21)},
		{"f1e-7", &tengo.Float{Value: 1e-7}, float64(1e-7)},
		{"fnan", &tengo.Float{Value: nan()}, nan()},
		{"finf", &tengo.Float{Value: inf()}, inf()},
		{"str", &tengo.String{Value: "héy"}, "héy"},
		{"str-empty", &tengo.String{Value: ""}, ""},
		{"str-bad", &tengo.String{Value: "a\xffb\n"}, "a\xffb\n"},
		{"true", tengo.TrueValue, true},
		{"false", tengo.FalseValue, false},
		{"bytes", &tengo.Bytes{Value: []byte{0, 'a', 255}}, []byte{0, 'a', 255}},
	}
}

func negZero() float64 { z := 0.0; return -z }
func nan() float64     { z := 0.0; return z / z }
func inf() float64     { z := 0.0; return 1 / z }

// directive alphabet of the documented grammar
func inAlphabet(c byte) bool {
	switch c {
	case '#', '0', '+', '-', ' ', '.', '*', '[', ']', '1', '2', '3', '9',
		'v', 'T', 't', 'b', 'c', 'd', 'o', 'O', 'q', 'x', 'X', 'U', 'e', 'E', 'f', 'F', 'g', 'G', 's', '%':
		return true
	}
	return false
}

// excluded reports the combinations the property excludes (Go-version skew
// of the port): %q on ints that are not code points, '#' with %x/%X on floats.
func excludedFmt(dir []byte, a fmtArg) bool {
	hasSharp := false
	vi := verbIndex(dir)
	verb := dir[vi]
	for _, c := range dir[:vi] {
		if c == '#' {
			hasSharp = true
		}
	}
	if _, ok := a.gov.(int64); ok && verb == 'q' {
		v := a.gov.(int64)
		if v < 0 || v > 0x10FFFF {
			return true
		}
	}
	if _, ok := a.gov.(float64); ok && hasSharp && (verb == 'x' || verb == 'X') {
		return true
	}
	return false
}

// verbIndex is the position of the directive's verb: the first byte that is
// not a flag, digit, '.', '*' or argument-index bracket (the bytes after it are
// literal text); the last byte when there is none.
func verbIndex(dir []byte) int {
	for k, c := range dir {
		switch c {
		case '#', '0', '+', '-', ' ', '.', '*', '[', ']', '1', '2', '3', '9':
		default:
			return k
		}
	}
	return len(dir) - 1
}

func argKind(a fmtArg) string {
	switch a.gov.(type) {
	case int64:
		return "int"
	case float64:
		return "float"
	case string:
		return "string"
	case bool:
		return "bool"
	}
	return "bytes"
}

// fmtMismatch reports a difference, classified so that known deviations can
// be told apart from new ones (the part before " | " identifies the class).
func fmtMismatch(want, got string, verb byte, emptyLen int, a fmtArg) {
	if contains(want, "%!(EXTRA") {
		vf.Stop() // rendering of surplus arguments is excluded by the property
	}
	k := argKind(a)
	switch {
	case verb == 'v':
		vf.Fail("%v (default format) of a " + k + " differs from fmt's | arg " + a.name + " got " + got + " want " + want)
	case verb == 'T':
		vf.Fail("%T of a " + k + " differs from Go's type name | arg " + a.name + " got " + got + " want " + want)
	case k == "bytes" && len(got) == emptyLen && (verb == 'b' || verb == 'c' || verb == 'o' || verb == 'O' || verb == 'U'):
		vf.Fail("integer verb applied to a bytes value prints nothing | arg " + a.name + " got " + got + " want " + want)
	case contains(want, "%!"):
		vf.Fail("bad-verb / missing-argument text for a " + k + " differs from fmt's | arg " + a.name + " got " + got + " want " + want)
	}
	vf.Fail("format of a " + k + " differs from fmt.Sprintf | arg " + a.name + " got " + got + " want " + want)
}

// C17_Directive: "%" followed by 1..3 bytes of the directive alphabet, one
// (or, with '*', two) arguments of the five directly mapped types: the text
// equals fmt.Sprintf's.
func C17_Directive() {
	maxN := 2
	if Tier() > 0 {
		maxN = 3
	}
	n := 1 + vf.Choice("n", maxN)
	dir := vf.Bytes("dir", n)
	for k := 0; k < n; k++ {
		vf.Assume(inAlphabet(dir[k]))
	}
	args := fmtArgs()
	a := args[vf.Choice("arg", len(args))]
	if excludedFmt(dir, a) {
		vf.Stop()
	}
	format := "<%" + string(dir) + ">"
	// '*' takes its width/precision from an int argument placed before the value
	stars := 0
	for _, c := range dir {
		if c == '*' {
			stars++
		}
	}
	var objs []tengo.Object
	var govs []interface{}
	for k := 0; k < stars; k++ {
		w := vf.Choice("w", 5) - 2 // -2..2
		objs = append(objs, &tengo.Int{Value: int64(w)})
		govs = append(govs, w)
	}
	objs = append(objs, a.obj)
	govs = append(govs, a.gov)
	var got string
	var err error
	res := vf.Guard(func() { got, err = tengo.Format(format, objs...) }, 3000000)
	vf.Assert(res == 0, "format terminates without panic: "+vf.LastGuard())
	vf.Assert(err == nil, "format of a short directive does not hit the string limit")
	vf.RealFmt(true)
	want := fmt.Sprintf(format, govs...)
	vf.RealFmt(false)
	if got != want {
		vi := verbIndex(dir)
		fmtMismatch(want, got, dir[vi], 2+n-vi-1, a)
	}
	vf.Reach("directive")
}

// C17_Total: arbitrary format bytes and arguments: formatting terminates with
// a string or the string-limit error, never a panic.
func C17_Total() {
	n := 1 + vf.Choice("n", 3)
	f := vf.Bytes("f", n)
	args := fmtArgs()
	a := args[vf.Choice("arg", len(args))]
	nargs := vf.Choice("nargs", 3)
	var objs []tengo.Object
	for k := 0; k < nargs; k++ {
		objs = append(objs, a.obj)
	}
	format := "%" + string(f)
	res := vf.Guard(func() { _, _ = tengo.Format(format, objs...) }, 3000000)
	vf.Assert(res == 0, "format terminates with a string or an error for arbitrary format bytes: "+vf.LastGuard())
	vf.Reach("total")
}

var idxFormats = []string{"%[2]d %[1]d", "%[1]d %d", "%d %d %d", "%[3]d", "%[1]*d", "%[2]*[1]d", "%d %[1]d", "%[0]d", "%[x]d", "%[2]d", "%.[2]d", "%-5d|", "%05d", "%+d", "% d", "%x %X %o %O %b", "%08.3f", "%+.2e", "%10s|%-10s|", "%.2s", "%5t", "%U %#U", "%c", "%q"}

// C17_Indexed: explicit argument indexes, missing arguments, flag/width/
// precision combinations with symbolic integer and string arguments of the
// formats that need no decimal rendering of a symbolic value.
func C17_Indexed() {
	f := idxFormats[vf.Choice("fmt", len(idxFormats))]
	kind := vf.Choice("kind", 3)
	var objs []tengo.Object
	var govs []interface{}
	is := []int64{0, 7, -12, 65, 1234567}
	ss := []string{"", "a", "héllo wörld"}
	for k := 0; k < 2; k++ {
		switch kind {
		case 0:
			v := is[vf.Choice("i", len(is))]
			objs, govs = append(objs, &tengo.Int{Value: v}), append(govs, v)
		case 1:
			v := ss[vf.Choice("s", len(ss))]
			objs, govs = append(objs, &tengo.String{Value: v}), append(govs, v)
		default:
			fs := []float64{0, 1.5, -2.25, 1e21}
			v := fs[vf.Choice("f", len(fs))]
			objs, govs = append(objs, &tengo.Float{Value: v}), append(govs, v)
		}
	}
	var got string
	var err error
	res := vf.Guard(func() { got, err = tengo.Format(f, objs...) }, 3000000)
	vf.Assert(res == 0 && err == nil, "format returns: "+vf.LastGuard())
	vf.RealFmt(true)
	want := fmt.Sprintf(f, govs...)
	vf.RealFmt(false)
	if contains(want, "%!(EXTRA") {
		vf.Stop() // rendering of surplus arguments is excluded by the property
	}
	if kind == 0 && contains(f, "%q") {
		vf.Stop()
	}
	if got != want {
		kinds := []string{"int", "string", "float"}
		if contains(want, "%!") {
			vf.Fail("bad-verb / missing-argument text differs from fmt's for " + kinds[kind] + " arguments | `" + f + "` got " + got + " want " + want)
		}
		vf.Fail("format differs from fmt.Sprintf | `" + f + "` got " + got + " want " + want)
	}
	vf.Reach("indexed")
}
