package h

// C19 — Standard-library wrappers compute what the wrapped Go functions compute.
//
// The expected tables below are written from the module documentation
// (docs/stdlib-text.md, -math.md, -base64.md, -hex.md, -times.md, -enum.md and
// the conversion table of docs/runtime-types.md), not from the implementation
// tables: name -> Go function named in the documentation, one letter per
// documented parameter giving its coercion class, and the result wrapping.

import (
	"encoding/base64"
	"encoding/hex"
	"errors"
	"math"
	"regexp"
	"strconv"
	"strings"
	"time"

	"github.com/d5/tengo/v2"
	"github.com/d5/tengo/v2/stdlib"
	"verif/h/vf"
)

// ---------------------------------------------------------------------------
// common machinery

// x19arg is one argument after the documented coercion.
type x19arg struct {
	s  string
	i  int64
	f  float64
	b  bool
	t  time.Time
	y  []byte
	ss []string
}

// x19spec is one row of an expected table.
//
// sig has one letter per documented parameter:
//
//	S string(compatible): every type except undefined (runtime-types.md, column String)
//	I int(compatible): int, float (truncated), char, bool (1/0), string (strconv)
//	F float(compatible): float, int, string (strconv)
//	T time(compatible): time, int (time.Unix(v, 0))
//	Y bytes(compatible): bytes, string
//	A array or immutable array of string(compatible) elements
//	s, i, f, b: documented as string/int/float/bool; the exact type must be
//	   accepted, a type with no conversion to it must be rejected, and a type
//	   that merely converts to it may be either converted or rejected (the
//	   module documentation does not say which; stated bound)
//
// opt is the number of trailing optional parameters.
type x19spec struct {
	name string
	sig  string
	opt  int
	gen  func() []tengo.Object                                   // right-typed (mostly symbolic) arguments
	chk  func(n string, a []x19arg, got tengo.Object, err error) // value check against the documented operation
	smp  func() []tengo.Object                                   // concrete in-domain sample (nil: by class)
	loc  bool                                                    // last S parameter names a time zone: only keep-content coercions
}

func x19S(s string) tengo.Object  { return &tengo.String{Value: s} }
func x19I(i int64) tengo.Object   { return &tengo.Int{Value: i} }
func x19F(f float64) tengo.Object { return &tengo.Float{Value: f} }
func x19Y(b []byte) tengo.Object  { return &tengo.Bytes{Value: b} }
func x19T(t time.Time) tengo.Object {
	return &tengo.Time{Value: t}
}
func x19B(b bool) tengo.Object {
	if b {
		return tengo.TrueValue
	}
	return tengo.FalseValue
}
func x19Strs(ss []string) tengo.Object {
	arr := &tengo.Array{}
	for _, s := range ss {
		arr.Value = append(arr.Value, x19S(s))
	}
	return arr
}

// x19sym is a symbolic string of 0..max bytes (max+1 in the thorough tier);
// ascii restricts the bytes to 7 bit in the quick tier (functions that walk
// the unicode tables / decode UTF-8).
func x19sym(id string, max int, ascii bool) string {
	if Tier() > 0 {
		max++
	}
	n := vf.Choice(id+".len", max+1)
	s := vf.String(id, n)
	if ascii && Tier() == 0 {
		for k := 0; k < n; k++ {
			vf.Assume(s[k] < 0x80)
		}
	}
	return s
}

func x19pickS(id string, set []string) string { return set[vf.Choice(id, len(set))] }
func x19pickI(id string, set []int64) int64   { return set[vf.Choice(id, len(set))] }

// acceptance levels of x19coerce
const (
	x19Reject = 0
	x19Either = 1
	x19Accept = 2
)

func x19toStr(o tengo.Object) (string, bool) {
	switch v := o.(type) {
	case *tengo.Undefined:
		return "", false
	case *tengo.String:
		return v.Value, true
	case *tengo.Int:
		return strconv.FormatInt(v.Value, 10), true
	case *tengo.Bool:
		if v == tengo.TrueValue {
			return "true", true
		}
		return "false", true
	case *tengo.Char:
		return string(v.Value), true
	case *tengo.Bytes:
		return string(v.Value), true
	}
	return o.String(), true // "[...]", "{...}", "error: ...", String(): only the acceptance is used
}

func x19toInt(o tengo.Object) (int64, bool) {
	switch v := o.(type) {
	case *tengo.Int:
		return v.Value, true
	case *tengo.Float:
		return int64(v.Value), true
	case *tengo.Char:
		return int64(v.Value), true
	case *tengo.Bool:
		if v == tengo.TrueValue {
			return 1, true
		}
		return 0, true
	case *tengo.String:
		n, err := strconv.ParseInt(v.Value, 10, 64)
		return n, err == nil
	}
	return 0, false
}

func x19toFloat(o tengo.Object) (float64, bool) {
	switch v := o.(type) {
	case *tengo.Float:
		return v.Value, true
	case *tengo.Int:
		return float64(v.Value), true
	case *tengo.String:
		f, err := strconv.ParseFloat(v.Value, 64)
		return f, err == nil
	}
	return 0, false
}

// x19coerce applies the documented coercion of class c to o.
func x19coerce(c byte, o tengo.Object) (a x19arg, acc int) {
	ok := false
	switch c {
	case 'S':
		a.s, ok = x19toStr(o)
	case 's':
		a.s, ok = x19toStr(o)
		if _, exact := o.(*tengo.String); ok && !exact {
			return a, x19Either
		}
	case 'I':
		a.i, ok = x19toInt(o)
	case 'i':
		a.i, ok = x19toInt(o)
		if _, exact := o.(*tengo.Int); ok && !exact {
			return a, x19Either
		}
	case 'F':
		a.f, ok = x19toFloat(o)
	case 'f':
		a.f, ok = x19toFloat(o)
		if _, exact := o.(*tengo.Float); ok && !exact {
			return a, x19Either
		}
	case 'b':
		if v, exact := o.(*tengo.Bool); exact {
			a.b, ok = v == tengo.TrueValue, true
		} else {
			return a, x19Either // every type converts to bool (!IsFalsy)
		}
	case 'T':
		switch v := o.(type) {
		case *tengo.Time:
			a.t, ok = v.Value, true
		case *tengo.Int:
			a.t, ok = time.Unix(v.Value, 0), true
		}
	case 'Y':
		switch v := o.(type) {
		case *tengo.Bytes:
			a.y, ok = v.Value, true
		case *tengo.String:
			a.y, ok = []byte(v.Value), true
		}
	case 'A':
		var es []tengo.Object
		switch v := o.(type) {
		case *tengo.Array:
			es, ok = v.Value, true
		case *tengo.ImmutableArray:
			es, ok = v.Value, true
		}
		for _, e := range es {
			s, sok := x19toStr(e)
			if !sok {
				ok = false
			}
			a.ss = append(a.ss, s)
		}
	default:
		panic("x19coerce: bad class")
	}
	if ok {
		return a, x19Accept
	}
	return a, x19Reject
}

func x19fn(mod, name string) tengo.CallableFunc {
	m, ok := stdlib.BuiltinModules[mod]
	vf.Assert(ok, "module "+mod+" exists")
	o, ok := m[name]
	vf.Assert(ok, mod+"."+name+": the documented function is provided by the module")
	uf, ok := o.(*tengo.UserFunction)
	vf.Assert(ok, mod+"."+name+": the documented function is a function")
	return uf.Value
}

func x19call(n string, f tengo.CallableFunc, args []tengo.Object) (got tengo.Object, err error) {
	res := vf.Guard(func() { got, err = f(args...) }, 4000000)
	if res != 0 {
		vf.Note(n + ": " + vf.LastGuard())
	}
	vf.Assert(res == 0, n+": the call returns (no panic, no hang)")
	return
}

// x19want is the common value check: werr != nil means the documented Go
// function failed, which must surface as an error value carrying the Go
// error text (the convention of every "=> T/error" signature).
func x19want(n string, want tengo.Object, werr error, got tengo.Object, err error) {
	if werr != nil {
		vf.Assert(err == nil, n+": a Go error is surfaced as an error value, not as a run-time error")
		e, ok := got.(*tengo.Error)
		vf.Assert(ok, n+": a Go error is surfaced as an error value")
		s, ok := e.Value.(*tengo.String)
		vf.Assert(ok && s.Value == werr.Error(), n+": the error value carries the Go error text")
		return
	}
	vf.Assert(err == nil, n+": no run-time error for right-typed arguments in the Go function's domain")
	vf.Assert(got != nil && Same(got, want), n+": result equals the result of the documented Go function")
}

// x19eq builds a value check from the documented operation.
func x19eq(f func(a []x19arg) (tengo.Object, error)) func(string, []x19arg, tengo.Object, error) {
	return func(n string, a []x19arg, got tengo.Object, err error) {
		want, werr := f(a)
		x19want(n, want, werr, got, err)
	}
}

func x19coerceAll(n string, e *x19spec, args []tengo.Object) []x19arg {
	var a []x19arg
	for k, o := range args {
		v, acc := x19coerce(e.sig[k], o)
		vf.Assert(acc == x19Accept, n+": harness argument is right-typed")
		a = append(a, v)
	}
	return a
}

// x19value: one table row, right-typed arguments, result against the documented operation.
func x19value(mod string, tab []x19spec) {
	e := &tab[vf.Choice("fn", len(tab))]
	n := mod + "." + e.name
	f := x19fn(mod, e.name)
	args := e.gen()
	a := x19coerceAll(n, e, args)
	got, err := x19call(n, f, args)
	e.chk(n, a, got, err)
}

func x19classSample(c byte) tengo.Object {
	switch c {
	case 'S', 's':
		return x19S("ab")
	case 'I', 'i':
		return x19I(1)
	case 'F', 'f':
		return x19F(1.5)
	case 'b':
		return tengo.TrueValue
	case 'T':
		return x19T(time.Unix(1700000000, 5))
	case 'Y':
		return x19Y([]byte("ab"))
	case 'A':
		return x19Strs([]string{"a", "b"})
	}
	panic("x19classSample")
}

func x19sample(e *x19spec) []tengo.Object {
	if e.smp != nil {
		return e.smp()
	}
	var out []tengo.Object
	for k := 0; k < len(e.sig); k++ {
		out = append(out, x19classSample(e.sig[k]))
	}
	return out
}

func x19isArgType(err error) bool {
	_, ok := err.(tengo.ErrInvalidArgumentType)
	return ok
}

// x19args: wrong argument counts are ErrWrongNumArguments; an argument of a
// type the documented coercion does not accept, in any position, is
// ErrInvalidArgumentType.
func x19args(mod string, tab []x19spec) {
	e := &tab[vf.Choice("fn", len(tab))]
	n := mod + "." + e.name
	f := x19fn(mod, e.name)
	smp := x19sample(e)
	np := len(e.sig)
	vf.Assert(len(smp) == np, n+": harness sample has one value per documented parameter")
	if vf.Choice("mode", 2) == 0 {
		cnt := vf.Choice("count", np+2)
		if cnt >= np-e.opt && cnt <= np {
			vf.Stop()
		}
		var args []tengo.Object
		for k := 0; k < cnt; k++ {
			if k < np {
				args = append(args, smp[k])
			} else {
				args = append(args, x19S("zz"))
			}
		}
		_, err := x19call(n, f, args)
		vf.Assert(err != nil && errors.Is(err, tengo.ErrWrongNumArguments), n+": a wrong argument count is ErrWrongNumArguments")
		vf.Reach("count")
		return
	}
	if np == 0 {
		vf.Stop()
	}
	k := vf.Choice("pos", np)
	t := vf.Choice("type", NTypes+1)
	var o tengo.Object
	if t < NTypes {
		o = concreteSample(t)
	} else {
		o = &tengo.Array{Value: []tengo.Object{x19S("a"), tengo.UndefinedValue}}
	}
	_, acc := x19coerce(e.sig[k], o)
	if acc != x19Reject {
		vf.Stop() // accepted types: x19coerced
	}
	args := append([]tengo.Object{}, smp...)
	args[k] = o
	_, err := x19call(n, f, args)
	vf.Assert(err != nil && x19isArgType(err), n+": an argument of a type with no documented conversion is ErrInvalidArgumentType")
	vf.Reach("type")
}

// x19coerced: every position of every function, the sample argument replaced
// by a value of another type that the documented coercion accepts: the result
// is the documented operation on the coerced values.
func x19coerced(mod string, tab []x19spec) {
	e := &tab[vf.Choice("fn", len(tab))]
	n := mod + "." + e.name
	f := x19fn(mod, e.name)
	args := x19sample(e)
	np := len(e.sig)
	if np == 0 {
		vf.Stop()
	}
	k := vf.Choice("pos", np)
	alt := vf.Choice("alt", 5)
	base, _ := x19coerce(e.sig[k], args[k])
	var o tengo.Object
	switch e.sig[k] {
	case 'S':
		last := k == np-1
		switch {
		case alt == 0:
			o = x19Y([]byte(base.s))
		case e.loc && last:
			vf.Stop()
		case alt == 1:
			o = x19I(12)
		case alt == 2:
			o = &tengo.Char{Value: 'a'}
		case alt == 3:
			o = tengo.TrueValue
		default:
			o = x19F(1.5)
		}
	case 'I':
		// alternatives that coerce to the sample's own value (keeps bases, bit
		// sizes and counts inside the Go function's domain)
		switch {
		case alt == 0:
			o = x19F(float64(base.i) + 0.5)
			if base.i < 0 {
				o = x19F(float64(base.i) - 0.5)
			}
		case alt == 1:
			o = x19S(strconv.FormatInt(base.i, 10))
		case alt == 2 && base.i >= 0 && base.i < 0x110000:
			o = &tengo.Char{Value: rune(base.i)}
		case alt == 3 && (base.i == 0 || base.i == 1):
			o = x19B(base.i == 1)
		default:
			vf.Stop()
		}
	case 'F':
		switch alt {
		case 0:
			o = x19I(3)
		case 1:
			o = x19S("2.5")
		case 2:
			o = x19S("-1e3")
		default:
			vf.Stop()
		}
	case 'T':
		switch alt {
		case 0:
			o = x19I(1700000000)
		case 1:
			o = x19I(-1)
		default:
			vf.Stop()
		}
	case 'Y':
		if alt != 0 {
			vf.Stop()
		}
		o = x19S(string(base.y))
	case 'A':
		switch alt {
		case 0:
			o = &tengo.ImmutableArray{Value: []tengo.Object{x19S("p"), x19S("q")}}
		case 1:
			o = &tengo.Array{Value: []tengo.Object{x19I(7), &tengo.Char{Value: 'c'}, x19Y([]byte("y"))}}
		default:
			vf.Stop()
		}
	default:
		vf.Stop() // strict classes: exact type only
	}
	args[k] = o
	a := x19coerceAll(n, e, args)
	got, err := x19call(n, f, args)
	e.chk(n, a, got, err)
}

// ---------------------------------------------------------------------------
// text

func x19genSS(m1, m2 int, ascii bool) func() []tengo.Object {
	return func() []tengo.Object {
		return []tengo.Object{x19S(x19sym("a", m1, ascii)), x19S(x19sym("b", m2, ascii))}
	}
}

// strings that separate the unicode case mappings and space classes
var x19uni = []string{"ǆ", "ß", "é", "a b", "ǅa ǆ", "\xff"}

// x19genS1: one string: symbolic ASCII (any byte in the thorough tier) or one
// of the concrete non-ASCII strings.
func x19genS1(max int) func() []tengo.Object {
	return func() []tengo.Object {
		k := vf.Choice("a.kind", 1+len(x19uni))
		if k == 0 {
			return []tengo.Object{x19S(x19sym("a", max, true))}
		}
		return []tengo.Object{x19S(x19uni[k-1])}
	}
}

func x19ssB(f func(a, b string) bool) func(string, []x19arg, tengo.Object, error) {
	return x19eq(func(a []x19arg) (tengo.Object, error) { return x19B(f(a[0].s, a[1].s)), nil })
}
func x19ssI(f func(a, b string) int) func(string, []x19arg, tengo.Object, error) {
	return x19eq(func(a []x19arg) (tengo.Object, error) { return x19I(int64(f(a[0].s, a[1].s))), nil })
}
func x19ssS(f func(a, b string) string) func(string, []x19arg, tengo.Object, error) {
	return x19eq(func(a []x19arg) (tengo.Object, error) { return x19S(f(a[0].s, a[1].s)), nil })
}
func x19sS(f func(a string) string) func(string, []x19arg, tengo.Object, error) {
	return x19eq(func(a []x19arg) (tengo.Object, error) { return x19S(f(a[0].s)), nil })
}

var x19folds = [][2]string{{"ǆ", "ǅ"}, {"é", "É"}, {"ß", "SS"}, {"\u212a", "k"}, {"σ", "ς"}, {"a\xff", "A\xff"}, {"é", "e"}}

// predicates and searches: (string, string) => bool / int
var x19textPred = []x19spec{
	{name: "compare", sig: "SS", gen: x19genSS(2, 2, false), chk: x19ssI(strings.Compare)},
	{name: "contains", sig: "SS", gen: x19genSS(2, 2, false), chk: x19ssB(strings.Contains)},
	{name: "contains_any", sig: "SS", gen: x19genSS(2, 2, true), chk: x19ssB(strings.ContainsAny)},
	{name: "count", sig: "SS", gen: x19genSS(2, 1, true), chk: x19ssI(strings.Count)},
	// (case folding of arbitrary multi-byte sequences explodes the path count:
	// symbolic ASCII in both tiers plus concrete non-ASCII pairs)
	{name: "equal_fold", sig: "SS",
		gen: func() []tengo.Object {
			k := vf.Choice("a.kind", 1+len(x19folds))
			if k > 0 {
				return []tengo.Object{x19S(x19folds[k-1][0]), x19S(x19folds[k-1][1])}
			}
			a, b := x19sym("a", 2, false), x19sym("b", 2, false)
			for i := 0; i < len(a); i++ {
				vf.Assume(a[i] < 0x80)
			}
			for i := 0; i < len(b); i++ {
				vf.Assume(b[i] < 0x80)
			}
			return []tengo.Object{x19S(a), x19S(b)}
		},
		chk: x19ssB(strings.EqualFold)},
	{name: "has_prefix", sig: "SS", gen: x19genSS(2, 2, false), chk: x19ssB(strings.HasPrefix)},
	{name: "has_suffix", sig: "SS", gen: x19genSS(2, 2, false), chk: x19ssB(strings.HasSuffix)},
	{name: "index", sig: "SS", gen: x19genSS(2, 2, false), chk: x19ssI(strings.Index)},
	{name: "index_any", sig: "SS", gen: x19genSS(2, 2, true), chk: x19ssI(strings.IndexAny)},
	{name: "last_index", sig: "SS", gen: x19genSS(2, 2, false), chk: x19ssI(strings.LastIndex)},
	{name: "last_index_any", sig: "SS", gen: x19genSS(2, 2, true), chk: x19ssI(strings.LastIndexAny)},
}

var x19splitN = []int64{-1, 0, 1, 2}

func x19genSSI(m1, m2 int, set []int64) func() []tengo.Object {
	return func() []tengo.Object {
		return []tengo.Object{x19S(x19sym("a", m1, true)), x19S(x19sym("b", m2, true)), x19I(x19pickI("n", set))}
	}
}

// x19pad is the documented padding: s is returned when it is already pad_len
// long (or nothing can be padded with); otherwise the result is pad_len bytes
// long, keeps s at the far end and fills the rest with repetitions of
// pad_with (" " by default). Which end of the repetition is cut when it does
// not divide evenly is not documented: for pad_left either end is accepted,
// for pad_right the repetition starts right after s.
func x19pad(left bool) func(string, []x19arg, tengo.Object, error) {
	return func(n string, a []x19arg, got tengo.Object, err error) {
		s, l, p := a[0].s, int(a[1].i), " "
		if len(a) > 2 {
			p = a[2].s
		}
		vf.Assert(err == nil, n+": no run-time error for right-typed arguments")
		g, ok := got.(*tengo.String)
		vf.Assert(ok, n+": result is a string")
		if len(s) >= l || len(p) == 0 {
			vf.Assert(g.Value == s, n+": s is returned unchanged when it needs no padding")
			return
		}
		vf.Assert(len(g.Value) == l, n+": result is pad_len bytes long")
		fill := l - len(s)
		reps := strings.Repeat(p, fill/len(p)+1)
		if left {
			vf.Assert(g.Value[fill:] == s, n+": result ends with s")
			pad := g.Value[:fill]
			vf.Assert(pad == reps[:fill] || pad == reps[len(reps)-fill:], n+": the padding is a repetition of pad_with")
		} else {
			vf.Assert(g.Value[:len(s)] == s, n+": result starts with s")
			vf.Assert(g.Value[len(s):] == reps[:fill], n+": the padding is a repetition of pad_with")
		}
	}
}

func x19genPad() []tengo.Object {
	args := []tengo.Object{x19S(x19sym("a", 1, false)), x19I(int64(vf.Choice("padlen", 5)))}
	if vf.Choice("withpad", 2) == 1 {
		args = append(args, x19S(x19sym("p", 2, false)))
	}
	return args
}

func x19strsObj(ss []string) (tengo.Object, error) { return x19Strs(ss), nil }

// transformations: strings in, string / [string] out
var x19textXform = []x19spec{
	{name: "fields", sig: "S", gen: x19genS1(2), chk: x19eq(func(a []x19arg) (tengo.Object, error) { return x19strsObj(strings.Fields(a[0].s)) })},
	{name: "join", sig: "AS",
		gen: func() []tengo.Object {
			n := vf.Choice("arr.len", W()+1)
			var es []tengo.Object
			for k := 0; k < n; k++ {
				es = append(es, x19S(vf.String("e"+strconv.Itoa(k), 1)))
			}
			var arr tengo.Object = &tengo.Array{Value: es}
			if vf.Choice("arr.imm", 2) == 1 {
				arr = &tengo.ImmutableArray{Value: es}
			}
			return []tengo.Object{arr, x19S(x19sym("b", 1, false))}
		},
		chk: x19eq(func(a []x19arg) (tengo.Object, error) { return x19S(strings.Join(a[0].ss, a[1].s)), nil })},
	{name: "repeat", sig: "SI",
		gen: func() []tengo.Object {
			return []tengo.Object{x19S(x19sym("a", 2, false)), x19I(int64(vf.Choice("count", 4)))}
		},
		chk: x19eq(func(a []x19arg) (tengo.Object, error) { return x19S(strings.Repeat(a[0].s, int(a[1].i))), nil })},
	{name: "replace", sig: "SSSI",
		gen: func() []tengo.Object {
			return []tengo.Object{x19S(x19sym("a", 2, true)), x19S(x19sym("b", 1, true)), x19S(x19sym("c", 1, true)), x19I(x19pickI("n", x19splitN))}
		},
		chk: x19eq(func(a []x19arg) (tengo.Object, error) {
			return x19S(strings.Replace(a[0].s, a[1].s, a[2].s, int(a[3].i))), nil
		})},
	// substr(s, lower, upper): s[lower:upper] for 0 <= lower <= upper <= len(s)
	// (the implementation also accepts two arguments; that form is undocumented
	// and only excluded from the wrong-count check)
	{name: "substr", sig: "SII", opt: 1,
		gen: func() []tengo.Object {
			s := x19sym("a", 2, false)
			hi := vf.Choice("hi", len(s)+1)
			lo := vf.Choice("lo", hi+1)
			return []tengo.Object{x19S(s), x19I(int64(lo)), x19I(int64(hi))}
		},
		chk: x19eq(func(a []x19arg) (tengo.Object, error) {
			lo, hi := a[1].i, int64(len(a[0].s))
			if len(a) > 2 {
				hi = a[2].i
			}
			if lo < 0 || lo > hi || hi > int64(len(a[0].s)) {
				vf.Stop() // outside the documented domain
			}
			return x19S(a[0].s[lo:hi]), nil
		}),
		smp: func() []tengo.Object { return []tengo.Object{x19S("abc"), x19I(1), x19I(2)} }},
	{name: "split", sig: "SS", gen: x19genSS(2, 1, true), chk: x19eq(func(a []x19arg) (tengo.Object, error) { return x19strsObj(strings.Split(a[0].s, a[1].s)) })},
	{name: "split_after", sig: "SS", gen: x19genSS(2, 1, true), chk: x19eq(func(a []x19arg) (tengo.Object, error) { return x19strsObj(strings.SplitAfter(a[0].s, a[1].s)) })},
	{name: "split_after_n", sig: "SSI", gen: x19genSSI(2, 1, x19splitN), chk: x19eq(func(a []x19arg) (tengo.Object, error) {
		return x19strsObj(strings.SplitAfterN(a[0].s, a[1].s, int(a[2].i)))
	})},
	{name: "split_n", sig: "SSI", gen: x19genSSI(2, 1, x19splitN), chk: x19eq(func(a []x19arg) (tengo.Object, error) {
		return x19strsObj(strings.SplitN(a[0].s, a[1].s, int(a[2].i)))
	})},
	{name: "title", sig: "S", gen: x19genS1(2), chk: x19sS(strings.Title)},
	{name: "to_lower", sig: "S", gen: x19genS1(2), chk: x19sS(strings.ToLower)},
	{name: "to_title", sig: "S", gen: x19genS1(2), chk: x19sS(strings.ToTitle)},
	{name: "to_upper", sig: "S", gen: x19genS1(2), chk: x19sS(strings.ToUpper)},
	{name: "pad_left", sig: "SIS", opt: 1, gen: x19genPad, chk: x19pad(true),
		smp: func() []tengo.Object { return []tengo.Object{x19S("ab"), x19I(5), x19S("xy")} }},
	{name: "pad_right", sig: "SIS", opt: 1, gen: x19genPad, chk: x19pad(false),
		smp: func() []tengo.Object { return []tengo.Object{x19S("ab"), x19I(5), x19S("xy")} }},
	{name: "trim", sig: "SS", gen: x19genSS(2, 2, true), chk: x19ssS(strings.Trim)},
	{name: "trim_left", sig: "SS", gen: x19genSS(2, 2, true), chk: x19ssS(strings.TrimLeft)},
	{name: "trim_prefix", sig: "SS", gen: x19genSS(2, 2, false), chk: x19ssS(strings.TrimPrefix)},
	{name: "trim_right", sig: "SS", gen: x19genSS(2, 2, true), chk: x19ssS(strings.TrimRight)},
	{name: "trim_space", sig: "S", gen: x19genS1(2), chk: x19sS(strings.TrimSpace)},
	{name: "trim_suffix", sig: "SS", gen: x19genSS(2, 2, false), chk: x19ssS(strings.TrimSuffix)},
}

var x19ints = []int64{0, 7, -1, 35, 36, -255, 9223372036854775807, -9223372036854775808}
var x19floats = []float64{0, 1.5, -2.25, 1e21, 1e-7, 3.4028235e38}
var x19ffmt = []string{"e", "E", "f", "g", "G", "b", "x"}
var x19bools = []string{"true", "TRUE", "True", "T", "false", "FALSE", "False", "F", "tRUE", "yes", ""}
var x19floatStrs = []string{"1.5", "-0", "1e400", "abc", "", "0x1p-2", "inf", "NaN", "3.4028236e38", "1_0", "1e-400", " 1"}
var x19intStrs = []string{"0x1f", "-129", "9223372036854775808", "-9223372036854775808", "1_000", "0b101", "077", "zz", "+5"}
var x19unq = []string{`"a"`, `'a'`, "`a`", `"\n"`, `"\x41é"`, `"a`, `a`, ``, `"\q"`, `'ab'`, `"a"b"`, "`a\r`"}

// strconv
var x19textConv = []x19spec{
	{name: "atoi", sig: "S", gen: func() []tengo.Object { return []tengo.Object{x19S(x19sym("a", 2, false))} },
		chk: x19eq(func(a []x19arg) (tengo.Object, error) {
			v, err := strconv.Atoi(a[0].s)
			return x19I(int64(v)), err
		}),
		smp: func() []tengo.Object { return []tengo.Object{x19S("42")} }},
	{name: "format_bool", sig: "b", gen: func() []tengo.Object { return []tengo.Object{x19B(vf.Bool("b"))} },
		chk: x19eq(func(a []x19arg) (tengo.Object, error) { return x19S(strconv.FormatBool(a[0].b)), nil })},
	// rendering: concrete boundary values (decimal rendering of symbolic numbers stalls the solver)
	{name: "format_float", sig: "fSII",
		gen: func() []tengo.Object {
			var f float64
			switch k := vf.Choice("f", len(x19floats)+3); k {
			case len(x19floats):
				f = math.NaN()
			case len(x19floats) + 1:
				f = math.Inf(-1)
			case len(x19floats) + 2:
				f = math.Copysign(0, -1)
			default:
				f = x19floats[k]
			}
			return []tengo.Object{x19F(f), x19S(x19pickS("fmt", x19ffmt)), x19I(x19pickI("prec", []int64{-1, 0, 3})), x19I(x19pickI("bits", []int64{32, 64}))}
		},
		chk: x19eq(func(a []x19arg) (tengo.Object, error) {
			return x19S(strconv.FormatFloat(a[0].f, a[1].s[0], int(a[2].i), int(a[3].i))), nil
		}),
		smp: func() []tengo.Object { return []tengo.Object{x19F(1.5), x19S("f"), x19I(2), x19I(64)} }},
	{name: "format_int", sig: "iI",
		gen: func() []tengo.Object {
			return []tengo.Object{x19I(x19pickI("i", x19ints)), x19I(x19pickI("base", []int64{2, 8, 10, 16, 36}))}
		},
		chk: x19eq(func(a []x19arg) (tengo.Object, error) { return x19S(strconv.FormatInt(a[0].i, int(a[1].i))), nil }),
		smp: func() []tengo.Object { return []tengo.Object{x19I(255), x19I(16)} }},
	{name: "itoa", sig: "I", gen: func() []tengo.Object { return []tengo.Object{x19I(x19pickI("i", x19ints))} },
		chk: x19eq(func(a []x19arg) (tengo.Object, error) { return x19S(strconv.FormatInt(a[0].i, 10)), nil })},
	{name: "parse_bool", sig: "s",
		gen: func() []tengo.Object {
			k := vf.Choice("a.kind", 1+len(x19bools))
			if k == 0 {
				return []tengo.Object{x19S(x19sym("a", 1, false))}
			}
			return []tengo.Object{x19S(x19bools[k-1])}
		},
		chk: x19eq(func(a []x19arg) (tengo.Object, error) {
			v, err := strconv.ParseBool(a[0].s)
			return x19B(v), err
		}),
		smp: func() []tengo.Object { return []tengo.Object{x19S("true")} }},
	{name: "parse_float", sig: "sI",
		gen: func() []tengo.Object {
			k := vf.Choice("a.kind", 1+len(x19floatStrs))
			s := ""
			if k == 0 {
				s = x19sym("a", 1, false)
			} else {
				s = x19floatStrs[k-1]
			}
			if k == 0 {
				// (the engine has no symbolic float32 rounding: 64 bit only)
				return []tengo.Object{x19S(s), x19I(64)}
			}
			return []tengo.Object{x19S(s), x19I(x19pickI("bits", []int64{32, 64}))}
		},
		chk: x19eq(func(a []x19arg) (tengo.Object, error) {
			v, err := strconv.ParseFloat(a[0].s, int(a[1].i))
			return x19F(v), err
		}),
		smp: func() []tengo.Object { return []tengo.Object{x19S("1.5"), x19I(64)} }},
	{name: "parse_int", sig: "sII",
		gen: func() []tengo.Object {
			k := vf.Choice("a.kind", 1+len(x19intStrs))
			s := ""
			if k == 0 {
				s = x19sym("a", 1, false)
			} else {
				s = x19intStrs[k-1]
			}
			bb := [][2]int64{{0, 0}, {10, 64}, {16, 8}, {2, 64}, {36, 0}}
			if k > 0 {
				bb = append(bb, [2]int64{10, 8}, [2]int64{0, 64}, [2]int64{8, 16}, [2]int64{1, 0}, [2]int64{10, 65})
			}
			c := bb[vf.Choice("basebits", len(bb))]
			return []tengo.Object{x19S(s), x19I(c[0]), x19I(c[1])}
		},
		chk: x19eq(func(a []x19arg) (tengo.Object, error) {
			v, err := strconv.ParseInt(a[0].s, int(a[1].i), int(a[2].i))
			return x19I(v), err
		}),
		smp: func() []tengo.Object { return []tengo.Object{x19S("42"), x19I(10), x19I(64)} }},
	{name: "quote", sig: "S", gen: x19genS1(2), chk: x19sS(strconv.Quote)},
	{name: "unquote", sig: "S",
		gen: func() []tengo.Object {
			k := vf.Choice("a.kind", 1+len(x19unq))
			if k == 0 {
				return []tengo.Object{x19S(`"` + x19sym("a", 1, true) + `"`)}
			}
			return []tengo.Object{x19S(x19unq[k-1])}
		},
		chk: x19eq(func(a []x19arg) (tengo.Object, error) {
			v, err := strconv.Unquote(a[0].s)
			return x19S(v), err
		}),
		smp: func() []tengo.Object { return []tengo.Object{x19S(`"ab"`)} }},
}

// regular expressions: concrete patterns (two of them invalid), symbolic text
var x19pats = []string{"a", "a+", "(a)(b)?", "", "^a|b$", "[ab]", "(", "[a"}
var x19repls = []string{"", "x", "$1", "<$0>", "${1}y"}

func x19genRe(withText bool, third func() tengo.Object) func() []tengo.Object {
	return func() []tengo.Object {
		args := []tengo.Object{x19S(x19pickS("pat", x19pats))}
		if withText {
			args = append(args, x19S(x19sym("t", 2, true)))
		}
		if third != nil {
			if o := third(); o != nil {
				args = append(args, o)
			}
		}
		return args
	}
}

// x19optCount: the count argument, or nil (argument omitted).
func x19optCount() tengo.Object {
	k := vf.Choice("count", len(x19splitN)+1)
	if k == len(x19splitN) {
		return nil
	}
	return x19I(x19splitN[k])
}

func x19mapOf(o tengo.Object) (map[string]tengo.Object, bool) {
	switch m := o.(type) {
	case *tengo.Map:
		return m.Value, true
	case *tengo.ImmutableMap:
		return m.Value, true
	}
	return nil, false
}

// x19findCheck: the documented shape of re_find / Regexp.find results: an
// array with one array per match holding, for the match and every
// participating group, a map {text, begin, end (exclusive)}; undefined when
// nothing matches.
func x19findCheck(n, text string, ms [][]int, got tengo.Object) {
	if ms == nil {
		vf.Assert(got == tengo.Object(tengo.UndefinedValue), n+": no match is undefined")
		return
	}
	arr, ok := got.(*tengo.Array)
	vf.Assert(ok, n+": result is an array of matches")
	vf.Assert(len(arr.Value) == len(ms), n+": one entry per match of FindAllStringSubmatchIndex")
	for k, m := range ms {
		sub, ok := arr.Value[k].(*tengo.Array)
		vf.Assert(ok, n+": each match is an array")
		j := 0
		for g := 0; g+1 < len(m); g += 2 {
			if m[g] < 0 || m[g+1] < 0 {
				continue
			}
			vf.Assert(j < len(sub.Value), n+": one map per participating group")
			mm, ok := x19mapOf(sub.Value[j])
			vf.Assert(ok, n+": each group is a map")
			vf.Assert(Same(mm["text"], x19S(text[m[g]:m[g+1]])), n+": text is the matched text")
			vf.Assert(Same(mm["begin"], x19I(int64(m[g]))), n+": begin is the start index")
			vf.Assert(Same(mm["end"], x19I(int64(m[g+1]))), n+": end is the exclusive end index")
			j++
		}
		vf.Assert(j == len(sub.Value), n+": no extra group entries")
	}
}

func x19reFind(n string, pat, text string, a []x19arg, got tengo.Object, err error) {
	re, cerr := regexp.Compile(pat)
	if cerr != nil {
		x19want(n, nil, cerr, got, err)
		return
	}
	vf.Assert(err == nil, n+": no run-time error for right-typed arguments")
	if len(a) == 0 {
		// count omitted (documented for Regexp.find's sibling only): the first match
		var ms [][]int
		if m := re.FindStringSubmatchIndex(text); m != nil {
			ms = [][]int{m}
		}
		x19findCheck(n, text, ms, got)
		return
	}
	x19findCheck(n, text, re.FindAllStringSubmatchIndex(text, int(a[0].i)), got)
}

func x19reSplit(pat, text string, a []x19arg) (tengo.Object, error) {
	re, cerr := regexp.Compile(pat)
	if cerr != nil {
		return nil, cerr
	}
	cnt := -1
	if len(a) > 0 {
		cnt = int(a[0].i)
	}
	return x19strsObj(re.Split(text, cnt))
}

// x19reObject: the documented Regexp object: match, find, replace, split
// behave like the re_* functions with the pattern bound.
func x19reObject(n, pat string, got tengo.Object, err error) {
	re, cerr := regexp.Compile(pat)
	if cerr != nil {
		x19want(n, nil, cerr, got, err)
		return
	}
	vf.Assert(err == nil, n+": no run-time error for a valid pattern")
	members, ok := x19mapOf(got)
	vf.Assert(ok, n+": a Regexp object is returned")
	names := []string{"match", "find", "replace", "split"}
	name := names[vf.Choice("member", len(names))]
	mo, ok := members[name]
	vf.Assert(ok, n+": Regexp has member "+name)
	vf.Assert(mo.CanCall(), n+": Regexp."+name+" is callable")
	text := x19sym("t", 2, true)
	mn := "text.Regexp." + name
	switch name {
	case "match":
		g, e := x19call(mn, mo.Call, []tengo.Object{x19S(text)})
		x19want(mn, x19B(re.MatchString(text)), nil, g, e)
	case "find":
		args := []tengo.Object{x19S(text)}
		var a []x19arg
		if c := x19optCount(); c != nil {
			args = append(args, c)
			a = []x19arg{{i: c.(*tengo.Int).Value}}
		}
		g, e := x19call(mn, mo.Call, args)
		x19reFind(mn, pat, text, a, g, e)
	case "replace":
		repl := x19pickS("repl", x19repls)
		g, e := x19call(mn, mo.Call, []tengo.Object{x19S(text), x19S(repl)})
		x19want(mn, x19S(re.ReplaceAllString(text, repl)), nil, g, e)
	case "split":
		args := []tengo.Object{x19S(text)}
		var a []x19arg
		if c := x19optCount(); c != nil {
			args = append(args, c)
			a = []x19arg{{i: c.(*tengo.Int).Value}}
		}
		g, e := x19call(mn, mo.Call, args)
		want, _ := x19reSplit(pat, text, a)
		x19want(mn, want, nil, g, e)
	}
}

var x19textRe = []x19spec{
	{name: "re_match", sig: "SS", gen: x19genRe(true, nil),
		chk: x19eq(func(a []x19arg) (tengo.Object, error) {
			v, err := regexp.MatchString(a[0].s, a[1].s)
			return x19B(v), err
		})},
	// (the two-argument forms of re_find / re_split are not documented; they are
	// checked as "first match" / "all substrings" and excluded from the wrong-count check)
	{name: "re_find", sig: "SSI", opt: 1, gen: x19genRe(true, x19optCount),
		chk: func(n string, a []x19arg, got tengo.Object, err error) { x19reFind(n, a[0].s, a[1].s, a[2:], got, err) }},
	{name: "re_replace", sig: "SSS", gen: x19genRe(true, func() tengo.Object { return x19S(x19pickS("repl", x19repls)) }),
		chk: x19eq(func(a []x19arg) (tengo.Object, error) {
			re, err := regexp.Compile(a[0].s)
			if err != nil {
				return nil, err
			}
			return x19S(re.ReplaceAllString(a[1].s, a[2].s)), nil
		})},
	{name: "re_split", sig: "SSI", opt: 1, gen: x19genRe(true, x19optCount),
		chk: x19eq(func(a []x19arg) (tengo.Object, error) { return x19reSplit(a[0].s, a[1].s, a[2:]) })},
	{name: "re_compile", sig: "S", gen: x19genRe(false, nil),
		chk: func(n string, a []x19arg, got tengo.Object, err error) { x19reObject(n, a[0].s, got, err) }},
}

func x19textAll() []x19spec {
	var all []x19spec
	all = append(all, x19textPred...)
	all = append(all, x19textXform...)
	all = append(all, x19textConv...)
	all = append(all, x19textRe...)
	return all
}

// C19_TextPred / TextXform / TextConv / TextRe: every documented function of
// module text against the Go function the documentation names.
func C19_TextPred()  { x19value("text", x19textPred); vf.Reach("text-pred") }
func C19_TextXform() { x19value("text", x19textXform); vf.Reach("text-xform") }
func C19_TextConv()  { x19value("text", x19textConv); vf.Reach("text-conv") }
func C19_TextRe()    { x19value("text", x19textRe); vf.Reach("text-re") }

// C19_TextArgs: argument counts and argument types of every text function.
func C19_TextArgs() { x19args("text", x19textAll()); vf.Reach("text-args") }

// C19_TextCoerce: arguments of the other accepted types are coerced as documented.
func C19_TextCoerce() { x19coerced("text", x19textAll()); vf.Reach("text-coerce") }

// ---------------------------------------------------------------------------
// base64, hex

type x19codec struct {
	mod, enc, dec string
	encode        func([]byte) string
	decode        func(string) ([]byte, error)
}

// documented name -> encoding ("raw" omits the padding, "url" is the URL alphabet)
var x19codecs = []x19codec{
	{"base64", "encode", "decode", base64.StdEncoding.EncodeToString, base64.StdEncoding.DecodeString},
	{"base64", "raw_encode", "raw_decode", base64.RawStdEncoding.EncodeToString, base64.RawStdEncoding.DecodeString},
	{"base64", "url_encode", "url_decode", base64.URLEncoding.EncodeToString, base64.URLEncoding.DecodeString},
	{"base64", "raw_url_encode", "raw_url_decode", base64.RawURLEncoding.EncodeToString, base64.RawURLEncoding.DecodeString},
	{"hex", "encode", "decode", hex.EncodeToString, hex.DecodeString},
}

func x19symBytes(id string, max int) []byte {
	n := vf.Choice(id+".len", max+1)
	return vf.Bytes(id, n)
}

func x19codecTab(mod string) []x19spec {
	var tab []x19spec
	for k := range x19codecs {
		c := x19codecs[k]
		if c.mod != mod {
			continue
		}
		tab = append(tab, x19spec{name: c.enc, sig: "Y",
			gen: func() []tengo.Object {
				b := x19symBytes("src", 3)
				if vf.Choice("src.str", 2) == 1 {
					return []tengo.Object{x19S(string(b))}
				}
				return []tengo.Object{x19Y(b)}
			},
			chk: x19eq(func(a []x19arg) (tengo.Object, error) { return x19S(c.encode(a[0].y)), nil })})
		tab = append(tab, x19spec{name: c.dec, sig: "S",
			gen: func() []tengo.Object {
				if vf.Choice("s.kind", 2) == 0 {
					// a string over the right alphabet: the encoding of arbitrary bytes
					return []tengo.Object{x19S(c.encode(x19symBytes("src", 3)))}
				}
				return []tengo.Object{x19S(x19sym("s", 3, false))}
			},
			chk: x19eq(func(a []x19arg) (tengo.Object, error) {
				v, err := c.decode(a[0].s)
				return x19Y(v), err
			}),
			smp: func() []tengo.Object { return []tengo.Object{x19S(c.encode([]byte("ab")))} }})
	}
	return tab
}

// C19_Codec: base64.* and hex.* against encoding/base64 and encoding/hex;
// decoding errors are error values carrying the Go error text.
func C19_Codec() {
	mods := []string{"base64", "hex"}
	mod := mods[vf.Choice("mod", len(mods))]
	x19value(mod, x19codecTab(mod))
	vf.Reach("codec")
}

// C19_CodecRoundTrip: decode(encode(b)) == b through the module functions.
func C19_CodecRoundTrip() {
	c := x19codecs[vf.Choice("codec", len(x19codecs))]
	b := x19symBytes("src", 3)
	n := c.mod + "." + c.dec + "(" + c.enc + "(b))"
	s, err := x19call(n, x19fn(c.mod, c.enc), []tengo.Object{x19Y(b)})
	vf.Assert(err == nil, n+": encode succeeds")
	back, err := x19call(n, x19fn(c.mod, c.dec), []tengo.Object{s})
	vf.Assert(err == nil, n+": decode succeeds")
	vf.Assert(Same(back, x19Y(b)), n+": round trip gives the original bytes")
	vf.Reach("codec-roundtrip")
}

func C19_CodecArgs() {
	mods := []string{"base64", "hex"}
	mod := mods[vf.Choice("mod", len(mods))]
	if vf.Choice("what", 2) == 0 {
		x19args(mod, x19codecTab(mod))
	} else {
		x19coerced(mod, x19codecTab(mod))
	}
	vf.Reach("codec-args")
}

// C19_Limit: functions whose result can be longer than their inputs, with
// MaxStringLen / MaxBytesLen symbolic in 0..8 and every input within the
// limit: a result longer than the limit is the limit error, a result that
// fits is returned unchanged.
type x19lim struct {
	mod, name string
	args      func() []tengo.Object
	natural   func(a []tengo.Object) tengo.Object // documented result without a limit
}

func x19str(o tengo.Object) string { return o.(*tengo.String).Value }

var x19lims = []x19lim{
	{"text", "repeat", func() []tengo.Object {
		return []tengo.Object{x19S(rep('a', vf.Choice("n1", 3))), x19I(int64(vf.Choice("count", 5)))}
	}, func(a []tengo.Object) tengo.Object {
		return x19S(strings.Repeat(x19str(a[0]), int(a[1].(*tengo.Int).Value)))
	}},
	{"text", "replace", func() []tengo.Object {
		return []tengo.Object{x19S("xax"), x19S("x"), x19S(rep('y', vf.Choice("m", 4))), x19I(x19pickI("n", []int64{-1, 1, 2}))}
	}, func(a []tengo.Object) tengo.Object {
		return x19S(strings.Replace(x19str(a[0]), x19str(a[1]), x19str(a[2]), int(a[3].(*tengo.Int).Value)))
	}},
	{"text", "pad_left", func() []tengo.Object {
		return []tengo.Object{x19S(rep('a', vf.Choice("n1", 3))), x19I(int64(vf.Choice("padlen", 8))), x19S("p")}
	}, func(a []tengo.Object) tengo.Object {
		s, l := x19str(a[0]), int(a[1].(*tengo.Int).Value)
		if l > len(s) {
			return x19S(rep('p', l-len(s)) + s)
		}
		return x19S(s)
	}},
	{"text", "pad_right", func() []tengo.Object {
		return []tengo.Object{x19S(rep('a', vf.Choice("n1", 3))), x19I(int64(vf.Choice("padlen", 8)))}
	}, func(a []tengo.Object) tengo.Object {
		s, l := x19str(a[0]), int(a[1].(*tengo.Int).Value)
		if l > len(s) {
			return x19S(s + rep(' ', l-len(s)))
		}
		return x19S(s)
	}},
	{"text", "join", func() []tengo.Object {
		return []tengo.Object{x19Strs([]string{rep('a', vf.Choice("n1", 3)), rep('b', vf.Choice("n2", 3))}), x19S(rep('-', vf.Choice("m", 3)))}
	}, func(a []tengo.Object) tengo.Object {
		es := a[0].(*tengo.Array).Value
		return x19S(x19str(es[0]) + x19str(a[1]) + x19str(es[1]))
	}},
	{"text", "re_replace", func() []tengo.Object {
		return []tengo.Object{x19S("x"), x19S("xax"), x19S(rep('y', vf.Choice("m", 4)))}
	}, func(a []tengo.Object) tengo.Object {
		return x19S(strings.Replace(x19str(a[1]), "x", x19str(a[2]), -1))
	}},
	{"text", "quote", func() []tengo.Object { return []tengo.Object{x19S(rep('a', vf.Choice("n1", 4)))} },
		func(a []tengo.Object) tengo.Object { return x19S(strconv.Quote(x19str(a[0]))) }},
	{"text", "itoa", func() []tengo.Object { return []tengo.Object{x19I(x19pickI("i", []int64{0, 12345, -1234567}))} },
		func(a []tengo.Object) tengo.Object { return x19S(strconv.FormatInt(a[0].(*tengo.Int).Value, 10)) }},
	{"text", "to_upper", func() []tengo.Object { return []tengo.Object{x19S(x19pickS("s", []string{"ɐ", "aɐ", "ab"}))} },
		func(a []tengo.Object) tengo.Object { return x19S(strings.ToUpper(x19str(a[0]))) }},
	{"base64", "decode", func() []tengo.Object {
		return []tengo.Object{x19S(base64.StdEncoding.EncodeToString([]byte(rep('a', vf.Choice("n1", 7)))))}
	}, func(a []tengo.Object) tengo.Object {
		b, _ := base64.StdEncoding.DecodeString(x19str(a[0]))
		return x19Y(b)
	}},
	{"hex", "decode", func() []tengo.Object {
		return []tengo.Object{x19S(hex.EncodeToString([]byte(rep('a', vf.Choice("n1", 5)))))}
	}, func(a []tengo.Object) tengo.Object {
		b, _ := hex.DecodeString(x19str(a[0]))
		return x19Y(b)
	}},
	// base64.encode / hex.encode (adapter FuncAYRS) perform no MaxStringLen
	// check; the property states no limit rule for the stdlib, so they are
	// not asserted here (DESIGN.md 9.4, C19).
}

func C19_Limit() {
	e := x19lims[vf.Choice("fn", len(x19lims))]
	n := e.mod + "." + e.name
	L := vf.Int("L")
	LB := vf.Int("LB")
	vf.Assume(L >= 0)
	vf.Assume(L <= 8)
	vf.Assume(LB >= 0)
	vf.Assume(LB <= 8)
	args := e.args()
	for _, a := range args {
		// inputs are values that exist under the limits
		vf.Assume(maxLenIn(a, false, 0) <= L)
		vf.Assume(maxLenIn(a, true, 0) <= LB)
	}
	want := e.natural(args)
	f := x19fn(e.mod, e.name)
	oldS, oldB := tengo.MaxStringLen, tengo.MaxBytesLen
	tengo.MaxStringLen, tengo.MaxBytesLen = L, LB
	defer func() { tengo.MaxStringLen, tengo.MaxBytesLen = oldS, oldB }()
	got, err := x19call(n, f, args)
	over := vf.Or(maxLenIn(want, false, 0) > L, maxLenIn(want, true, 0) > LB)
	if err != nil {
		vf.Assert(errors.Is(err, tengo.ErrStringLimit) || errors.Is(err, tengo.ErrBytesLimit), n+": fails only with the limit error")
		vf.Assert(over, n+": no limit error for a result that fits")
	} else {
		vf.Assert(vf.Not(over), n+": a result longer than the limit is the limit error")
		vf.Assert(Same(got, want), n+": a result within the limit is the documented result")
	}
	vf.Reach("limit")
}

// ---------------------------------------------------------------------------
// math

// documented constants (docs/stdlib-math.md, "Constants"): the documentation
// gives the names; the values are Go's math constants of the same name.
var x19mathF = []struct {
	name string
	v    float64
}{
	{"e", math.E}, {"pi", math.Pi}, {"phi", math.Phi}, {"sqrt2", math.Sqrt2}, {"sqrtE", math.SqrtE},
	{"sqrtPi", math.SqrtPi}, // docs/stdlib-math.md spells it "sprtPi" (typo)
	{"sqrtPhi", math.SqrtPhi}, {"ln2", math.Ln2}, {"log2E", math.Log2E}, {"ln10", math.Ln10},
	{"log10E", math.Log10E}, // docs/stdlib-math.md spells it "ln10E" (typo)
	{"maxFloat32", math.MaxFloat32}, {"smallestNonzeroFloat32", math.SmallestNonzeroFloat32},
	{"maxFloat64", math.MaxFloat64}, {"smallestNonzeroFloat64", math.SmallestNonzeroFloat64},
}

var x19mathI = []struct {
	name string
	v    int64
}{
	{"maxInt", math.MaxInt}, {"minInt", math.MinInt}, {"maxInt8", math.MaxInt8}, {"minInt8", math.MinInt8},
	{"maxInt16", math.MaxInt16}, {"minInt16", math.MinInt16}, {"maxInt32", math.MaxInt32}, {"minInt32", math.MinInt32},
	{"maxInt64", math.MaxInt64}, {"minInt64", math.MinInt64},
}

func C19_MathConst() {
	m := stdlib.BuiltinModules["math"]
	k := vf.Choice("const", len(x19mathF)+len(x19mathI))
	if k < len(x19mathF) {
		c := x19mathF[k]
		o, ok := m[c.name]
		vf.Assert(ok, "math."+c.name+": the documented constant is provided by the module")
		vf.Assert(Same(o, x19F(c.v)), "math."+c.name+": has the value of the Go constant")
	} else {
		c := x19mathI[k-len(x19mathF)]
		o, ok := m[c.name]
		vf.Assert(ok, "math."+c.name+": the documented constant is provided by the module")
		vf.Assert(Same(o, x19I(c.v)), "math."+c.name+": has the value of the Go constant")
	}
	vf.Reach("math-const")
}

var x19mathF1 = []struct {
	name string
	f    func(float64) float64
}{
	{"abs", math.Abs}, {"acos", math.Acos}, {"acosh", math.Acosh}, {"asin", math.Asin}, {"asinh", math.Asinh},
	{"atan", math.Atan}, {"atanh", math.Atanh}, {"cbrt", math.Cbrt}, {"ceil", math.Ceil}, {"cos", math.Cos},
	{"cosh", math.Cosh}, {"erf", math.Erf}, {"erfc", math.Erfc}, {"exp", math.Exp}, {"exp2", math.Exp2},
	{"expm1", math.Expm1}, {"floor", math.Floor}, {"gamma", math.Gamma}, {"j0", math.J0}, {"j1", math.J1},
	{"log", math.Log}, {"log10", math.Log10}, {"log1p", math.Log1p}, {"log2", math.Log2}, {"logb", math.Logb},
	{"sin", math.Sin}, {"sinh", math.Sinh}, {"sqrt", math.Sqrt}, {"tan", math.Tan}, {"tanh", math.Tanh},
	{"trunc", math.Trunc}, {"y0", math.Y0}, {"y1", math.Y1},
}

var x19mathF2 = []struct {
	name string
	f    func(float64, float64) float64
}{
	{"atan2", math.Atan2}, {"copysign", math.Copysign}, {"dim", math.Dim}, {"hypot", math.Hypot}, {"max", math.Max},
	{"min", math.Min}, {"mod", math.Mod}, {"nextafter", math.Nextafter}, {"pow", math.Pow}, {"remainder", math.Remainder},
}

// x19numF: a float(compatible) argument: symbolic float or symbolic int.
func x19numF(id string) tengo.Object {
	if vf.Choice(id+".int", 2) == 1 {
		return x19I(vf.Int64(id + ".i"))
	}
	return x19F(vf.Float64(id + ".f"))
}

var x19xs = []float64{0, 0.5, 2.5, -1.5, 100, 1e-300}
var x19signs = []int64{-1, 0, 1, -9223372036854775808, 9223372036854775807}

func x19concF(id string) tengo.Object {
	k := vf.Choice(id, len(x19xs)+2)
	switch k {
	case len(x19xs):
		return x19F(math.NaN())
	case len(x19xs) + 1:
		return x19F(math.Inf(1))
	}
	return x19F(x19xs[k])
}

func x19mathTab() []x19spec {
	var tab []x19spec
	for k := range x19mathF1 {
		e := x19mathF1[k]
		tab = append(tab, x19spec{name: e.name, sig: "F",
			gen: func() []tengo.Object { return []tengo.Object{x19numF("x")} },
			chk: x19eq(func(a []x19arg) (tengo.Object, error) { return x19F(e.f(a[0].f)), nil })})
	}
	for k := range x19mathF2 {
		e := x19mathF2[k]
		tab = append(tab, x19spec{name: e.name, sig: "FF",
			gen: func() []tengo.Object { return []tengo.Object{x19numF("x"), x19numF("y")} },
			chk: x19eq(func(a []x19arg) (tengo.Object, error) { return x19F(e.f(a[0].f, a[1].f)), nil })})
	}
	tab = append(tab,
		// (documented "=> float ... as an integer": the Go function returns int)
		x19spec{name: "ilogb", sig: "F", gen: func() []tengo.Object { return []tengo.Object{x19numF("x")} },
			chk: x19eq(func(a []x19arg) (tengo.Object, error) { return x19I(int64(math.Ilogb(a[0].f))), nil })},
		// (the engine evaluates math.Inf on concrete signs only)
		x19spec{name: "inf", sig: "I", gen: func() []tengo.Object { return []tengo.Object{x19I(x19pickI("sign", x19signs))} },
			chk: x19eq(func(a []x19arg) (tengo.Object, error) { return x19F(math.Inf(int(a[0].i))), nil })},
		// (documented "=> float" for the three predicates: the Go functions report a bool)
		x19spec{name: "is_inf", sig: "FI", gen: func() []tengo.Object { return []tengo.Object{x19numF("x"), x19I(vf.Int64("sign"))} },
			chk: x19eq(func(a []x19arg) (tengo.Object, error) { return x19B(math.IsInf(a[0].f, int(a[1].i))), nil })},
		x19spec{name: "is_nan", sig: "F", gen: func() []tengo.Object { return []tengo.Object{x19numF("x")} },
			chk: x19eq(func(a []x19arg) (tengo.Object, error) { return x19B(math.IsNaN(a[0].f)), nil })},
		x19spec{name: "signbit", sig: "F", gen: func() []tengo.Object { return []tengo.Object{x19numF("x")} },
			chk: x19eq(func(a []x19arg) (tengo.Object, error) { return x19B(math.Signbit(a[0].f)), nil })},
		// Bessel functions of order n: concrete orders and arguments (the Go
		// bodies are loops of float arithmetic, not modelled symbolically)
		x19spec{name: "jn", sig: "IF", gen: func() []tengo.Object {
			return []tengo.Object{x19I(x19pickI("n", []int64{0, 1, 2, -1, 3})), x19concF("x")}
		}, chk: x19eq(func(a []x19arg) (tengo.Object, error) { return x19F(math.Jn(int(a[0].i), a[1].f)), nil })},
		x19spec{name: "yn", sig: "IF", gen: func() []tengo.Object {
			return []tengo.Object{x19I(x19pickI("n", []int64{0, 1, 2, -1, 3})), x19concF("x")}
		}, chk: x19eq(func(a []x19arg) (tengo.Object, error) { return x19F(math.Yn(int(a[0].i), a[1].f)), nil })},
		x19spec{name: "ldexp", sig: "FI", gen: func() []tengo.Object { return []tengo.Object{x19F(vf.Float64("x")), x19I(vf.Int64("exp"))} },
			chk: x19eq(func(a []x19arg) (tengo.Object, error) { return x19F(math.Ldexp(a[0].f, int(a[1].i))), nil })},
		x19spec{name: "nan", sig: "", gen: func() []tengo.Object { return nil },
			chk: x19eq(func(a []x19arg) (tengo.Object, error) { return x19F(math.NaN()), nil })},
		x19spec{name: "pow10", sig: "I", gen: func() []tengo.Object { return []tengo.Object{x19I(vf.Int64("n"))} },
			chk: x19eq(func(a []x19arg) (tengo.Object, error) { return x19F(math.Pow10(int(a[0].i))), nil })},
	)
	return tab
}

// C19_Math: every documented function of module math against the Go function
// of the same name (math.Sqrt, ... on a symbolic float are uninterpreted
// functions of their arguments in the engine: a swapped function or
// transposed arguments are decided exactly).
func C19_Math() { x19value("math", x19mathTab()); vf.Reach("math") }

func C19_MathArgs() {
	if vf.Choice("what", 2) == 0 {
		x19args("math", x19mathTab())
	} else {
		x19coerced("math", x19mathTab())
	}
	vf.Reach("math-args")
}

// ---------------------------------------------------------------------------
// times (clock-independent part: now, sleep, since, until are excluded)

// documented constants with their documented values
var x19timesS = []struct{ name, v string }{
	{"format_ansic", "Mon Jan _2 15:04:05 2006"},
	{"format_unix_date", "Mon Jan _2 15:04:05 MST 2006"},
	{"format_ruby_date", "Mon Jan 02 15:04:05 -0700 2006"},
	{"format_rfc822", "02 Jan 06 15:04 MST"},
	{"format_rfc822z", "02 Jan 06 15:04 -0700"},
	{"format_rfc850", "Monday, 02-Jan-06 15:04:05 MST"},
	{"format_rfc1123", "Mon, 02 Jan 2006 15:04:05 MST"},
	{"format_rfc1123z", "Mon, 02 Jan 2006 15:04:05 -0700"},
	{"format_rfc3339", "2006-01-02T15:04:05Z07:00"},
	{"format_rfc3339_nano", "2006-01-02T15:04:05.999999999Z07:00"},
	{"format_kitchen", "3:04PM"},
	{"format_stamp", "Jan _2 15:04:05"},
	{"format_stamp_milli", "Jan _2 15:04:05.000"},
	{"format_stamp_micro", "Jan _2 15:04:05.000000"},
	{"format_stamp_nano", "Jan _2 15:04:05.000000000"},
}

// durations in nanoseconds (Go's time.Duration constants), months 1..12
var x19timesI = []struct {
	name string
	v    int64
}{
	{"nanosecond", 1}, {"microsecond", 1000}, {"millisecond", 1000000}, {"second", 1000000000},
	{"minute", 60000000000}, {"hour", 3600000000000},
	{"january", 1}, {"february", 2}, {"march", 3}, {"april", 4}, {"may", 5}, {"june", 6}, {"july", 7},
	{"august", 8}, {"september", 9}, {"october", 10}, {"november", 11}, {"december", 12},
}

func C19_TimesConst() {
	m := stdlib.BuiltinModules["times"]
	k := vf.Choice("const", len(x19timesS)+len(x19timesI))
	if k < len(x19timesS) {
		c := x19timesS[k]
		o, ok := m[c.name]
		vf.Assert(ok, "times."+c.name+": the documented constant is provided by the module")
		vf.Assert(Same(o, x19S(c.v)), "times."+c.name+": has the documented value")
	} else {
		c := x19timesI[k-len(x19timesS)]
		o, ok := m[c.name]
		vf.Assert(ok, "times."+c.name+": the documented constant is provided by the module")
		vf.Assert(Same(o, x19I(c.v)), "times."+c.name+": has the value of the Go constant")
	}
	vf.Reach("times-const")
}

// x19symT: a time value: symbolic seconds (|sec| < 2^40), nanoseconds from a
// boundary set, in the local zone, in UTC, or the zero time.
func x19symT(id string) tengo.Object {
	kind := vf.Choice(id+".kind", 3)
	if kind == 2 {
		return x19T(time.Time{})
	}
	sec := vf.Int64(id + ".sec")
	vf.Assume(sec > -(1 << 40))
	vf.Assume(sec < (1 << 40))
	t := time.Unix(sec, x19pickI(id+".nsec", []int64{0, 5, 999999999}))
	if kind == 1 {
		t = t.UTC()
	}
	return x19T(t)
}

// concrete times for everything that renders
func x19concT(id string) tengo.Object {
	switch vf.Choice(id, 4) {
	case 0:
		return x19T(time.Unix(1700000000, 5))
	case 1:
		return x19T(time.Date(2021, 3, 4, 15, 6, 7, 80000000, time.UTC))
	case 2:
		return x19T(time.Date(1999, 12, 31, 23, 59, 59, 999999999, time.UTC))
	}
	return x19T(time.Time{})
}

func x19genT1() []tengo.Object { return []tengo.Object{x19symT("t")} }
func x19genTT() []tengo.Object { return []tengo.Object{x19symT("t"), x19symT("u")} }

// x19wantT: time results are compared as instant and zone name.
func x19wantT(n string, want time.Time, werr error, got tengo.Object, err error) {
	if werr != nil {
		x19want(n, nil, werr, got, err)
		return
	}
	vf.Assert(err == nil, n+": no run-time error for right-typed arguments in the Go function's domain")
	g, ok := got.(*tengo.Time)
	vf.Assert(ok, n+": result is a time")
	vf.Assert(g.Value.Equal(want), n+": result is the instant the documented Go function returns")
	vf.Assert(g.Value.Location().String() == want.Location().String(), n+": result is in the zone the documented Go function returns")
}

func x19eqT(f func(a []x19arg) (time.Time, error)) func(string, []x19arg, tengo.Object, error) {
	return func(n string, a []x19arg, got tengo.Object, err error) {
		want, werr := f(a)
		x19wantT(n, want, werr, got, err)
	}
}

func x19tI(f func(t time.Time) int64) x19spec {
	return x19spec{sig: "T", gen: x19genT1, chk: x19eq(func(a []x19arg) (tengo.Object, error) { return x19I(f(a[0].t)), nil })}
}

// calendar boundary instants (leap days, year ends, before the epoch, year 1)
var x19cal = [][7]int{
	{2023, 11, 14, 22, 13, 20, 5}, {2021, 3, 4, 15, 6, 7, 80000000}, {1999, 12, 31, 23, 59, 59, 999999999},
	{2020, 2, 29, 0, 0, 0, 0}, {2100, 2, 28, 23, 59, 59, 0}, {2100, 3, 1, 0, 0, 0, 0}, {1600, 1, 1, 0, 0, 0, 0},
	{1970, 1, 1, 0, 0, 0, 0}, {1969, 12, 31, 23, 59, 59, 0}, {2024, 12, 31, 12, 0, 0, 0}, {1, 1, 1, 0, 0, 0, 0}, {2023, 7, 31, 1, 2, 3, 4},
}

func x19calT(id string) tengo.Object {
	c := x19cal[vf.Choice(id+".cal", len(x19cal))]
	t := time.Date(c[0], time.Month(c[1]), c[2], c[3], c[4], c[5], c[6], time.UTC)
	if vf.Choice(id+".local", 2) == 1 {
		t = t.Local()
	}
	return x19T(t)
}

func x19calI(f func(t time.Time) int64) x19spec {
	return x19spec{sig: "T",
		gen: func() []tengo.Object { return []tengo.Object{x19calT("t")} },
		chk: x19eq(func(a []x19arg) (tengo.Object, error) { return x19I(f(a[0].t)), nil })}
}

func x19named(name string, e x19spec) x19spec { e.name = name; return e }

var x19durStrs = []string{"300ms", "-1.5h", "2h45m", "1us", "1µs", "", "1", "x", "9223372036854775807ns", "9223372036854775808ns", "1.5.5s", "+.5s"}
var x19durs = []int64{0, 1, 999, 1000, 1500000, 90000000000, -3600000000000, 9223372036854775807, -9223372036854775808}
var x19layouts = []string{
	"Mon Jan _2 15:04:05 2006", "Mon Jan _2 15:04:05 MST 2006", "Mon Jan 02 15:04:05 -0700 2006", "02 Jan 06 15:04 MST",
	"02 Jan 06 15:04 -0700", "Monday, 02-Jan-06 15:04:05 MST", "Mon, 02 Jan 2006 15:04:05 MST", "Mon, 02 Jan 2006 15:04:05 -0700",
	"2006-01-02T15:04:05Z07:00", "2006-01-02T15:04:05.999999999Z07:00", "3:04PM", "Jan _2 15:04:05", "Jan _2 15:04:05.000",
	"Jan _2 15:04:05.000000", "Jan _2 15:04:05.000000000", "", "Monday January 2006 __2 pm", "x",
}
var x19dates = [][7]int64{
	{2021, 3, 4, 5, 6, 7, 8}, {2020, 2, 29, 23, 59, 59, 999999999}, {2021, 13, 32, 25, 61, 62, 1000000003},
	{1, 1, 1, 0, 0, 0, 0}, {1969, 12, 31, 23, 59, 58, 0}, {2021, 0, 0, -1, -2, -3, -4}, {-1, 5, 6, 7, 8, 9, 10}, {2024, 2, 30, 0, 0, 0, 0},
}
var x19parses = [][2]string{
	{"2006-01-02T15:04:05Z07:00", "2020-02-03T04:05:06Z"}, {"2006-01-02T15:04:05Z07:00", "2020-02-03T04:05:06+09:00"},
	{"2006-01-02", "2021-03-04"}, {"2006-01-02", "2021-13-04"}, {"3:04PM", "3:04PM"}, {"3:04PM", "13:04PM"},
	{"Mon, 02 Jan 2006 15:04:05 MST", "Mon, 02 Jan 2006 15:04:05 MST"}, {"2006-01-02", ""}, {"", ""},
	{"Mon Jan _2 15:04:05 2006", "Mon Jan  2 15:04:05 2006"}, {"15:04:05.000", "01:02:03.456"}, {"Jan 2 2006", "Feb 30 2021"},
	{"2021-03-04", "2006-01-02"},
}

func x19loc(name string) (*time.Location, error) { return time.LoadLocation(name) }

// zone names that need no zone database
var x19zones = []string{"UTC", "Local", ""}

func x19timesTab() []x19spec {
	dF := func(f func(d time.Duration) float64) x19spec {
		return x19spec{sig: "I", gen: func() []tengo.Object { return []tengo.Object{x19I(vf.Int64("d"))} },
			chk: x19eq(func(a []x19arg) (tengo.Object, error) { return x19F(f(time.Duration(a[0].i))), nil })}
	}
	ttB := func(f func(t, u time.Time) bool) x19spec {
		return x19spec{sig: "TT", gen: x19genTT, chk: x19eq(func(a []x19arg) (tengo.Object, error) { return x19B(f(a[0].t, a[1].t)), nil })}
	}
	return []x19spec{
		{name: "parse_duration", sig: "S",
			gen: func() []tengo.Object {
				k := vf.Choice("s.kind", 1+len(x19durStrs))
				if k == 0 {
					// two symbolic bytes in both tiers: a third byte reaches the
					// fraction scaling, a float conversion the engine does not model
					// (fractions are in the concrete list)
					return []tengo.Object{x19S(x19sym("s", 2-Tier(), true))}
				}
				return []tengo.Object{x19S(x19durStrs[k-1])}
			},
			chk: x19eq(func(a []x19arg) (tengo.Object, error) {
				d, err := time.ParseDuration(a[0].s)
				return x19I(int64(d)), err
			}),
			smp: func() []tengo.Object { return []tengo.Object{x19S("1h2m")} }},
		x19named("duration_hours", dF(time.Duration.Hours)),
		x19named("duration_minutes", dF(time.Duration.Minutes)),
		x19named("duration_seconds", dF(time.Duration.Seconds)),
		{name: "duration_nanoseconds", sig: "I", gen: func() []tengo.Object { return []tengo.Object{x19I(vf.Int64("d"))} },
			chk: x19eq(func(a []x19arg) (tengo.Object, error) { return x19I(time.Duration(a[0].i).Nanoseconds()), nil })},
		{name: "duration_string", sig: "I", gen: func() []tengo.Object { return []tengo.Object{x19I(x19pickI("d", x19durs))} },
			chk: x19eq(func(a []x19arg) (tengo.Object, error) { return x19S(time.Duration(a[0].i).String()), nil })},
		{name: "month_string", sig: "I", gen: func() []tengo.Object { return []tengo.Object{x19I(int64(vf.Choice("m", 15)) - 1)} },
			chk: x19eq(func(a []x19arg) (tengo.Object, error) { return x19S(time.Month(a[0].i).String()), nil })},
		{name: "date", sig: "IIIIIIIS", opt: 1, loc: true,
			gen: func() []tengo.Object {
				d := x19dates[vf.Choice("date", len(x19dates))]
				var args []tengo.Object
				for _, v := range d {
					args = append(args, x19I(v))
				}
				// (without a zone the implementation asks time.Now() for the local
				// zone, which the engine treats as a clock read: replay-only case)
				if z := vf.Choice("zone", len(x19zones)+1); z < len(x19zones) {
					args = append(args, x19S(x19zones[z]))
				} else if vf.Symbolic() {
					vf.Stop()
				}
				return args
			},
			chk: x19eqT(func(a []x19arg) (time.Time, error) {
				loc := time.Local // "The Local time zone will be used if executed without specifying a location"
				if len(a) > 7 {
					l, err := x19loc(a[7].s)
					if err != nil {
						return time.Time{}, err
					}
					loc = l
				}
				return time.Date(int(a[0].i), time.Month(a[1].i), int(a[2].i), int(a[3].i), int(a[4].i), int(a[5].i), int(a[6].i), loc), nil
			}),
			smp: func() []tengo.Object {
				return []tengo.Object{x19I(2021), x19I(3), x19I(4), x19I(5), x19I(6), x19I(7), x19I(8), x19S("UTC")}
			}},
		{name: "parse", sig: "SS",
			gen: func() []tengo.Object {
				k := vf.Choice("p.kind", 1+len(x19parses))
				if k == 0 {
					return []tengo.Object{x19S("15"), x19S(x19sym("s", 2, true))}
				}
				return []tengo.Object{x19S(x19parses[k-1][0]), x19S(x19parses[k-1][1])}
			},
			chk: x19eqT(func(a []x19arg) (time.Time, error) { return time.Parse(a[0].s, a[1].s) }),
			smp: func() []tengo.Object { return []tengo.Object{x19S("2006-01-02"), x19S("2021-03-04")} }},
		{name: "unix", sig: "II",
			gen: func() []tengo.Object {
				sec := vf.Int64("sec")
				vf.Assume(sec > -(1 << 40))
				vf.Assume(sec < (1 << 40))
				return []tengo.Object{x19I(sec), x19I(x19pickI("nsec", []int64{0, 5, 999999999, 1000000000, -1, 1 << 40}))}
			},
			chk: x19eqT(func(a []x19arg) (time.Time, error) { return time.Unix(a[0].i, a[1].i), nil })},
		{name: "add", sig: "TI",
			gen: func() []tengo.Object {
				d := vf.Int64("d")
				vf.Assume(d > -(1 << 50))
				vf.Assume(d < (1 << 50))
				return []tengo.Object{x19symT("t"), x19I(d)}
			},
			chk: x19eqT(func(a []x19arg) (time.Time, error) { return a[0].t.Add(time.Duration(a[1].i)), nil })},
		{name: "add_date", sig: "TIII",
			gen: func() []tengo.Object {
				ymd := [][3]int64{{-1, 2, 3}, {0, 0, 0}, {1, 0, 0}, {0, 1, 0}, {0, 0, 1}, {0, 12, 31}, {5, -7, 400}}
				c := ymd[vf.Choice("ymd", len(ymd))]
				return []tengo.Object{x19concT("t"), x19I(c[0]), x19I(c[1]), x19I(c[2])}
			},
			chk: x19eqT(func(a []x19arg) (time.Time, error) { return a[0].t.AddDate(int(a[1].i), int(a[2].i), int(a[3].i)), nil }),
			smp: func() []tengo.Object {
				return []tengo.Object{x19T(time.Unix(1700000000, 5)), x19I(1), x19I(2), x19I(3)}
			}},
		// (Sub checks for overflow with a 64-bit multiply and divide of the
		// difference, which stalls the solver on symbolic instants: pairs from
		// the calendar boundary set, including pairs whose difference overflows)
		{name: "sub", sig: "TT",
			gen: func() []tengo.Object { return []tengo.Object{x19calT("t"), x19calT("u")} },
			chk: x19eq(func(a []x19arg) (tengo.Object, error) { return x19I(int64(a[0].t.Sub(a[1].t))), nil })},
		x19named("after", ttB(time.Time.After)),
		x19named("before", ttB(time.Time.Before)),
		x19named("time_year", x19tI(func(t time.Time) int64 { return int64(t.Year()) })),
		// (month and day of a symbolic instant cost the solver hundreds of
		// division queries per path: a calendar boundary set instead)
		x19named("time_month", x19calI(func(t time.Time) int64 { return int64(t.Month()) })),
		x19named("time_day", x19calI(func(t time.Time) int64 { return int64(t.Day()) })),
		x19named("time_weekday", x19tI(func(t time.Time) int64 { return int64(t.Weekday()) })),
		x19named("time_hour", x19tI(func(t time.Time) int64 { return int64(t.Hour()) })),
		x19named("time_minute", x19tI(func(t time.Time) int64 { return int64(t.Minute()) })),
		x19named("time_second", x19tI(func(t time.Time) int64 { return int64(t.Second()) })),
		x19named("time_nanosecond", x19tI(func(t time.Time) int64 { return int64(t.Nanosecond()) })),
		x19named("time_unix", x19tI(func(t time.Time) int64 { return t.Unix() })),
		x19named("time_unix_nano", x19tI(func(t time.Time) int64 { return t.UnixNano() })),
		{name: "time_format", sig: "TS",
			gen: func() []tengo.Object { return []tengo.Object{x19concT("t"), x19S(x19pickS("layout", x19layouts))} },
			chk: x19eq(func(a []x19arg) (tengo.Object, error) { return x19S(a[0].t.Format(a[1].s)), nil }),
			smp: func() []tengo.Object {
				return []tengo.Object{x19T(time.Unix(1700000000, 5)), x19S("2006-01-02T15:04:05Z07:00")}
			}},
		{name: "time_location", sig: "T", gen: x19genT1, chk: x19eq(func(a []x19arg) (tengo.Object, error) { return x19S(a[0].t.Location().String()), nil })},
		// "formatted using the format string 2006-01-02 15:04:05.999999999 -0700 MST"
		{name: "time_string", sig: "T", gen: func() []tengo.Object { return []tengo.Object{x19concT("t")} },
			chk: x19eq(func(a []x19arg) (tengo.Object, error) {
				return x19S(a[0].t.Format("2006-01-02 15:04:05.999999999 -0700 MST")), nil
			})},
		{name: "is_zero", sig: "T", gen: x19genT1, chk: x19eq(func(a []x19arg) (tengo.Object, error) { return x19B(a[0].t.IsZero()), nil })},
		{name: "in_location", sig: "TS", loc: true,
			gen: func() []tengo.Object { return []tengo.Object{x19symT("t"), x19S(x19pickS("zone", x19zones))} },
			chk: x19eqT(func(a []x19arg) (time.Time, error) {
				l, err := x19loc(a[1].s)
				if err != nil {
					return time.Time{}, err
				}
				return a[0].t.In(l), nil
			}),
			smp: func() []tengo.Object { return []tengo.Object{x19T(time.Unix(1700000000, 5)), x19S("UTC")} }},
		{name: "to_local", sig: "T", gen: x19genT1, chk: x19eqT(func(a []x19arg) (time.Time, error) { return a[0].t.Local(), nil })},
		{name: "to_utc", sig: "T", gen: x19genT1, chk: x19eqT(func(a []x19arg) (time.Time, error) { return a[0].t.UTC(), nil })},
	}
}

// C19_Times: the clock-independent functions of module times against the
// time.* function the documentation describes.
func C19_Times() { x19value("times", x19timesTab()); vf.Reach("times") }

func C19_TimesArgs() {
	if vf.Choice("what", 2) == 0 {
		x19args("times", x19timesTab())
	} else {
		x19coerced("times", x19timesTab())
	}
	vf.Reach("times-args")
}

// ---------------------------------------------------------------------------
// enum (a source module: checked through scripts that import it)

// x19kv is one element of the enumerated value: key (int index or string
// key) and symbolic int value.
type x19kv struct {
	ik  int64
	sk  string
	val int64
}

func (e x19kv) key(isMap bool) tengo.Object {
	if isMap {
		return x19S(e.sk)
	}
	return x19I(e.ik)
}

// x19enumX builds the enumerated argument: arrays of 0..W()+1 symbolic ints
// (mutable or immutable), maps of 0..2 symbolic ints (mutable or immutable),
// or a value that is not enumerable.
func x19enumX() (x tengo.Object, es []x19kv, isArr, isMap bool) {
	shape := vf.Choice("x.shape", 5)
	switch shape {
	case 0, 1:
		n := vf.Choice("x.len", W()+2)
		var vs []tengo.Object
		for k := 0; k < n; k++ {
			v := vf.Int64("x" + strconv.Itoa(k))
			es = append(es, x19kv{ik: int64(k), val: v})
			vs = append(vs, x19I(v))
		}
		if shape == 0 {
			return &tengo.Array{Value: vs}, es, true, false
		}
		return &tengo.ImmutableArray{Value: vs}, es, true, false
	case 2, 3:
		n := vf.Choice("x.len", 3)
		m := map[string]tengo.Object{}
		for k := 0; k < n; k++ {
			v := vf.Int64("x" + strconv.Itoa(k))
			es = append(es, x19kv{sk: mapKeys[k], val: v})
			m[mapKeys[k]] = x19I(v)
		}
		if shape == 2 {
			return &tengo.Map{Value: m}, es, false, true
		}
		return &tengo.ImmutableMap{Value: m}, es, false, true
	}
	others := []tengo.Object{x19I(5), x19S("ab"), tengo.UndefinedValue, x19Y([]byte("ab"))}
	return others[vf.Choice("x.other", len(others))], nil, false, false
}

var x19enumFns = []string{"all", "any", "chunk", "at", "each", "filter", "find", "find_key", "map", "key", "value"}

var x19enumSrc = map[string]string{
	// the callback sees (key, value); pk selects a key-based predicate
	"all":      `enum := import("enum"); out := enum.all(x, func(k, v) { return pk ? k != key : v > t })`,
	"any":      `enum := import("enum"); out := enum.any(x, func(k, v) { return pk ? k == key : v > t })`,
	"chunk":    `enum := import("enum"); out := enum.chunk(x, size)`,
	"at":       `enum := import("enum"); out := enum.at(x, key)`,
	"each":     `enum := import("enum"); ps := []; out := enum.each(x, func(k, v) { ps = append(ps, [k, v]) })`,
	"filter":   `enum := import("enum"); out := enum.filter(x, func(k, v) { return pk ? k != key : v > t })`,
	"find":     `enum := import("enum"); out := enum.find(x, func(k, v) { return pk ? k == key : v > t })`,
	"find_key": `enum := import("enum"); out := enum.find_key(x, func(k, v) { return pk ? k == key : v > t })`,
	"map":      `enum := import("enum"); out := enum.map(x, func(k, v) { return [k, v + t] })`,
	"key":      `enum := import("enum"); out := enum.key(x, t)`,
	"value":    `enum := import("enum"); out := enum.value(t, x)`,
}

func x19pair(k tengo.Object, v int64) tengo.Object {
	return &tengo.Array{Value: []tengo.Object{k, x19I(v)}}
}

// x19perm: got is a permutation of want (map iteration order is unspecified).
func x19perm(got, want []tengo.Object) bool {
	if len(got) != len(want) {
		return false
	}
	used := make([]bool, len(want))
	for _, g := range got {
		found := false
		for k, w := range want {
			if !used[k] && Same(g, w) {
				used[k], found = true, true
				break
			}
		}
		if !found {
			return false
		}
	}
	return true
}

// C19_Enum: every documented function of module enum, on arrays and maps of
// symbolic ints with Tengo callbacks, against reference implementations
// written from docs/stdlib-enum.md.
func C19_Enum() {
	fn := x19enumFns[vf.Choice("fn", len(x19enumFns))]
	n := "enum." + fn
	x, es, isArr, isMap := x19enumX()
	enumerable := isArr || isMap
	t := vf.Int64("t")
	pk := false
	var key tengo.Object = x19I(1)
	size := 1
	switch fn {
	case "all", "any", "filter", "find", "find_key":
		pk = vf.Choice("pk", 2) == 1
		if pk && isMap {
			key = x19S("b")
		}
		if pk && !enumerable {
			vf.Stop()
		}
	case "at":
		keys := []tengo.Object{x19I(-1), x19I(0), x19I(1), x19I(int64(len(es))), x19S("a"), x19S("c"), x19S("zz"), tengo.UndefinedValue}
		key = keys[vf.Choice("key", len(keys))]
	case "chunk":
		size = 1 + vf.Choice("size", 3)
	}
	pred := func(e x19kv) bool { // the callbacks above, in Go
		if pk {
			same := Same(e.key(isMap), key)
			if fn == "all" || fn == "filter" {
				return !same
			}
			return same
		}
		return e.val > t
	}

	s := tengo.NewScript([]byte(x19enumSrc[fn]))
	s.SetImports(stdlib.GetModuleMap("enum"))
	_ = s.Add("x", x)
	_ = s.Add("t", t)
	_ = s.Add("pk", pk)
	_ = s.Add("key", key)
	_ = s.Add("size", size)
	c, err := s.Compile()
	vf.Assert(err == nil, n+": script importing enum compiles")
	rerr, panicked, _ := RunGuarded(c)
	vf.Assert(!panicked && rerr == nil, n+": script runs without a run-time error")
	out := c.Get("out").Object()
	undef := tengo.Object(tengo.UndefinedValue)

	switch fn {
	case "all", "any":
		if !enumerable {
			vf.Assert(out == undef, n+": undefined when x is not enumerable")
			break
		}
		want := fn == "all"
		for _, e := range es {
			if fn == "all" {
				want = want && pred(e)
			} else {
				want = want || pred(e)
			}
		}
		vf.Assert(out == x19B(want), n+": the documented truth value")
	case "chunk":
		if !isArr {
			vf.Assert(out == undef, n+": undefined when x is not an array")
			break
		}
		var want []tengo.Object
		for lo := 0; lo < len(es); lo += size {
			var ch []tengo.Object
			for k := lo; k < lo+size && k < len(es); k++ {
				ch = append(ch, x19I(es[k].val))
			}
			want = append(want, &tengo.Array{Value: ch})
		}
		got, ok := out.(*tengo.Array)
		vf.Assert(ok, n+": result is an array")
		vf.Assert(len(got.Value) == len(want), n+": number of groups")
		for k := range want {
			// (a group may be an array or, for an immutable x, an immutable array: only the elements are documented)
			var elems []tengo.Object
			switch g := got.Value[k].(type) {
			case *tengo.Array:
				elems = g.Value
			case *tengo.ImmutableArray:
				elems = g.Value
			default:
				vf.Fail(n + ": each group is an array")
			}
			vf.Assert(sameList(elems, want[k].(*tengo.Array).Value), n+": groups of the given size in order, the last one holding the rest")
		}
	case "at":
		var want tengo.Object = tengo.UndefinedValue
		if isArr {
			if i, ok := key.(*tengo.Int); ok && i.Value >= 0 && i.Value < int64(len(es)) {
				want = x19I(es[i.Value].val)
			}
		} else if isMap {
			if sk, ok := key.(*tengo.String); ok {
				for _, e := range es {
					if e.sk == sk.Value {
						want = x19I(e.val)
					}
				}
			}
		}
		vf.Assert(Same(out, want), n+": the element at the index / key, undefined otherwise")
	case "each":
		vf.Assert(out == undef, n+": returns undefined")
		ps := c.Get("ps").Object().(*tengo.Array).Value
		var want []tengo.Object
		for _, e := range es {
			want = append(want, x19pair(e.key(isMap), e.val))
		}
		if isMap {
			vf.Assert(x19perm(ps, want), n+": fn is invoked once per element with (key, value)")
		} else {
			vf.Assert(sameList(ps, want), n+": fn is invoked once per element, in order, with (index, value)")
		}
	case "filter":
		if !isArr {
			vf.Assert(out == undef, n+": undefined when x is not an array")
			break
		}
		var want []tengo.Object
		for _, e := range es {
			if pred(e) {
				want = append(want, x19I(e.val))
			}
		}
		got, ok := out.(*tengo.Array)
		vf.Assert(ok && sameList(got.Value, want), n+": the elements fn is truthy for, in order")
	case "find", "find_key":
		if !enumerable {
			vf.Assert(out == undef, n+": undefined when x is not enumerable")
			break
		}
		// arrays: the first match; maps: some match (iteration order unspecified)
		anyMatch, okMatch := false, false
		for _, e := range es {
			if !pred(e) {
				continue
			}
			var w tengo.Object = x19I(e.val)
			if fn == "find_key" {
				w = e.key(isMap)
			}
			if isArr && anyMatch {
				break
			}
			anyMatch = true
			if Same(out, w) {
				okMatch = true
			}
		}
		if anyMatch {
			vf.Assert(okMatch, n+": the first element fn is truthy for")
		} else {
			vf.Assert(out == undef, n+": undefined when fn is truthy for no element")
		}
	case "map":
		if !enumerable {
			vf.Assert(out == undef, n+": undefined when x is not enumerable")
			break
		}
		var want []tengo.Object
		for _, e := range es {
			want = append(want, x19pair(e.key(isMap), e.val+t))
		}
		got, ok := out.(*tengo.Array)
		vf.Assert(ok, n+": result is an array")
		if isMap {
			vf.Assert(x19perm(got.Value, want), n+": fn(key, value) of every element")
		} else {
			vf.Assert(sameList(got.Value, want), n+": fn(index, value) of every element, in order")
		}
	case "key":
		vf.Assert(Same(out, x), n+": returns its first argument")
	case "value":
		vf.Assert(Same(out, x), n+": returns its second argument")
	}
	vf.Reach("enum")
}
