package h

import (
	"encoding/hex"
	"math"
	"regexp"
	"time"

	"github.com/d5/tengo/v2"
	"github.com/d5/tengo/v2/stdlib"
	"verif/h/vf"
)

func C19_SpikeRe() {
	m := stdlib.BuiltinModules["text"]
	f := m["re_match"].(*tengo.UserFunction)
	pats := []string{"a+", "(a)(b)?", "("}
	p := pats[vf.Choice("p", len(pats))]
	s := vf.String("s", 2)
	got, err := f.Value(&tengo.String{Value: p}, &tengo.String{Value: s})
	vf.Assert(err == nil, "no err")
	want, werr := regexp.MatchString(p, s)
	if werr != nil {
		e, ok := got.(*tengo.Error)
		vf.Assert(ok, "re_match error")
		vf.Assert(e.Value.(*tengo.String).Value == werr.Error(), "re_match error text")
	} else {
		vf.Assert(vf.Iff(got == tengo.Object(tengo.TrueValue), want), "re_match")
	}
	vf.Reach("spike")
}

var spikeF1 = []struct {
	name string
	f    func(float64) float64
}{{"sqrt", math.Sqrt}, {"sin", math.Sin}, {"floor", math.Floor}, {"abs", math.Abs}, {"gamma", math.Gamma}, {"logb", math.Logb}}

func C19_SpikeMathA() { spikeMath(vf.Choice("k", len(spikeF1))) }
func C19_SpikeMathB() { spikeMath(len(spikeF1)) }
func C19_SpikeMathC() { spikeMath(len(spikeF1) + 1) }
func C19_SpikeMathD() { spikeMath(len(spikeF1) + 2) }
func spikeMath(k int) {
	m := stdlib.BuiltinModules["math"]
	x := vf.Float64("x")
	if k < len(spikeF1) {
		e := spikeF1[k]
		f := m[e.name].(*tengo.UserFunction)
		got, err := f.Value(&tengo.Float{Value: x})
		vf.Assert(err == nil, "no err")
		vf.Assert(Same(got, &tengo.Float{Value: e.f(x)}), "math "+e.name)
	} else if k == len(spikeF1) {
		n := vf.Int64("n")
		got, err := m["jn"].(*tengo.UserFunction).Value(&tengo.Int{Value: n}, &tengo.Float{Value: x})
		vf.Assert(err == nil, "no err")
		vf.Assert(Same(got, &tengo.Float{Value: math.Jn(int(n), x)}), "math jn")
	} else if k == len(spikeF1)+1 {
		n := vf.Int64("n")
		got, err := m["ldexp"].(*tengo.UserFunction).Value(&tengo.Float{Value: x}, &tengo.Int{Value: n})
		vf.Assert(err == nil, "no err")
		vf.Assert(Same(got, &tengo.Float{Value: math.Ldexp(x, int(n))}), "math ldexp")
	} else {
		n := vf.Int64("n")
		got, err := m["pow10"].(*tengo.UserFunction).Value(&tengo.Int{Value: n})
		vf.Assert(err == nil, "no err")
		vf.Assert(Same(got, &tengo.Float{Value: math.Pow10(int(n))}), "math pow10")
	}
	vf.Reach("spike")
}

func C19_SpikeTimes() {
	m := stdlib.BuiltinModules["times"]
	k := vf.Choice("k", 6)
	sec := vf.Int64("sec")
	vf.Assume(sec > -(1 << 40))
	vf.Assume(sec < (1 << 40))
	t := time.Unix(sec, 5)
	switch k {
	case 0:
		got, err := m["time_year"].(*tengo.UserFunction).Value(&tengo.Time{Value: t})
		vf.Assert(err == nil, "no err")
		vf.Assert(Same(got, &tengo.Int{Value: int64(t.Year())}), "time_year")
	case 1:
		got, err := m["time_hour"].(*tengo.UserFunction).Value(&tengo.Time{Value: t})
		vf.Assert(err == nil, "no err")
		vf.Assert(Same(got, &tengo.Int{Value: int64(t.Hour())}), "time_hour")
	case 2:
		d := vf.Int64("d")
		got, err := m["duration_hours"].(*tengo.UserFunction).Value(&tengo.Int{Value: d})
		vf.Assert(err == nil, "no err")
		vf.Assert(Same(got, &tengo.Float{Value: time.Duration(d).Hours()}), "duration_hours")
	case 3:
		got, err := m["in_location"].(*tengo.UserFunction).Value(&tengo.Time{Value: t}, &tengo.String{Value: "No/Such"})
		vf.Assert(err == nil, "no err")
		_, isErr := got.(*tengo.Error)
		vf.Assert(isErr, "in_location bad")
	case 4:
		got, err := m["time_format"].(*tengo.UserFunction).Value(&tengo.Time{Value: time.Unix(1700000000, 5)}, &tengo.String{Value: time.RFC3339Nano})
		vf.Assert(err == nil, "no err")
		vf.Assert(Same(got, &tengo.String{Value: time.Unix(1700000000, 5).Format(time.RFC3339Nano)}), "time_format")
	case 5:
		got, err := m["parse"].(*tengo.UserFunction).Value(&tengo.String{Value: time.RFC3339}, &tengo.String{Value: "2020-02-03T04:05:06Z"})
		vf.Assert(err == nil, "no err")
		w, werr := time.Parse(time.RFC3339, "2020-02-03T04:05:06Z")
		vf.Assert(werr == nil, "ref parses")
		vf.Assert(Same(got, &tengo.Time{Value: w}), "parse")
	}
	vf.Reach("spike")
}

func C19_SpikeHex() {
	m := stdlib.BuiltinModules["hex"]
	s := vf.String("s", 2)
	got, err := m["decode"].(*tengo.UserFunction).Value(&tengo.String{Value: s})
	vf.Assert(err == nil, "no err")
	w, werr := hex.DecodeString(s)
	if werr != nil {
		vf.Assert(Same(got, &tengo.Error{Value: &tengo.String{Value: werr.Error()}}), "hex decode error")
	} else {
		vf.Assert(Same(got, &tengo.Bytes{Value: w}), "hex decode")
	}
	vf.Reach("spike")
}
