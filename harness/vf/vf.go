// Package vf is the harness vocabulary. Under the symbolic engine every
// function here is intercepted by name; the bodies below are the native
// replay implementations, which read a recorded counterexample
// (VERIF_REPLAY=<file.json>) and report assertion failures.
package vf

import (
	"encoding/json"
	"fmt"
	"math"
	"os"
	"runtime"
	"strconv"
	"sync"
)

type Replay struct {
	Harness string            `json:"harness"`
	Inputs  map[string]string `json:"inputs"`
	Choices []int             `json:"choices"`
}

var (
	R        Replay
	choiceAt int
	Failed   []string
	Reached  = map[string]bool{}
)

func Load(path string) error {
	b, err := os.ReadFile(path)
	if err != nil {
		return err
	}
	R = Replay{}
	choiceAt = 0
	Failed = nil
	return json.Unmarshal(b, &R)
}

func sanitize(id string) string {
	out := "in_"
	for _, r := range id {
		switch {
		case r >= 'a' && r <= 'z', r >= 'A' && r <= 'Z', r >= '0' && r <= '9', r == '_':
			out += string(r)
		default:
			out += fmt.Sprintf(".%x.", r)
		}
	}
	return out
}

func raw(id string) uint64 {
	s, ok := R.Inputs[sanitize(id)]
	if !ok {
		return 0
	}
	v, _ := strconv.ParseUint(s, 10, 64)
	return v
}

func Int64(id string) int64     { return int64(raw(id)) }
func Int(id string) int         { return int(raw(id)) }
func Int32(id string) int32     { return int32(raw(id)) }
func Uint64(id string) uint64   { return raw(id) }
func Uint32(id string) uint32   { return uint32(raw(id)) }
func Uint16(id string) uint16   { return uint16(raw(id)) }
func Float64(id string) float64 { return math.Float64frombits(raw(id)) }
func Bool(id string) bool       { return raw(id) != 0 }
func Byte(id string) byte       { return byte(raw(id)) }
func Rune(id string) rune       { return rune(int32(raw(id))) }

func Bytes(id string, n int) []byte {
	out := make([]byte, n)
	for j := range out {
		s := R.Inputs[fmt.Sprintf("%s_%d", sanitize(id), j)]
		v, _ := strconv.ParseUint(s, 10, 64)
		out[j] = byte(v)
	}
	return out
}

func String(id string, n int) string { return string(Bytes(id, n)) }

func Choice(id string, n int) int {
	if n <= 1 {
		return 0
	}
	if choiceAt < len(R.Choices) {
		v := R.Choices[choiceAt]
		choiceAt++
		return v
	}
	return 0
}

type stop struct{}

func Assume(c bool) {
	if !c {
		panic(stop{})
	}
}

func Assert(c bool, msg string) {
	if !c {
		Failed = append(Failed, msg)
		panic(stop{})
	}
}

func Fail(msg string) {
	Failed = append(Failed, msg)
	panic(stop{})
}

func Reach(tag string)            { Reached[tag] = true }
func And(a, b bool) bool          { return a && b }
func Or(a, b bool) bool           { return a || b }
func Not(a bool) bool             { return !a }
func Implies(a, b bool) bool      { return !a || b }
func Iff(a, b bool) bool          { return a == b }
func Symbolic() bool              { return false }

// MapOrder selects the order in which the engine iterates Go maps: 0 insertion
// order, 1 reverse insertion order (Go permits any; natively the order is Go's).
func MapOrder(k int) {}

// Tier is 0 for quick, 1 for thorough (VERIF_TIER).
func Tier() int {
	if os.Getenv("VERIF_TIER") == "thorough" {
		return 1
	}
	return 0
}
func IsSym(v interface{}) bool    { return false }
func Stop()                       { panic(stop{}) }
func Note(s string)               {}
func Steps() int64                { return 0 }
func Goroutines() int             { return 0 }
func AtomicYield(on bool)         {}
func RealFmt(on bool)             {}
func Activity(n int)              {}

// Concurrent runs f1 and f2 on two goroutines (the replay binary is built with
// -race, so an unsynchronised conflicting access fails the test).
func Concurrent(f1, f2 func()) {
	var wg sync.WaitGroup
	wg.Add(2)
	go func() { defer wg.Done(); f1() }()
	go func() { defer wg.Done(); f2() }()
	wg.Wait()
}
func Races() int                  { return 0 }
func RaceText(k int) string       { return "" }
func PollValue() int64            { return 0 }
func Handoff()                    { runtime.Gosched() }
func Yield()                      { runtime.Gosched() }
func SetHook(name string, f func()) {}

// SetGob installs the engine's model of an encoding/gob stream: enc receives
// every value passed to (*gob.Encoder).Encode, dec every destination pointer
// passed to (*gob.Decoder).Decode. Natively the real package runs.
func SetGob(enc func(e interface{}) error, dec func(p interface{}) error) {}
func IteInt64(c bool, a, b int64) int64 {
	if c {
		return a
	}
	return b
}

var lastGuard string

// Guard runs f and classifies its end: 0 returned, 1 recoverable panic.
// (Hangs and fatal errors cannot be caught natively: the replay driver runs
// the test under a timeout and treats a timeout / crash as reproduction.)
func Guard(f func(), budget int64) (res int) {
	defer func() {
		if r := recover(); r != nil {
			if _, ok := r.(stop); ok {
				panic(r)
			}
			lastGuard = fmt.Sprint(r)
			res = 1
		}
	}()
	f()
	return 0
}

func LastGuard() string { return lastGuard }

// Run executes a harness natively and reports whether it completed without a
// failed assertion.
func Run(f func()) (ok bool) {
	defer func() {
		if r := recover(); r != nil {
			if _, isStop := r.(stop); isStop {
				ok = len(Failed) == 0
				return
			}
			Failed = append(Failed, fmt.Sprintf("uncaught panic: %v", r))
			ok = false
		}
	}()
	f()
	return len(Failed) == 0
}
