package h

import (
	"os"
	"testing"

	"verif/h/vf"
)

// TestReplay runs one recorded counterexample (VERIF_REPLAY=<file>) against
// the real build. It FAILS (prints VERIF-REPRODUCED) when the assertion that
// the engine reported is violated natively as well.
func TestReplay(t *testing.T) {
	path := os.Getenv("VERIF_REPLAY")
	if path == "" {
		t.Skip("VERIF_REPLAY not set")
	}
	if err := vf.Load(path); err != nil {
		t.Fatalf("cannot load replay: %v", err)
	}
	f := Registry[vf.R.Harness]
	if f == nil {
		t.Fatalf("unknown harness %q", vf.R.Harness)
	}
	if !vf.Run(f) {
		t.Fatalf("VERIF-REPRODUCED: %v", vf.Failed)
	}
	t.Logf("VERIF-NOT-REPRODUCED: harness %s completed without a failed assertion", vf.R.Harness)
}
