package h

// C05 — no script can take the host down through the context-aware run path.

import (
	"context"
	"time"

	"github.com/d5/tengo/v2"
	"github.com/d5/tengo/v2/token"
	"verif/h/vf"
)

// hctx is a minimal context.Context the harness controls (the context
// package itself is not the subject).
type hctx struct {
	done chan struct{}
	err  error
}

func (c *hctx) Deadline() (time.Time, bool)       { return time.Time{}, false }
func (c *hctx) Done() <-chan struct{}             { return c.done }
func (c *hctx) Err() error                        { return c.err }
func (c *hctx) Value(key interface{}) interface{} { return nil }

func liveCtx() *hctx { return &hctx{done: make(chan struct{})} }

// bgctx behaves like context.Background(): Done() is a nil channel.
type bgctx struct{}

func (bgctx) Deadline() (time.Time, bool)       { return time.Time{}, false }
func (bgctx) Done() <-chan struct{}             { return nil }
func (bgctx) Err() error                        { return nil }
func (bgctx) Value(key interface{}) interface{} { return nil }

// opBudget is the unwinding bound for one operation on operands of the
// universe U(1,w): every loop inside one builtin/operator call must finish
// within it (operand sizes are <= 3, so a legitimate call needs a few
// thousand SSA steps and a few dozen symbolic decisions at most).
const opBudget = 60000

func sizeArgOK(name string, k int, o tengo.Object) {
	// arguments that legitimately ask the Go runtime for memory proportional
	// to their value are kept small (property: unbounded single allocations
	// are outside the claim)
	if i, ok := o.(*tengo.Int); ok {
		switch {
		case name == "bytes" && k == 0:
			vf.Assume(i.Value <= 16)
		}
	}
}

// C05_Builtins: every builtin, 0..3 arguments from U(1,w): the call returns
// or panics recoverably within the unwinding bound; no hang, no fatal error.
func C05_Builtins() {
	fns := tengo.GetAllBuiltinFunctions()
	b := fns[vf.Choice("builtin", len(fns))]
	if b.Name == "format" {
		vf.Stop() // format strings are C17's subject
	}
	maxArgs := 2
	if Tier() > 0 || b.Name == "range" || b.Name == "splice" {
		maxArgs = 3
	}
	n := vf.Choice("nargs", maxArgs+1)
	var args []tengo.Object
	for k := 0; k < n; k++ {
		var o tengo.Object
		if b.Name == "range" {
			o = &tengo.Int{Value: vf.Int64("r" + string(rune('0'+k)))}
		} else if k == 0 && b.Name == "string" {
			// rendering is C10's subject; here only termination matters, and
			// decimal rendering of symbolic payloads stalls the solver
			o = concreteSample(vf.Choice("x0.sample", NTypes))
		} else if k == 0 {
			o, _ = AnyObj("x0", 1)
		} else {
			o = LiteObj("x" + string(rune('0'+k)))
		}
		sizeArgOK(b.Name, k, o)
		args = append(args, o)
	}
	if b.Name == "range" && n >= 2 {
		// legitimate result size is at most 8 elements: the distance between
		// start and stop is bounded (computed without overflow), the step is free
		start, stop := args[0].(*tengo.Int).Value, args[1].(*tengo.Int).Value
		if vf.Choice("dir", 2) == 0 {
			vf.Assume(start <= stop)
			vf.Assume(start >= 0 || stop <= 0 || true)
			d := stop - start
			vf.Assume(d >= 0)
			vf.Assume(d <= 8)
		} else {
			vf.Assume(start > stop)
			d := start - stop
			vf.Assume(d >= 0)
			vf.Assume(d <= 8)
		}
	}
	res := vf.Guard(func() { _, _ = b.Value(args...) }, opBudget)
	vf.Assert(res == 0 || res == 1, "builtin "+b.Name+" returns or panics recoverably within its unwinding bound: "+vf.LastGuard())
	vf.Reach("builtins")
}

// boundaryNumeric replaces symbolic int/float/time payloads by a boundary set:
// decimal rendering of a symbolic 64-bit value (division by constants,
// shortest-float formatting) stalls every solver back end.
func boundaryNumeric(o tengo.Object, id string) tengo.Object {
	switch o.(type) {
	case *tengo.Int:
		bs := []int64{0, 1, -1, 99, 100, -9223372036854775808, 9223372036854775807}
		return &tengo.Int{Value: bs[vf.Choice(id+".bsel", len(bs))]}
	case *tengo.Float:
		fs := []float64{0, 1.5, -2, 1e21, 1e-7}
		return &tengo.Float{Value: fs[vf.Choice(id+".fsel", len(fs))]}
	case *tengo.Time:
		return &tengo.Time{Value: time.Unix(1700000000, 5)}
	}
	return o
}

// concreteSample is one concrete value per runtime type.
func concreteSample(t int) tengo.Object {
	switch t {
	case TInt:
		return &tengo.Int{Value: -9223372036854775808}
	case TFloat:
		return &tengo.Float{Value: 1e21}
	case TBool:
		return tengo.TrueValue
	case TChar:
		return &tengo.Char{Value: 0x10FFFF + 1}
	case TString:
		return &tengo.String{Value: "a\xffb"}
	case TBytes:
		return &tengo.Bytes{Value: []byte{0, 255}}
	case TTime:
		return &tengo.Time{Value: time.Unix(1700000000, 5)}
	case TUndefined:
		return tengo.UndefinedValue
	}
	return concreteContainer(t)
}

var allOps = []token.Token{token.Add, token.Sub, token.Mul, token.Quo, token.Rem, token.And, token.Or, token.Xor, token.AndNot,
	token.Shl, token.Shr, token.Less, token.Greater, token.LessEq, token.GreaterEq}

// C05_Operators: every binary operator on every pair of U(1,w), plus the
// object methods scripts reach (index get/set, iterate, string, copy,
// equals): each returns or panics recoverably within the bound.
func C05_Operators() {
	a, _ := AnyObj("a", 1)
	b := LiteObj("b")
	op := allOps[vf.Choice("op", len(allOps))]
	if op == token.Mul || op == token.Quo || op == token.Rem {
		// symbolic-by-symbolic 64-bit multiply/divide stalls every solver
		// back end: the right operand comes from a boundary set instead
		switch bv := b.(type) {
		case *tengo.Int:
			bs := []int64{0, 1, -1, 2, 10, -9223372036854775808, 9223372036854775807}
			b = &tengo.Int{Value: bs[vf.Choice("b.bsel", len(bs))]}
			_ = bv
		case *tengo.Float:
			fs := []float64{0, 1, -1, 0.5, 1e308}
			b = &tengo.Float{Value: fs[vf.Choice("b.fsel", len(fs))]}
		}
	}
	if _, isStr := a.(*tengo.String); isStr && op == token.Add {
		// string + x renders x: decimal rendering of symbolic payloads stalls the solver
		switch b.(type) {
		case *tengo.Int, *tengo.Float, *tengo.Time:
			b = boundaryNumeric(b, "b")
		case *tengo.Array:
			b = concreteContainer(TArray)
		case *tengo.Map:
			b = concreteContainer(TMap)
		}
	}
	res := vf.Guard(func() { _, _ = a.BinaryOp(op, b) }, opBudget)
	vf.Assert(res == 0 || res == 1, "binary operator returns or panics recoverably: "+vf.LastGuard())
	vf.Reach("operators")
}

func C05_Methods() {
	a, ta := AnyObj("a", 1)
	nb := 4
	if Tier() > 0 {
		nb = 8
	}
	b := LiteObjN("b", nb)
	m := vf.Choice("method", 6)
	if m == 4 {
		// String(): decimal rendering of symbolic payloads stalls the solver;
		// one concrete value per runtime type instead (termination is the subject)
		a = concreteSample(ta)
	}
	if m <= 1 {
		switch a.(type) {
		case *tengo.Map, *tengo.ImmutableMap, *tengo.Error:
			// map/error indexing renders the index with String()
			b = boundaryNumeric(b, "b")
		}
	}
	res := vf.Guard(func() {
		switch m {
		case 0:
			_, _ = a.IndexGet(b)
		case 1:
			_ = a.IndexSet(b, a)
		case 2:
			if a.CanIterate() {
				it := a.Iterate()
				for k := 0; k < 8 && it.Next(); k++ {
					_ = it.Key()
					_ = it.Value()
				}
			}
		case 3:
			_ = a.Copy()
		case 4:
			_ = a.String()
		case 5:
			_ = a.Equals(b)
			_ = a.IsFalsy()
			_ = a.TypeName()
			if a.CanCall() {
				_, _ = a.Call(b)
			}
		}
	}, opBudget)
	vf.Assert(res == 0 || res == 1, "object method returns or panics recoverably: "+vf.LastGuard())
	vf.Reach("methods")
}

// hostile programs, run through RunContext
var hostileRC = []Prog{
	{"div-zero", `out := a / b`, false},
	{"mod-zero", `out := a % (b - b)`, false},
	{"ill-typed", `out := a + "x" - 1`, false},
	{"index-oob", `x := [1, 2, 3]; out := x[a]`, false},
	{"slice-bad", `x := [1, 2, 3]; out := x[a:b]`, false},
	{"str-slice", `x := "héllo"; out := x[a:b]; o2 := x[a]`, false},
	{"not-callable", `f := a; out := f(1)`, false},
	{"wrong-args", `f := func(x) { return x }; out := f(a, b)`, false},
	{"assign-immutable", `x := immutable([1, 2]); x[0] = a`, false},
	{"runaway-recursion", `f := func(n) { return [f(n)] }; out := f(a)`, false},
	{"stack-exhaustion", `f := func(p1, p2, p3, p4, p5, p6, p7, p8, p9, p10, p11, p12) { l1 := p1; l2 := p2; l3 := l1; l4 := l2; l5 := l3; l6 := l4; l7 := l5; l8 := l6; return 1 + f(l1, l2, l3, l4, l5, l6, l7, l8, p9, p10, p11, a) }; out := f(1, 2, 3, 4, 5, 6, 7, 8, 9, 10, 11, 12)`, false},
	{"mutate-while-iterating-map", `m := {x: 1, y: 2, z: 3}; out := 0; for k, v in m { delete(m, k); m[k + "n"] = v; if len(m) > 8 { break }; out += v }`, false},
	{"mutate-while-iterating-array", `x := [1, 2, 3]; out := 0; for i, v in x { x = append(x, v); if i < len(x) { x[i] = a }; x = splice(x, 0, 1); out += v }`, false},
	{"builtin-misuse", `out := [len(), copy(1, 2), append(a), splice(a), delete({}, a), int([]), char("x"), bytes(-1)]`, false},
	{"bytes-negative", `out := bytes(a)`, false},
	{"shift-negative", `out := 1 << a; o2 := b >> a`, false},
	{"spread-non-array", `f := func(...x) { return x }; out := f(a...)`, false},
	{"call-undefined-selector", `m := {}; out := m.f(a)`, false},
	{"error-value-ops", `e := error(a); out := e.value + e`, false},
	{"string-index-assign", `s := "abc"; s[0] = a`, false},
	{"range-wrap", `out := range(a, b, 2)`, false},
	{"cyclic-eq", `x := [0]; x[0] = x; out := x == x`, false},
	{"cyclic-string", `x := {}; x.self = x; out := string(x)`, false},
	{"cyclic-copy", `x := [0]; x[0] = x; out := copy(x)`, false},
	{"cyclic-freeze-array", `x := [0]; x[0] = x; out := freeze(x); o2 := len(out)`, false},
	{"cyclic-freeze-map", `m := {}; m.self = m; out := freeze(m); o2 := len(out)`, false},
	{"cyclic-freeze-mixed", `p := {}; q := {peer: p, l: [p]}; p.peer = q; out := freeze([p, q]); o2 := len(out)`, false},
	{"cyclic-freeze-immutable-alias", `x := [0]; y := immutable(x); x[0] = y; out := freeze(y); o2 := len(out)`, false},
	{"cyclic-freeze-immutable-map-alias", `m := {}; y := immutable(m); m.self = y; out := freeze([y]); o2 := len(out)`, false},
	{"panic-in-builtin-arg", `out := [1, 2][a / b]`, false},
	// a host function (or a stdlib function wrapping a Go call) that panics
	// with a string, an error, a run-time error or any other value
	{"host-panic-string", `out := hp(0)`, false},
	{"host-panic-error", `out := hp(1)`, false},
	{"host-panic-runtime", `out := hp(2)`, false},
	{"host-panic-value", `out := hp(3)`, false},
	{"host-panic-nested", `f := func(k) { return [hp(k)] }; out := f(0) + f(3)`, false},
}

// programs that never terminate on their own: only run with a context that
// is already cancelled
var endlessRC = []Prog{
	{"endless-loop", `for { a += 1 }`, false},
	{"endless-tail-recursion", `f := func(n) { return f(n + 1) }; f(a)`, false},
	{"endless-for-in", `x := [1]; for v in x { x = append(x, v) }`, false},
	{"endless-empty-loop", `for {}`, false},
	{"endless-continue-loop", `f := func() { for { continue } }; f()`, false},
	{"endless-tail-recursion-discarded", `f := func(n) { f(n + 1) }; f(a)`, false},
	{"endless-tail-recursion-builtins", `f := func(n, acc) { return f(n + len(acc), [n]) }; f(a, [])`, false},
}

type hostPanicValue struct{ code int }

func hostPanic(args ...tengo.Object) (tengo.Object, error) {
	k, _ := tengo.ToInt(args[0])
	switch k {
	case 0:
		panic("host function panicked with a string")
	case 1:
		panic(tengo.ErrInvalidIndexType)
	case 2:
		var m map[string]int
		m["x"] = 1
	default:
		panic(hostPanicValue{code: 7})
	}
	return nil, nil
}

// C05_RunContext: hostile programs with symbolic inputs through
// Compiled.RunContext: the call returns nil or an error, never panics, never
// hangs; the compiled object stays usable (lock released, Get/Set/Run work).
func C05_RunContext() {
	ctxkind := vf.Choice("ctxkind", 3)
	var p Prog
	endless := false
	if ctxkind == 2 {
		k := vf.Choice("prog", len(hostileRC)+len(endlessRC))
		if k < len(hostileRC) {
			p = hostileRC[k]
		} else {
			p = endlessRC[k-len(hostileRC)]
			endless = true
		}
	} else {
		p = hostileRC[vf.Choice("prog", len(hostileRC))]
	}
	s := tengo.NewScript([]byte(p.Src))
	_ = s.Add("hp", &tengo.UserFunction{Name: "hp", Value: hostPanic})
	a, b := vf.Int64("a"), vf.Int64("b")
	switch p.Name {
	case "bytes-negative":
		vf.Assume(a <= 16)
	case "range-wrap":
		// concrete boundary pairs (C05_Builtins covers range symbolically)
		pairs := [][2]int64{{0, 5}, {9223372036854775800, 9223372036854775807}, {9223372036854775806, 9223372036854775807}, {-9223372036854775807, -9223372036854775808}}
		pr := pairs[vf.Choice("pair", len(pairs))]
		a, b = pr[0], pr[1]
	}
	_ = s.Add("a", a)
	_ = s.Add("b", b)
	c, err := s.Compile()
	vf.Assert(err == nil, "hostile program compiles: "+p.Name)
	var rerr error
	var ctx context.Context = liveCtx()
	switch ctxkind {
	case 1:
		ctx = bgctx{} // a context that can never be cancelled (Done() == nil)
	case 2:
		// a context that is already cancelled when RunContext is entered
		dc := liveCtx()
		if !vf.Symbolic() && endless {
			// native replay of a program that never terminates on its own: in the
			// engine the schedule may let the VM goroutine start before the waiting
			// goroutine observes the cancellation; natively the Go scheduler almost
			// never does, so the same fact - the cancellation arrives while the
			// script runs - is produced by cancelling from a second goroutine
			go func() {
				time.Sleep(3 * time.Millisecond)
				dc.err = context.Canceled
				close(dc.done)
			}()
		} else {
			dc.err = context.Canceled
			close(dc.done)
		}
		ctx = dc
	}
	polls := 0
	if ctxkind == 2 {
		// the engine's goroutines are cooperative: at the h-th VM poll (and every
		// second poll after it) the goroutine waiting on the cancelled context
		// gets its turn (natively the Go scheduler does this). For programs that
		// never terminate on their own h is a choice: the cancellation is
		// noticed before the script starts, at its first calls, or once it is
		// inside its endless loop / recursion
		h := 2
		if endless {
			h = 1 + vf.Choice("handoff", 5)
		}
		vf.SetHook("poll", func() {
			polls++
			if polls >= h && (polls-h)%2 == 0 {
				vf.Handoff()
			}
		})
	}
	res := vf.Guard(func() { rerr = c.RunContext(ctx) }, 6000000)
	vf.Assert(res == 0, "RunContext returns (no panic reaches the host, no hang, no fatal error): "+p.Name+": "+vf.LastGuard())
	vf.Assert(vf.Goroutines() == 0, "the VM goroutine has terminated when RunContext returns: "+p.Name)
	_ = rerr
	// the compiled object remains usable: the lock is free and a fresh run of
	// a well-behaved program state works
	res = vf.Guard(func() {
		_ = c.Get("out")
		_ = c.IsDefined("a")
		_ = c.Set("a", 1)
		_ = c.Set("b", 1)
		if ctxkind == 2 {
			// (the program may be one that never terminates on its own)
			dc := liveCtx()
			dc.err = context.Canceled
			close(dc.done)
			_ = c.RunContext(dc)
		} else {
			_ = c.RunContext(liveCtx())
		}
	}, 30000000)
	vf.SetHook("poll", nil)
	vf.Assert(res == 0, "compiled object usable after a failed run (Get/Set/RunContext): "+p.Name+": "+vf.LastGuard())
	if ctxkind == 0 {
		// ... and it behaves as a freshly compiled object does: a further run with
		// the inputs a = b = 1 ends like the first run of a fresh compile with
		// those inputs (nothing of the failed run is carried over)
		var again, first error
		r1 := vf.Guard(func() { again = c.RunContext(liveCtx()) }, 30000000)
		s2 := tengo.NewScript([]byte(p.Src))
		_ = s2.Add("hp", &tengo.UserFunction{Name: "hp", Value: hostPanic})
		_ = s2.Add("a", 1)
		_ = s2.Add("b", 1)
		c2, err2 := s2.Compile()
		vf.Assert(err2 == nil, "hostile program compiles again: "+p.Name)
		r2 := vf.Guard(func() { first = c2.RunContext(liveCtx()) }, 30000000)
		vf.Assert(r1 == r2 && errText(again) == errText(first), "a run after a failed run ends like the first run of a fresh compiled object: "+p.Name+": `"+errText(again)+"` vs `"+errText(first)+"`")
		if again == nil && r1 == 0 && !hasPrefix(p.Name, "cyclic-") {
			vf.Assert(Same(c.Get("out").Object(), c2.Get("out").Object()), "a run after a failed run computes what a fresh compiled object computes: "+p.Name)
		}
	}
	vf.Reach("runcontext")
}
