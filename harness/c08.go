package h

// C08 — clones of a compiled script run concurrently without interference.
// Race freedom is decided as access-set disjointness: the two activities are
// run one after the other under the engine's access log; a heap cell written
// by one and accessed by the other (without a common mutex held in compatible
// modes) is a data race in some interleaving of the concurrent run.

import (
	"github.com/d5/tengo/v2"
	"verif/h/vf"
)

var sharedProgs = []Prog{
	{"index-string-const", `s := "héllo"; out := s[1]; n := len(s)`, false},
	{"iterate-string-const", `out := 0; for i, c in "héy" { out += i + int(c) }`, false},
	{"slice-string-const", `s := "abcdef"; out := s[1:3] + s[a % 3]`, false},
	{"array-const-in-func", `f := func() { return [1, 2, 3] }; x := f(); x[0] = a; out := x`, false},
	{"map-const", `m := {k: [1, 2], s: "str"}; m.k[0] = a; out := m.s[0]`, false},
	{"closure", `mk := func(n) { return func() { n += 1; return n } }; f := mk(a); f(); out := f()`, false},
	{"module-source", `m := import("m"); out := m.f(a) + m.name[0]`, false},
	{"module-builtin", `bm := import("bm"); out := bm.p + a + len(bm.tbl)`, false},
	{"mutable-input", `arr[0] = a; arr = append(arr, b); out := arr`, false},
	{"failing", `f := func(x) { return x + "s" - 1 }; out := f(a)`, false},
	{"failing-module", `m := import("m"); out := m.f("q")`, false},
	{"error-payload-input", `e.value.k = a; e.value.list[0] = b; e.value.list = append(e.value.list, a); out := [e.value.k, e.value.list]`, false},
	{"nested-input", `nest.m.k = a; nest.l[1][0] = b; nest.l[0] = a; nest.by[0] = 7; out := [nest.m.k, nest.l]`, false},
	{"state-from-previous-run", `if is_undefined(keep) { keep = {n: 0, e: error({hits: [0]})} }; keep.n += a; keep.e.value.hits[0] += 1; keep.e.value.hits = append(keep.e.value.hits, b); out := [keep.n, keep.e.value.hits]`, false},
	{"bytes-append-input", `out := buf + tag; o2 := nest.by + tag; o3 := [len(out), out[2]]`, false},
	{"failing-module-after-main-frame", `m := import("m"); g := func(v) { return m.f(v) }; out := g(a > 0 ? "q" : 1) + g("r")`, false},
	{"string-builtins", `s := "héllo"; out := [string(s), bytes(s), len(s), s + s, char(a)]`, false},
}

func c08Compile(p Prog, a, b int64) *tengo.Compiled {
	s := tengo.NewScript([]byte(p.Src))
	mods := tengo.NewModuleMap()
	mods.AddSourceModule("m", []byte(`export {f: func(x) { return x * 2 }, name: "modülé"}`))
	mods.AddBuiltinModule("bm", map[string]tengo.Object{"p": &tengo.Int{Value: 5},
		"tbl": &tengo.Array{Value: []tengo.Object{&tengo.Int{Value: 1}, &tengo.String{Value: "x"}}}})
	s.SetImports(mods)
	_ = s.Add("a", a)
	_ = s.Add("b", b)
	_ = s.Add("arr", []interface{}{1, 2})
	_ = s.Add("keep", nil)
	_ = s.Add("buf", &tengo.Bytes{Value: make([]byte, 2, 8)}) // a host buffer with spare capacity
	_ = s.Add("tag", []byte("AA"))
	_ = s.Add("e", &tengo.Error{Value: &tengo.Map{Value: map[string]tengo.Object{"k": &tengo.Int{Value: -1},
		"list": &tengo.Array{Value: []tengo.Object{&tengo.Int{Value: 1}, &tengo.Int{Value: 2}}}}}})
	_ = s.Add("nest", &tengo.Map{Value: map[string]tengo.Object{
		"m":  &tengo.Map{Value: map[string]tengo.Object{"k": &tengo.Int{Value: -1}}},
		"l":  &tengo.Array{Value: []tengo.Object{&tengo.Int{Value: 0}, &tengo.Array{Value: []tengo.Object{&tengo.Int{Value: 5}}}}},
		"by": &tengo.Bytes{Value: []byte{1, 2}},
		"im": &tengo.ImmutableMap{Value: map[string]tengo.Object{"x": &tengo.Array{Value: []tengo.Object{&tengo.Int{Value: 3}}}}},
	}})
	c, err := s.Compile()
	vf.Assert(err == nil, "shared-constant program compiles: "+p.Name)
	return c
}

func runQuiet(c *tengo.Compiled) (error, bool) {
	err, panicked, _ := RunGuarded(c)
	return err, panicked
}

// C08_Clones: compile once, clone twice, run clone A then clone B as two
// activities: no heap cell is written by one and touched by the other; B's
// results equal those of a clone run alone; Set on A affects nothing else.
func C08_Clones() {
	p := sharedProgs[vf.Choice("prog", len(sharedProgs))]
	a, b := vf.Int64("a"), vf.Int64("b")
	a2 := vf.Int64("a2")
	c := c08Compile(p, a, b)
	fresh := c08Compile(p, a, b)
	if vf.Choice("original-ran-before", 2) == 1 {
		// clones taken from an object that has already run carry the state left by that run
		_, _ = runQuiet(c)
		_, _ = runQuiet(fresh)
	}
	ca, cb, alone := c.Clone(), c.Clone(), c.Clone()
	_ = cb.Set("a", a2)
	_ = alone.Set("a", a2)
	_ = cb.Set("tag", []byte("BB"))
	_ = alone.Set("tag", []byte("BB"))
	var eB error
	var pB bool
	vf.Concurrent(func() {
		_, _ = runQuiet(ca)
		_ = ca.Set("b", 99)
	}, func() {
		eB, pB = runQuiet(cb)
	})
	// reference: a clone run alone (afterwards, so that it does not pre-fill
	// lazily initialised shared state)
	eAlone, pAlone := runQuiet(alone)
	n := vf.Races()
	vf.Assert((eB == nil) == (eAlone == nil) && pB == pAlone, "a clone fails exactly when it fails run alone: "+p.Name)
	if eB != nil {
		vf.Assert(errText(eB) == errText(eAlone), "a clone reports the same error as when run alone: "+p.Name)
	}
	vf.Assert(sameGlobals(alone, cb), "a clone produces the results it produces when run alone: "+p.Name)
	// second reference: a clone of an independently compiled copy of the script
	// (nothing is shared with the executions above), same inputs
	{
		ind := fresh.Clone()
		_ = ind.Set("a", a2)
		_ = ind.Set("tag", []byte("BB"))
		eInd, pInd := runQuiet(ind)
		vf.Assert((eB == nil) == (eInd == nil) && pB == pInd, "a clone fails exactly when an independent copy fails: "+p.Name)
		if eB != nil {
			vf.Assert(errText(eB) == errText(eInd), "a clone reports the same error and positions as an independent copy run alone: "+p.Name+": `"+errText(eB)+"` vs `"+errText(eInd)+"`")
		}
		vf.Assert(sameGlobals(ind, cb), "a clone produces the results an independent copy produces: "+p.Name)
	}
	// ... and the first clone still holds the results of its own run
	if p.Name != "mutable-input" {
		indA := fresh.Clone()
		_, _ = runQuiet(indA)
		_ = indA.Set("b", 99)
		vf.Assert(sameGlobals(indA, ca), "the results of one clone are not changed by running another: "+p.Name)
	}
	// the original is untouched by both
	vf.Assert(c.Get("a").Int64() == a && c.Get("b").Int64() == b, "running or setting a clone does not affect the original: "+p.Name)
	vf.Assert(sameGlobals(fresh, c), "no value reachable from the original's globals is changed by running its clones: "+p.Name)
	vf.Assert(cb.Get("b").Int64() == b || p.Name == "mutable-input", "setting a variable of one clone does not affect another clone: "+p.Name)
	// (asserted last: the two recorded races F7a/F7b end the path here and must
	// not hide a functional interference in the same program)
	vf.Assert(n == 0, "two clone executions touch the same memory without synchronisation: "+p.Name+": "+vf.RaceText(0))
	vf.Reach("clones")
}

var compiledMethods = []string{"Run", "RunContext", "Get", "GetAll", "Set", "IsDefined", "Clone", "Size"}

func callMethod(c *tengo.Compiled, m string, v int64) {
	switch m {
	case "Run":
		_, _ = runQuiet(c)
	case "RunContext":
		_ = vf.Guard(func() { _ = c.RunContext(liveCtx()) }, 6000000)
	case "Get":
		_ = c.Get("out")
		_ = c.Get("a")
	case "GetAll":
		_ = c.GetAll()
	case "Set":
		_ = c.Set("a", v)
	case "IsDefined":
		_ = c.IsDefined("out")
	case "Clone":
		_ = c.Clone()
	case "Size":
		_ = c.Size()
	}
}

// C08_Methods: two calls on ONE Compiled object as two activities: every
// conflicting access is protected by the object's lock in a compatible mode
// (writes under Lock, reads under RLock or Lock).
func C08_Methods() {
	m1 := compiledMethods[vf.Choice("m1", len(compiledMethods))]
	m2 := compiledMethods[vf.Choice("m2", len(compiledMethods))]
	// a string-constant program, a function-local array, a source module, and
	// two programs that update containers held by input variables in place
	// (what Clone/Get/GetAll walk while a run may be writing)
	methodProgs := []int{0, 3, 6, 8, 12}
	p := sharedProgs[methodProgs[vf.Choice("prog", len(methodProgs))]]
	a, b := vf.Int64("a"), vf.Int64("b")
	c := c08Compile(p, a, b)
	v1, v2 := vf.Int64("v1"), vf.Int64("v2")
	vf.Concurrent(func() { callMethod(c, m1, v1) }, func() { callMethod(c, m2, v2) })
	vf.Assert(vf.Races() == 0, "concurrent "+m1+" / "+m2+" on one compiled object race: "+vf.RaceText(0))
	vf.Reach("methods")
}
