package h

// Engine self-test harnesses (./check selftest): the engine's encoding of Go
// semantics is validated against the host Go implementation.
//  * Self_Sym*: for every operator and a grid of boundary constants the
//    symbolic arm (operands are solver variables assumed equal to the
//    constants) must agree with the concrete arm (host Go arithmetic).
//  * Self_Digest*: concrete micro-programs covering the SSA instruction kinds
//    produce a digest that must equal the digest of the native run (golden
//    values are regenerated natively at selftest time into selfgold_gen.go).

import (
	"errors"
	"sort"
	"strconv"
	"strings"

	"verif/h/vf"
)

var selfInts = []int64{0, 1, -1, 2, 7, -7, 63, 64, 65, 255, 256, 1 << 31, -(1 << 31), 1<<53 + 1, 9223372036854775807, -9223372036854775808}

func symInt(id string, c int64) int64 {
	x := vf.Int64(id)
	vf.Assume(x == c)
	return x
}

// Self_SymInt64: binary/unary int64 operators, symbolic arm vs host Go.
func Self_SymInt64() {
	cx := selfInts[vf.Choice("x", len(selfInts))]
	cy := selfInts[vf.Choice("y", len(selfInts))]
	x, y := symInt("x", cx), symInt("y", cy)
	vf.Assert(x+y == cx+cy, "int64 +")
	vf.Assert(x-y == cx-cy, "int64 -")
	vf.Assert(x*y == cx*cy, "int64 *")
	if cy != 0 {
		vf.Assert(x/y == cx/cy, "int64 /")
		vf.Assert(x%y == cx%cy, "int64 %")
	}
	vf.Assert(x&y == cx&cy, "int64 &")
	vf.Assert(x|y == cx|cy, "int64 |")
	vf.Assert(x^y == cx^cy, "int64 ^")
	vf.Assert(x&^y == cx&^cy, "int64 &^")
	vf.Assert((x < y) == (cx < cy), "int64 <")
	vf.Assert((x <= y) == (cx <= cy), "int64 <=")
	vf.Assert((x == y) == (cx == cy), "int64 ==")
	vf.Assert(-x == -cx, "int64 unary -")
	vf.Assert(^x == ^cx, "int64 unary ^")
	if cy >= 0 && cy <= 70 {
		vf.Assert(x<<uint64(y) == cx<<uint64(cy), "int64 <<")
		vf.Assert(x>>uint64(y) == cx>>uint64(cy), "int64 >> (arithmetic)")
		vf.Assert(uint64(x)>>uint64(y) == uint64(cx)>>uint64(cy), "uint64 >> (logical)")
	}
	// conversions
	vf.Assert(int32(x) == int32(cx), "int64 -> int32")
	vf.Assert(uint8(x) == uint8(cx), "int64 -> uint8")
	vf.Assert(int64(int8(x)) == int64(int8(cx)), "int8 sign extension")
	vf.Assert(int64(uint16(x)) == int64(uint16(cx)), "uint16 zero extension")
	vf.Assert(uint64(x) == uint64(cx), "int64 -> uint64")
	vf.Assert(float64(x) == float64(cx), "int64 -> float64")
	vf.Assert(uint64(x)/3 == uint64(cx)/3, "uint64 / const")
	vf.Assert(uint64(x)%10 == uint64(cx)%10, "uint64 % const")
	vf.Reach("symint")
}

var selfFloats = []float64{0, 1, -1, 0.5, 1.5, -2.25, 1e21, 1e-7, 9007199254740993, 9223372036854775807, -9223372036854775808, 1.7976931348623157e308, 5e-324}

// Self_SymFloat64: float64 operators and conversions (incl. NaN, +-Inf, -0).
func Self_SymFloat64() {
	specials := append([]float64{}, selfFloats...)
	z := 0.0
	specials = append(specials, -z, z/z, 1/z, -1/z)
	cx := specials[vf.Choice("x", len(specials))]
	cy := specials[vf.Choice("y", len(specials))]
	x := vf.Float64("x")
	y := vf.Float64("y")
	// assume bit-identical (NaN != NaN, so compare through the ordering the solver knows)
	vf.Assume(vf.Or(x == cx, vf.And(x != x, cx != cx)))
	vf.Assume(vf.Or(y == cy, vf.And(y != y, cy != cy)))
	same := func(a, b float64) bool { return vf.Or(a == b, vf.And(a != a, b != b)) }
	vf.Assert(same(x+y, cx+cy), "float64 +")
	vf.Assert(same(x-y, cx-cy), "float64 -")
	vf.Assert(same(x*y, cx*cy), "float64 *")
	vf.Assert(same(x/y, cx/cy) || (cx == 0 && cy == 0) || (cx == 0 || cy == 0), "float64 / (signed zeros aside)")
	vf.Assert((x < y) == (cx < cy), "float64 <")
	vf.Assert((x <= y) == (cx <= cy), "float64 <=")
	vf.Assert((x == y) == (cx == cy), "float64 ==")
	vf.Assert((x != x) == (cx != cx), "NaN test")
	if cx == cx && cx > -9e18 && cx < 9e18 {
		vf.Assert(int64(x) == int64(cx), "float64 -> int64 (in range)")
	}
	vf.Reach("symfloat")
}

var selfStrs = []string{"", "a", "ab", "b", "a\x00", "\xff", "é", "héy", "abc"}

func symStr(id string, c string) string {
	s := vf.String(id, len(c))
	for k := 0; k < len(c); k++ {
		vf.Assume(s[k] == c[k])
	}
	return s
}

// Self_SymString: string operators on symbolic strings vs host Go.
func Self_SymString() {
	cx := selfStrs[vf.Choice("x", len(selfStrs))]
	cy := selfStrs[vf.Choice("y", len(selfStrs))]
	x, y := symStr("x", cx), symStr("y", cy)
	vf.Assert(x+y == cx+cy, "string +")
	vf.Assert((x == y) == (cx == cy), "string ==")
	vf.Assert((x < y) == (cx < cy), "string <")
	vf.Assert((x <= y) == (cx <= cy), "string <=")
	vf.Assert((x > y) == (cx > cy), "string >")
	vf.Assert(len(x) == len(cx), "len")
	vf.Assert(string([]byte(x)) == cx, "[]byte round trip")
	vf.Assert(string([]rune(x)) == string([]rune(cx)), "[]rune round trip")
	n := 0
	for i, r := range x {
		n += i + int(r)
	}
	cn := 0
	for i, r := range cx {
		cn += i + int(r)
	}
	vf.Assert(n == cn, "range over string")
	if len(cx) >= 2 {
		vf.Assert(x[1:] == cx[1:] && x[:1] == cx[:1], "slicing")
		vf.Assert(x[1] == cx[1], "indexing")
	}
	vf.Assert(strings.Contains(x, y) == strings.Contains(cx, cy), "strings.Contains")
	vf.Assert(strings.Index(x, y) == strings.Index(cx, cy), "strings.Index")
	vf.Assert(strings.HasPrefix(x, y) == strings.HasPrefix(cx, cy), "strings.HasPrefix")
	vf.Reach("symstring")
}

type selfShape interface {
	Area() int
	Name() string
}
type selfRect struct{ w, h int }
type selfSq struct{ s int }

func (r selfRect) Area() int   { return r.w * r.h }
func (r selfRect) Name() string { return "rect" }
func (s *selfSq) Area() int    { return s.s * s.s }
func (s *selfSq) Name() string { return "sq" }

type selfErr struct{ code int }

func (e *selfErr) Error() string { return "selfErr " + strconv.Itoa(e.code) }

func selfDiv(a, b int) (res int, err error) {
	defer func() {
		if r := recover(); r != nil {
			err = errors.New("recovered")
			res = -1
		}
	}()
	return a / b, nil
}

type selfByLen []string

func (s selfByLen) Len() int           { return len(s) }
func (s selfByLen) Less(i, j int) bool { return len(s[i]) < len(s[j]) || (len(s[i]) == len(s[j]) && s[i] < s[j]) }
func (s selfByLen) Swap(i, j int)      { s[i], s[j] = s[j], s[i] }

// selfDigest exercises the instruction kinds of the interpreter concretely.
func selfDigest() string {
	var sb strings.Builder
	w := func(s string) { sb.WriteString(s); sb.WriteByte(';') }
	// slices: append aliasing, copy, 3-index slices, growth
	a := make([]int, 3, 8)
	b := append(a, 4)
	c := append(a, 5)
	w(strconv.Itoa(b[3]) + strconv.Itoa(c[3]) + strconv.Itoa(len(b)) + strconv.Itoa(cap(a[:2:3])))
	d := []int{1, 2, 3, 4, 5}
	n := copy(d[1:], d)
	w(strconv.Itoa(n) + strconv.Itoa(d[4]) + strconv.Itoa(d[1]))
	var grow []int
	caps := ""
	for i := 0; i < 20; i++ {
		grow = append(grow, i)
		caps += strconv.Itoa(cap(grow)) + ","
	}
	w(caps)
	// maps: insert/delete/lookup, struct keys, iteration-order-independent sum
	m := map[string]int{"a": 1, "b": 2}
	m["c"] = 3
	delete(m, "a")
	_, ok := m["a"]
	sum := 0
	for k, v := range m {
		sum += v * len(k)
	}
	w(strconv.Itoa(sum) + strconv.FormatBool(ok) + strconv.Itoa(len(m)))
	// the clear builtin on maps and slices
	clear(m)
	m["z"] = 9
	cs := []int{1, 2, 3}
	cl := cs[:2]
	clear(cl)
	cp := []*int{&cs[2], nil}
	clear(cp)
	w(strconv.Itoa(len(m)) + strconv.Itoa(m["z"]) + strconv.Itoa(cs[0]+cs[1]*10+cs[2]*100) + strconv.FormatBool(cp[0] == nil))
	type key struct {
		x int
		s string
	}
	mk := map[key]int{{1, "a"}: 10}
	mk[key{1, "a"}]++
	w(strconv.Itoa(mk[key{1, "a"}]) + strconv.Itoa(mk[key{2, "a"}]))
	// structs are values, pointers alias
	r1 := selfRect{2, 3}
	r2 := r1
	r2.w = 10
	p := &r1
	p.h = 7
	w(strconv.Itoa(r1.Area()) + "," + strconv.Itoa(r2.Area()))
	arr := [3]int{1, 2, 3}
	arr2 := arr
	arr2[0] = 9
	w(strconv.Itoa(arr[0]) + strconv.Itoa(arr2[0]))
	// interfaces, type switches, method values
	shapes := []selfShape{selfRect{1, 2}, &selfSq{3}, nil}
	for _, s := range shapes {
		switch v := s.(type) {
		case selfRect:
			w("R" + strconv.Itoa(v.Area()))
		case *selfSq:
			f := v.Area
			v.s = 4
			w("S" + strconv.Itoa(f()))
		case nil:
			w("nil")
		}
	}
	// closures capture by reference; defer order; recover
	cnt := 0
	inc := func() int { cnt++; return cnt }
	inc()
	inc()
	w(strconv.Itoa(cnt))
	order := ""
	func() {
		for i := 0; i < 3; i++ {
			defer func(k int) { order += strconv.Itoa(k) }(i)
		}
	}()
	w(order)
	q, err := selfDiv(7, 0)
	w(strconv.Itoa(q) + err.Error())
	q, err = selfDiv(7, 2)
	w(strconv.Itoa(q) + strconv.FormatBool(err == nil))
	// errors.As / Is, wrapping
	var e error = &selfErr{7}
	var se *selfErr
	w(strconv.FormatBool(errors.As(e, &se)) + strconv.Itoa(se.code))
	// strconv, strings, sort
	w(strconv.FormatInt(-9223372036854775808, 10) + strconv.FormatInt(255, 16) + strconv.FormatFloat(1e21, 'g', -1, 64) + strconv.FormatFloat(0.1, 'f', -1, 64) + strconv.Quote("a\"\n\xff"))
	pi, perr := strconv.ParseInt("0x1f", 0, 64)
	pf, _ := strconv.ParseFloat("1.5e3", 64)
	_, perr2 := strconv.ParseInt("99999999999999999999", 10, 64)
	w(strconv.FormatInt(pi, 10) + strconv.FormatBool(perr == nil) + strconv.FormatFloat(pf, 'f', 1, 64) + strconv.FormatBool(perr2 != nil))
	w(strings.ToUpper("héy") + strings.Repeat("ab", 3) + strings.Join(strings.Split("a,b,,c", ","), "|") + strings.TrimLeft("xxabxx", "x") + strings.Replace("aaaa", "a", "b", 2) + strings.Title("go lang"))
	ss := selfByLen{"ccc", "a", "bb", "aa", ""}
	sort.Sort(ss)
	w(strings.Join(ss, ","))
	is := []int{5, 2, 9, 1}
	sort.Ints(is)
	w(strconv.Itoa(is[0]) + strconv.Itoa(is[3]))
	// integer corner cases
	var u8 uint8 = 250
	u8 += 10
	var i8 int8 = 127
	i8++
	mi := int64(-9223372036854775808)
	w(strconv.Itoa(int(u8)) + "," + strconv.Itoa(int(i8)) + "," + strconv.FormatInt(mi/-1, 10) + "," + strconv.FormatInt(mi%-1, 10) + "," + strconv.FormatInt(-7/2, 10) + "," + strconv.FormatInt(-7%2, 10) + "," + strconv.FormatInt(1<<62>>61, 10))
	// runes and utf8
	rs := []rune("héy\xff€")
	w(strconv.Itoa(len(rs)) + strconv.Itoa(int(rs[1])) + strconv.Itoa(int(rs[3])) + string(rune(0x20AC)) + string(rune(-1)))
	// labelled break / continue, goto-free loops, switch fallthrough
	total := 0
outer:
	for i := 0; i < 5; i++ {
		for j := 0; j < 5; j++ {
			if j == 3 {
				continue outer
			}
			if i == 3 {
				break outer
			}
			total += i*10 + j
		}
	}
	sw := ""
	switch x := 2; x {
	case 1:
		sw += "1"
	case 2:
		sw += "2"
		fallthrough
	case 3:
		sw += "3"
	default:
		sw += "d"
	}
	w(strconv.Itoa(total) + sw)
	return sb.String()
}

// Self_Digest: the concrete micro-program gives the digest the native run gives.
func Self_Digest() {
	got := selfDigest()
	vf.Assert(got == selfGold["digest"], "engine digest equals native digest; engine: "+got)
	vf.Reach("digest")
}
