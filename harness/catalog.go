package h

// Program catalog: control/scope skeletons whose branch conditions and loop
// bounds come from host inputs (a, b: int64; c: bool), so that every
// direction of every conditional jump is feasible. Shared by C01, C02, C03,
// C08, C11, C12.

import (
	"github.com/d5/tengo/v2"
	"verif/h/vf"
)

type Prog struct {
	Name string
	Src  string
	// LoopBound: the program loops up to |a| or |b| times; inputs are then
	// assumed to lie in a small range (stated bound).
	Small bool
}

// Catalog programs use inputs a, b (int), c (bool). Results are whatever
// globals they define.
var Catalog = []Prog{
	{"if-else", `out := 0; if a < b { out = a + b } else if a == b { out = a * 2 } else { out = a - b }`, false},
	{"if-init", `out := 0; if x := a * 2; x > b { out = x } else { out = b }`, false},
	{"ternary-chain", `out := a > b ? a : (c ? b : -b); t := !c ? 1 : 2`, false},
	{"logical", `p := a > 0 && b > 0; q := a > 0 || b > 0; r := (a > 0 && c) || (b > 0 && !c); out := p ? 1 : (q ? 2 : (r ? 3 : 4))`, false},
	{"logical-values", `x := a && b; y := a || b; z := c && a; w := c || b`, false},
	{"for-3clause", `out := 0; for i := 0; i < a; i++ { out += i * b }`, true},
	{"for-break-continue", `out := 0; for i := 0; i < a; i++ { if i == b { continue }; if i > 2 { break }; out += i + 1 }`, true},
	{"for-cond", `out := 0; i := a; for i > 0 { out += i; i-- }`, true},
	{"for-infinite-break", `out := 0; i := 0; for { if i >= a { break }; i++; out += b }`, true},
	{"for-nested", `out := 0; for i := 0; i < a; i++ { for j := 0; j < b; j++ { if j > i { break }; out += i*3 + j } }`, true},
	{"for-in-array", `out := 0; k2 := 0; for i, v in [a, b, a+b] { if v < 0 { continue }; out += v; k2 += i }`, false},
	{"for-in-map", `out := 0; for k, v in {x: a, y: b} { out += v }`, false},
	{"for-in-string", `out := 0; n := 0; for i, ch in "héy" { n += i; if ch == 'h' && c { continue }; out += int(ch) }`, false},
	{"for-in-undefined", `out := a; for v in undefined { out = b }`, false},
	{"for-return-in-func", `f := func(n, lim) { for i := 0; i < n; i++ { if i == lim { return i * 10 } }; return -1 }; out := f(a, b)`, true},
	{"return-before-loop", `f := func(x) { if x > 0 { return x }; for i := 0; i < 2; i++ { x += i }; return x }; out := f(a); o2 := f(b)`, false},
	{"dead-code", `f := func(x) { if x > 0 { return 1; x = 5 } else { return 2; x = 6 }; return 3 }; g := func(x) { return x; return x + 1 }; out := f(a) + g(b)`, false},
	{"dead-loop-tail", `f := func(x) { for { if x > 3 { return x }; x++; continue; x = 0 } }; out := f(a)`, true},
	{"closure-counter", `mk := func(s) { n := s; return func(d) { n += d; return n } }; f := mk(a); f(b); out := f(1); g := mk(0); o2 := g(a)`, false},
	{"closure-shared", `x := a; inc := func() { x += b }; get := func() { return x }; inc(); inc(); out := get()`, false},
	{"closure-nested", `f := func(p) { return func(q) { return func(r) { return p*100 + q*10 + r } } }; out := f(a)(b)(3)`, false},
	{"closure-loop", `fs := []; for i := 0; i < 3; i++ { j := i + a; fs = append(fs, func() { return j }) }; out := fs[0]() + fs[1]()*10 + fs[2]()*100`, false},
	{"closure-forin-func", `f := func(xs) { fs := []; for k, v in xs { fs = append(fs, func() { return v * 10 + k }) }; r := []; for g in fs { r = append(r, g()) }; return r }; out := f([a, b, 3])`, false},
	{"closure-for-func", `f := func(n) { fs := []; for i := 0; i < n; i++ { j := i * 2; fs = append(fs, func() { return i + j }) }; r := []; for g in fs { r = append(r, g()) }; return r }; out := f(3) + f(b == 0 ? 1 : 2)`, false},
	{"discarded-selfcall-then-calls", `cnt := func(k) { if k == 0 { return }; cnt(k-1) }; cnt(2); dbl := func(x) { return x * 2 }; ap := func(g, x) { return g(x) }; o1 := dbl(a); o2 := ap(dbl, b); o3 := cnt(0); out := [o1, o2, o3]`, false},
	{"selfcall-mixed-forms", `f := func(n, first) { if n == 0 { return 7 }; if !first { return f(n-1, false) }; f(n-1, false) }; g := func(n) { if n == 0 { return 7 }; if n % 2 == 0 { return g(n-1) }; g(n-1) }; out := [f(3, true), f(2, false), g(2), g(0), f(0, true)]`, false},
	{"closure-param", `f := func(p) { g := func() { p += 1; return p }; g(); return g() + p }; out := f(a)`, false},
	{"shadowing", `x := a; out := 0; if c { x := b; x += 1; out = x } else { x = x + 2; out = x }; y := x`, false},
	{"block-scope", `out := a; if true { out := b; out += 1 }; o2 := out; if c { o3 := out + 1; out = o3 }`, false},
	{"variadic", `f := func(x, ...r) { s := x; for v in r { s += v }; return s*10 + len(r) }; out := f(a); o2 := f(a, b); o3 := f(a, b, 1)`, false},
	{"spread", `f := func(x, y, ...r) { return x*100 + y*10 + len(r) }; args := [a, b, 3]; out := f(args...); o2 := f(1, args...)`, false},
	{"recursion", `fib := func(n) { if n < 2 { return n }; return fib(n-1) + fib(n-2) }; out := fib(a)`, true},
	{"mutual", `ev := 0; od := func(n) { return n <= 0 ? false : ev(n-1) }; ev = func(n) { return n <= 0 ? true : od(n-1) }; out := ev(a)`, true},
	{"array-ops", `x := [a, b, 3]; x[0] = x[1] + 1; y := x[1:]; z := x + [4]; out := x[0]; n := len(z); w := y[0]`, false},
	{"map-ops", `m := {p: a, q: {r: b}}; m.p += 1; m.q.r = m.p * 2; m["s"] = c; out := m.q.r; u := m.zz; l := len(m)`, false},
	{"sel-assign-local", `f := func() { m := {k: {v: a}}; m.k.v += b; m.k.w = [1, 2]; m.k.w[1] = a; return m }; out := f()`, false},
	{"sel-assign-free", `f := func() { m := {k: a}; g := func() { m.k = m.k * 2 + b; m.j = c }; g(); return m }; out := f()`, false},
	{"incdec", `x := a; x++; x++; x--; y := b; y -= x; y *= 2; y /= 3; z := a; z %= 5; z <<= 2; z |= 1; z &= 29; z ^= 3; z >>= 1; out := [x, y, z]`, false},
	{"string-ops", `s := "ab" + string(a) + "cd"; out := len(s); t := s[1:3]; u := s[0]; v := c ? s : "no"; w := "x" + b + c`, true},
	{"bitwise", `out := (a & b) | (a ^ b) &^ 3; s1 := a << 3; s2 := b >> 2; n := -a; m := ^b`, false},
	{"compare-mixed", `x := a < 2.5; y := 2.5 > b; z := float(a) == b; w := 'a' + a; v := 'c' - 'a'`, false},
	{"builtins", `x := [a, b]; x = append(x, 3, 4); y := copy(x); y[0] = 9; out := x[0]; n := len(y); t := type_name(x); i := is_int(a) && !is_string(a); s := string(a) + string(b)`, true},
	{"error-values", `e := error(a); out := is_error(e); v := e.value; e2 := error({code: b}); v2 := e2.value.code`, false},
	{"immutable", `x := immutable([a, b, [1]]); out := x[0]; y := immutable({k: a}); z := y.k; n := len(x)`, false},
	{"func-value", `ap := func(f, x) { return f(x) }; dbl := func(x) { return x * 2 }; out := ap(dbl, a) + ap(func(x) { return x + b }, 1)`, false},
	{"iife", `out := func(x) { return x + b }(a); o2 := func() { return c }()`, false},
	{"undefined-flow", `f := func() { if c { return }; return a }; x := f(); out := x == undefined ? b : x; y := undefined; z := y == undefined`, false},
	{"many-locals", `f := func(p) { a1 := p; a2 := a1 + 1; a3 := a2 + 1; a4 := a3 + 1; a5 := a4 + 1; a6 := a5 + 1; a7 := a6 + 1; a8 := a7 + 1; return a8 + a1 }; out := f(a)`, false},
}

// HostilePrograms fail at run time for some inputs (C05, C14).
var Hostile = []Prog{
	{"div-zero", `out := a / b`, false},
	{"mod-zero", `out := a % b`, false},
	{"ill-typed", `out := a + "x" - 1`, false},
	{"index-oob", `x := [1, 2, 3]; out := x[a]`, false},
	{"not-callable", `f := a; out := f(1)`, false},
	{"wrong-args", `f := func(x) { return x }; out := f(a, b)`, false},
	{"not-indexable", `out := a[0]`, false},
	{"assign-immutable", `x := immutable([1, 2]); x[0] = a`, false},
	{"string-index-assign", `s := "abc"; s[0] = a`, false},
}

// progInputs adds the standard inputs and returns them.
func progInputs(s *tengo.Script, p Prog) (a, b int64, c bool) {
	a, b = vf.Int64("a"), vf.Int64("b")
	c = vf.Bool("c")
	if p.Small {
		vf.Assume(a >= -1)
		vf.Assume(a <= 3)
		vf.Assume(b >= -1)
		vf.Assume(b <= 3)
	}
	_ = s.Add("a", a)
	_ = s.Add("b", b)
	_ = s.Add("c", c)
	return
}
