package h

// C20 — parsing reflects the documented grammar and its own printed form.

import (
	goscanner "go/scanner"
	gotoken "go/token"
	"strconv"

	"github.com/d5/tengo/v2"
	"github.com/d5/tengo/v2/parser"
	"github.com/d5/tengo/v2/token"
	"verif/h/vf"
)

func parseSrc(src []byte) (*parser.File, error) {
	fs := parser.NewFileSet()
	f := fs.AddFile("x", -1, len(src))
	p := parser.NewParser(f, src, nil)
	return p.ParseFile()
}

// docPrec is the precedence table of docs/tutorial.md ("Operator Precedences").
func docPrec(t token.Token) int {
	switch t {
	case token.Mul, token.Quo, token.Rem, token.Shl, token.Shr, token.And, token.AndNot:
		return 5
	case token.Add, token.Sub, token.Or, token.Xor:
		return 4
	case token.Equal, token.NotEqual, token.Less, token.LessEq, token.Greater, token.GreaterEq:
		return 3
	case token.LAnd:
		return 2
	case token.LOr:
		return 1
	}
	return 0
}

// C20_Precedence: `a OP1 b OP2 c` with OP1, OP2 of 1..2 arbitrary bytes each:
// whenever the text parses as two binary operators, the tree groups to the
// left exactly when prec(OP1) >= prec(OP2) (all binary operators associate to
// the left), with the documented table.
func C20_Precedence() {
	n1 := 1 + vf.Choice("n1", 2)
	op1 := vf.Bytes("op1", n1)
	var op2 []byte
	if Tier() > 0 {
		op2 = vf.Bytes("op2", 1+vf.Choice("n2", 2))
	} else {
		// quick tier: the second operator ranges over the 19 documented binary operators
		op2 = []byte(exprBins[vf.Choice("op2", len(exprBins))])
	}
	var src []byte
	src = append(src, "x := a "...)
	src = append(src, op1...)
	src = append(src, " b "...)
	src = append(src, op2...)
	src = append(src, " c"...)
	var file *parser.File
	var err error
	res := vf.Guard(func() { file, err = parseSrc(src) }, 3000000)
	vf.Assert(res == 0, "parser returns: "+vf.LastGuard())
	if err != nil || len(file.Stmts) != 1 {
		vf.Stop()
	}
	as, ok := file.Stmts[0].(*parser.AssignStmt)
	if !ok || len(as.RHS) != 1 {
		vf.Stop()
	}
	top, ok := as.RHS[0].(*parser.BinaryExpr)
	if !ok {
		vf.Stop()
	}
	isIdent := func(e parser.Expr, name string) bool {
		id, ok := e.(*parser.Ident)
		return ok && id.Name == name
	}
	if l, ok := top.LHS.(*parser.BinaryExpr); ok && isIdent(top.RHS, "c") && isIdent(l.LHS, "a") && isIdent(l.RHS, "b") {
		// (a OP1 b) OP2 c
		p1, p2 := docPrec(l.Token), docPrec(top.Token)
		vf.Assert(p1 > 0 && p2 > 0, "binary operators are in the documented table")
		vf.Assert(p1 >= p2, "left grouping only when the first operator binds at least as strongly (left associativity)")
		vf.Reach("left")
		return
	}
	if r, ok := top.RHS.(*parser.BinaryExpr); ok && isIdent(top.LHS, "a") && isIdent(r.LHS, "b") && isIdent(r.RHS, "c") {
		// a OP1 (b OP2 c)
		p1, p2 := docPrec(top.Token), docPrec(r.Token)
		vf.Assert(p1 > 0 && p2 > 0, "binary operators are in the documented table")
		vf.Assert(p1 < p2, "right grouping only when the second operator binds more strongly")
		vf.Reach("right")
		return
	}
	vf.Stop() // a unary operator got involved (e.g. `a - -b`): other harness
}

var unaryTernarySrcs = []struct {
	src  string
	want string // fully parenthesised form expected from the documented rules
}{
	{"x := -a * b", "((-a) * b)"},
	{"x := !a && b", "((!a) && b)"},
	{"x := ^a + b", "((^a) + b)"},
	{"x := a * -b", "(a * (-b))"},
	{"x := a || b ? c : d", "((a || b) ? c : d)"},
	{"x := a ? b : c || d", "(a ? b : (c || d))"},
	{"x := a ? b : c ? d : e", "(a ? b : (c ? d : e))"},
	{"x := a + b ? c * d : e - f", "((a + b) ? (c * d) : (e - f))"},
	{"x := -a[0]", "(-a[0])"},
	{"x := !a.b(c)", "(!a.b(c))"},
	{"x := a - b - c", "((a - b) - c)"},
	{"x := a / b * c % d", "(((a / b) * c) % d)"},
	{"x := a << b + c", "((a << b) + c)"},
	{"x := a == b != c", "((a == b) != c)"},
	{"x := a &^ b | c", "((a &^ b) | c)"},
	{"x := - -a", "(-(-a))"},
	{"x := a - -b - + c", "((a - (-b)) - (+c))"},
	{"x := !-^+a", "(!(-(^(+a))))"},
	{"x := -a ? !b : ^c", "((-a) ? (!b) : (^c))"},
}

// groupOf renders the tree structure of an expression fully parenthesised,
// from the AST nodes themselves (not through the package's printer, so that
// a printer change is not mistaken for a grouping change).
func groupOf(e parser.Expr) string {
	switch x := e.(type) {
	case *parser.BinaryExpr:
		return "(" + groupOf(x.LHS) + " " + x.Token.String() + " " + groupOf(x.RHS) + ")"
	case *parser.UnaryExpr:
		return "(" + x.Token.String() + groupOf(x.Expr) + ")"
	case *parser.CondExpr:
		return "(" + groupOf(x.Cond) + " ? " + groupOf(x.True) + " : " + groupOf(x.False) + ")"
	case *parser.ParenExpr:
		return groupOf(x.Expr)
	case *parser.Ident:
		return x.Name
	case *parser.IndexExpr:
		return groupOf(x.Expr) + "[" + groupOf(x.Index) + "]"
	case *parser.SelectorExpr:
		return groupOf(x.Expr) + "." + groupOf(x.Sel)
	case *parser.StringLit:
		return x.Value
	case *parser.IntLit:
		return x.Literal
	case *parser.CallExpr:
		out := groupOf(x.Func) + "("
		for k, a := range x.Args {
			if k > 0 {
				out += ", "
			}
			out += groupOf(a)
		}
		return out + ")"
	}
	return "?"
}

// C20_UnaryTernary: unary binds tighter than every binary level, the ternary
// loosest (finite list).
func C20_UnaryTernary() {
	c := unaryTernarySrcs[vf.Choice("case", len(unaryTernarySrcs))]
	file, err := parseSrc([]byte(c.src))
	vf.Assert(err == nil && len(file.Stmts) == 1, "parses: "+c.src)
	as := file.Stmts[0].(*parser.AssignStmt)
	got := groupOf(as.RHS[0])
	vf.Assert(got == c.want, "grouping of `"+c.src+"` is "+c.want+", got "+got)
	vf.Reach("unary")
}

// goLiteral scans lit with Go's own scanner: kind and whether it is exactly one literal token.
func goLiteral(lit []byte) (tok gotoken.Token, ok bool) {
	fset := gotoken.NewFileSet()
	f := fset.AddFile("x", -1, len(lit))
	var s goscanner.Scanner
	nerr := 0
	s.Init(f, lit, func(_ gotoken.Position, _ string) { nerr++ }, 0)
	_, t, text := s.Scan()
	if nerr > 0 || len(text) != len(lit) {
		return t, false
	}
	_, t2, _ := s.Scan()
	if nerr > 0 {
		return t, false
	}
	if t2 == gotoken.SEMICOLON {
		_, t2, _ = s.Scan()
	}
	return t, t2 == gotoken.EOF && nerr == 0
}

// C20_Literals: a literal of <= n arbitrary bytes is accepted by tengo as an
// int/float/char/string literal exactly when Go's scanner accepts the same
// text as one literal of that kind, and the values agree with Go's strconv.
func C20_Literals() {
	maxN := 3
	if Tier() > 0 {
		maxN = 4
	}
	n := 1 + vf.Choice("n", maxN)
	lit := vf.Bytes("lit", n)
	// literal-shaped first byte (digits, '.', quote characters): other first
	// bytes are identifiers/operators, not literals
	c0 := lit[0]
	vf.Assume(vf.Or(vf.Or(vf.And(c0 >= '0', c0 <= '9'), c0 == '.'), vf.Or(vf.Or(c0 == '\'', c0 == '"'), c0 == '`')))
	c20CheckLiteral(lit)
	vf.Reach("literals")
}

// literalFrames: a prefix and a suffix around 1..3 arbitrary bytes, so that
// the bytes land inside an escape sequence, a based or exponent number, or a
// multi-byte character of a longer literal.
var literalFrames = [][2]string{
	{"'\\x", "'"}, {"'\\", "'"}, {"'\\u00", "'"}, {"'\\1", "'"}, {"'", "'"},
	{"\"\\x", "\""}, {"\"\\", "\""}, {"\"a", "b\""},
}

// C20_LiteralFrames: the same agreement with Go's literal syntax for 1..2
// (thorough: 3) arbitrary bytes placed inside 8 char and string literal
// frames (hex, octal, unicode and single-character escapes, multi-byte runes).
func C20_LiteralFrames() {
	fr := literalFrames[vf.Choice("frame", len(literalFrames))]
	maxN := 2
	if Tier() > 0 {
		maxN = 3
	}
	n := 1 + vf.Choice("n", maxN)
	mid := vf.Bytes("lit", n)
	lit := append(append([]byte(fr[0]), mid...), fr[1]...)
	c20CheckLiteral(lit)
	vf.Reach("literalframes")
}

func c20CheckLiteral(lit []byte) {
	n := len(lit)
	var file *parser.File
	var err error
	res := vf.Guard(func() { file, err = parseSrc(append([]byte(nil), lit...)) }, 3000000)
	vf.Assert(res == 0, "parser returns on a literal-shaped input: "+vf.LastGuard())
	var tkind string
	var expr parser.Expr
	if err == nil && len(file.Stmts) == 1 {
		if es, ok := file.Stmts[0].(*parser.ExprStmt); ok {
			expr = es.Expr
			// the literal must span the whole input (no surrounding blanks, one token)
			switch e := expr.(type) {
			case *parser.IntLit:
				if len(e.Literal) == n {
					tkind = "INT"
				}
			case *parser.FloatLit:
				if len(e.Literal) == n {
					tkind = "FLOAT"
				}
			case *parser.CharLit:
				if len(e.Literal) == n {
					tkind = "CHAR"
				}
			case *parser.StringLit:
				if len(e.Literal) == n {
					tkind = "STRING"
				}
			}
		}
	}
	gtok, gok := goLiteral(lit)
	gkind := ""
	if gok {
		switch gtok {
		case gotoken.INT:
			gkind = "INT"
		case gotoken.FLOAT:
			gkind = "FLOAT"
		case gotoken.CHAR:
			gkind = "CHAR"
		case gotoken.STRING:
			gkind = "STRING"
		case gotoken.IMAG:
			gkind = "IMAG"
		}
	}
	if gkind == "IMAG" {
		vf.Stop() // Go-only literal kind
	}
	vf.Assert(tkind == gkind, "tengo and Go agree on whether the text is a literal and of which kind (tengo: "+tkind+", Go: "+gkind+")")
	text := string(lit)
	switch e := expr.(type) {
	case *parser.IntLit:
		if tkind == "INT" {
			want, perr := strconv.ParseInt(text, 0, 64)
			if perr == nil {
				vf.Assert(e.Value == want, "int literal denotes the value Go's literal syntax gives it")
			}
		}
	case *parser.FloatLit:
		if tkind == "FLOAT" {
			want, perr := strconv.ParseFloat(text, 64)
			if perr == nil {
				vf.Assert(vf.Or(e.Value == want, vf.And(e.Value != e.Value, want != want)), "float literal denotes the value Go's literal syntax gives it")
			}
		}
	case *parser.CharLit:
		if tkind == "CHAR" {
			want, _, _, uerr := strconv.UnquoteChar(text[1:len(text)-1], '\'')
			if uerr == nil {
				vf.Assert(e.Value == want, "char literal denotes the rune Go's literal syntax gives it")
			}
		}
	case *parser.StringLit:
		if tkind == "STRING" {
			want, uerr := strconv.Unquote(text)
			if uerr == nil {
				vf.Assert(e.Value == want, "string literal denotes the string Go's literal syntax gives it")
			}
		}
	}
	_ = n
}

// ---- print / re-parse

var exprLeaves = []string{"a", "-a", "+b", "1", `"s"`, "f(a, b...)", "a.k[1]", "a[1:2]", "[a, 2.5, 'c', true, undefined]", "{k: a}", "func(x, ...y) { return x }", "immutable([1])", "error(a)", `import("m")`}
var exprBins = []string{"+", "-", "*", "/", "%", "&", "|", "^", "&^", "<<", ">>", "==", "!=", "<", "<=", ">", ">=", "&&", "||"}
var exprUns = []string{"-", "!", "^", "+"}

func genExpr(id string, depth int) string {
	if depth == 0 {
		return exprLeaves[vf.Choice(id+".leaf", len(exprLeaves))]
	}
	switch vf.Choice(id+".form", 5) {
	case 0:
		return exprLeaves[vf.Choice(id+".leaf", len(exprLeaves))]
	case 1:
		return genExpr(id+"l", depth-1) + " " + exprBins[vf.Choice(id+".op", len(exprBins))] + " " + genExpr(id+"r", depth-1)
	case 2:
		return exprUns[vf.Choice(id+".un", len(exprUns))] + " " + genExpr(id+"u", depth-1)
	case 3:
		return genExpr(id+"c", depth-1) + " ? " + genExpr(id+"t", depth-1) + " : " + genExpr(id+"e", depth-1)
	default:
		return "(" + genExpr(id+"p", depth-1) + ")"
	}
}

var stmtForms = []string{
	"x := $E",
	"x := 0; x += $E",
	"if $E { y := 1 } else if b { y := 2 } else { y := 3 }",
	"if z := $E; z { y := 1 }",
	"for i := 0; i < $E; i++ { if i { continue }; break }",
	"for $E { break }",
	"for k, v in $E { w := k }",
	"for v in $E { w := v }",
	"f := func(p, ...q) { return $E }",
	"f := func() { return }; f()",
	"m := {k: 1}; m.k.j[0] = $E; m[\"x\"]++",
	"export $E",
}

func compileStr(src string) (*tengo.Bytecode, error) {
	mods := tengo.NewModuleMap()
	mods.AddSourceModule("m", []byte(`export 1`))
	st := tengo.NewSymbolTable()
	for idx, fn := range tengo.GetAllBuiltinFunctions() {
		st.DefineBuiltin(idx, fn.Name)
	}
	for _, n := range []string{"a", "b", "f"} {
		st.Define(n)
	}
	fs := parser.NewFileSet()
	sf := fs.AddFile("(main)", -1, len(src))
	p := parser.NewParser(sf, []byte(src), nil)
	file, err := p.ParseFile()
	if err != nil {
		return nil, err
	}
	c := tengo.NewCompiler(sf, st, nil, mods, nil)
	if err := c.Compile(file); err != nil {
		return nil, err
	}
	return c.Bytecode(), nil
}

func sameBytecode(x, y *tengo.Bytecode) bool {
	if string(x.MainFunction.Instructions) != string(y.MainFunction.Instructions) || len(x.Constants) != len(y.Constants) {
		return false
	}
	for i := range x.Constants {
		cx, okx := x.Constants[i].(*tengo.CompiledFunction)
		cy, oky := y.Constants[i].(*tengo.CompiledFunction)
		if okx != oky {
			return false
		}
		if okx {
			if string(cx.Instructions) != string(cy.Instructions) || cx.NumLocals != cy.NumLocals || cx.NumParameters != cy.NumParameters || cx.VarArgs != cy.VarArgs {
				return false
			}
			continue
		}
		if !Same(x.Constants[i], y.Constants[i]) {
			return false
		}
	}
	return true
}

// C20_PrintReparse: for every statement form with every expression tree to
// the depth bound, the printed form of the parsed program parses again and
// compiles to the same instructions and constants (finite case split).
func C20_PrintReparse() {
	depth := 1
	if Tier() > 0 {
		depth = 2
	}
	form := stmtForms[vf.Choice("stmt", len(stmtForms))]
	e := "a"
	if contains(form, "$E") {
		e = genExpr("e", depth)
	}
	src := ""
	for i := 0; i < len(form); i++ {
		if form[i] == '$' && i+1 < len(form) && form[i+1] == 'E' {
			src += e
			i++
			continue
		}
		src += string(form[i])
	}
	file, err := parseSrc([]byte(src))
	if err != nil {
		vf.Stop() // the generator produced something outside the grammar (e.g. a map literal in a control clause)
	}
	printed := file.String()
	_, err2 := parseSrc([]byte(printed))
	vf.Assert(err2 == nil, "printed form parses again: `"+printed+"` (from `"+src+"`)")
	b1, e1 := compileStr(src)
	b2, e2 := compileStr(printed)
	vf.Assert((e1 == nil) == (e2 == nil), "original and printed form compile alike: `"+printed+"`")
	if e1 == nil {
		vf.Assert(sameBytecode(b1, b2), "printed form compiles to the same instructions and constants: `"+printed+"` (from `"+src+"`)")
	}
	vf.Reach("reparse")
}

// C20_Semicolons: automatic semicolon insertion after the last token of a
// line follows Go's token rules (plus tengo's keyword literals): a line
// `T \n x` with T of 1..3 arbitrary bytes.
func C20_Semicolons() {
	maxN := 2
	if Tier() > 0 {
		maxN = 3
	}
	n := 1 + vf.Choice("n", maxN)
	t := vf.Bytes("t", n)
	tails := []string{"\nx", " // c\nx", " /* c */\nx", " /* c\n */ x", " /* c */ // d\nx", " /* c */ /* d */\nx", "/**/// d\nx", " /* c */ /* d\n */ x"}
	tail := tails[vf.Choice("tail", len(tails))]
	var src []byte
	src = append(src, t...)
	src = append(src, tail...)
	// tengo
	fs := parser.NewFileSet()
	f := fs.AddFile("x", -1, len(src))
	terrs := 0
	tsemi := false
	tengoToks := 0
	var lastTok token.Token
	res := vf.Guard(func() {
		sc := parser.NewScanner(f, src, func(_ parser.SourceFilePos, _ string) { terrs++ }, 0)
		for k := 0; k < 16; k++ {
			tok, lit, _ := sc.Scan()
			if tok == token.EOF {
				break
			}
			if tok == token.Semicolon && lit == "\n" && !tsemi && tengoToks > 0 && k < 6 {
				tsemi = true
			}
			if tok == token.Ident && lit == "x" {
				break
			}
			if tok != token.Semicolon {
				lastTok = tok
			}
			tengoToks++
		}
	}, 2000000)
	vf.Assert(res == 0, "scanner returns: "+vf.LastGuard())
	// Go
	gfs := gotoken.NewFileSet()
	gf := gfs.AddFile("x", -1, len(src))
	gerrs := 0
	gsemi := false
	var gs goscanner.Scanner
	gs.Init(gf, src, func(_ gotoken.Position, _ string) { gerrs++ }, 0)
	gtoks := 0
	var glast gotoken.Token
	for k := 0; k < 16; k++ {
		_, tok, lit := gs.Scan()
		if tok == gotoken.EOF {
			break
		}
		if tok == gotoken.SEMICOLON && lit == "\n" && gtoks > 0 {
			gsemi = true
			break
		}
		if tok == gotoken.IDENT && lit == "x" {
			break
		}
		glast = tok
		gtoks++
	}
	if terrs > 0 || gerrs > 0 || tengoToks == 0 || gtoks == 0 {
		vf.Stop() // not a token sequence in both languages
	}
	// tokens that exist in only one of the languages are outside the comparison
	shared := func(g gotoken.Token) bool {
		switch g {
		case gotoken.IDENT, gotoken.INT, gotoken.FLOAT, gotoken.CHAR, gotoken.STRING, gotoken.RPAREN, gotoken.RBRACK, gotoken.RBRACE,
			gotoken.INC, gotoken.DEC, gotoken.BREAK, gotoken.CONTINUE, gotoken.RETURN,
			gotoken.ADD, gotoken.SUB, gotoken.MUL, gotoken.QUO, gotoken.REM, gotoken.AND, gotoken.OR, gotoken.XOR, gotoken.SHL, gotoken.SHR, gotoken.AND_NOT,
			gotoken.LAND, gotoken.LOR, gotoken.EQL, gotoken.LSS, gotoken.GTR, gotoken.ASSIGN, gotoken.NOT, gotoken.NEQ, gotoken.LEQ, gotoken.GEQ, gotoken.DEFINE,
			gotoken.LPAREN, gotoken.LBRACK, gotoken.LBRACE, gotoken.COMMA, gotoken.PERIOD, gotoken.COLON, gotoken.ELLIPSIS,
			gotoken.IF, gotoken.ELSE, gotoken.FOR, gotoken.FUNC, gotoken.IMPORT:
			return true
		}
		return false
	}
	if !shared(glast) || gtoks != tengoToks {
		vf.Stop()
	}
	// tengo's own keywords that Go scans as identifiers: the value keywords
	// (true, false, undefined, export) end a statement like an identifier; `in`,
	// `immutable` and `error` are always followed by an operand and do not.
	if glast == gotoken.IDENT && (lastTok == token.In || lastTok == token.Immutable || lastTok == token.Error) {
		vf.Assert(!tsemi, "no semicolon is inserted after the keywords in/immutable/error")
		vf.Stop()
	}
	vf.Assert(tsemi == gsemi, "automatic semicolon insertion after the line's last token follows Go's rule")
	vf.Reach("semicolons")
}
