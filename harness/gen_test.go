package h
import ("testing";"fmt";"os";"github.com/d5/tengo/v2")
func TestGenCount(t *testing.T) {
	ps := GenPrograms()
	fmt.Println("programs", len(ps), "reloc", len(GenRelocatable()))
	bad := 0
	for i, p := range ps {
		s := tengo.NewScript([]byte(p.Src))
		s.Add("a", 1); s.Add("b", 2); s.Add("c", true)
		_, err := s.Compile()
		if err != nil { bad++; if bad < 8 { fmt.Println(i, p.Src, err) } }
	}
	fmt.Println("compile errors", bad)
	if os.Getenv("DUMP") != "" { for _, p := range ps[:40] { fmt.Println(p.Src) } }
}

func TestGenFailCount(t *testing.T) {
	ps := GenFailing()
	fmt.Println("failing programs", len(ps))
	bad := 0
	for _, p := range ps {
		s := tengo.NewScript([]byte(p.Src))
		s.Add("a", 1); s.Add("b", 2); s.Add("c", true)
		_, err := s.Compile()
		if err != nil { bad++; if bad < 5 { fmt.Println(p.Src, err) } }
	}
	fmt.Println("compile errors", bad)
	fmt.Println(ps[len(ps)-1].Src, ps[len(ps)-1].WantLines)
}
