package h

// C06 — configured resource limits are honoured by every program.

import (
	"errors"

	"github.com/d5/tengo/v2"
	"github.com/d5/tengo/v2/parser"
	"verif/h/vf"
)

func rep(ch byte, n int) string {
	b := make([]byte, n)
	for i := range b {
		b[i] = ch
	}
	return string(b)
}

type limOp struct {
	name string
	src  string
	// natural length of the string/bytes result `out` when no limit applies
	// (-1: not computed; only the "never longer than the limit" side is checked)
	natural func(n1, n2 int, k int64) int
	bytes   bool // result is bytes (MaxBytesLen applies)
}

var limOps = []limOp{
	{"string+string", `out := s1 + s2`, func(n1, n2 int, k int64) int { return n1 + n2 }, false},
	{"string+int", `out := s1 + 12345`, func(n1, n2 int, k int64) int { return n1 + 5 }, false},
	{"string+array", `out := s1 + [s2]`, func(n1, n2 int, k int64) int { return n1 + n2 + 4 }, false},
	{"bytes+bytes", `out := bytes(s1) + bytes(s2)`, func(n1, n2 int, k int64) int { return n1 + n2 }, true},
	{"string(bytes)", `b := bytes(s1); out := string(b)`, func(n1, n2 int, k int64) int { return n1 }, false},
	{"string(int)", `out := string(1234567)`, func(n1, n2 int, k int64) int { return 7 }, false},
	{"string(array)", `out := string([s1, s2])`, func(n1, n2 int, k int64) int { return n1 + n2 + 8 }, false},
	{"bytes(n)", `out := bytes(k)`, func(n1, n2 int, k int64) int { return int(k) }, true},
	{"bytes(string)", `out := bytes(s1)`, func(n1, n2 int, k int64) int { return n1 }, true},
	{"slice", `out := s1[0:k]`, nil, false},
	{"format-s", `out := format("%s-%s", s1, s2)`, func(n1, n2 int, k int64) int { return n1 + n2 + 1 }, false},
	{"format-width", `out := format("%6s|", s1)`, nil, false},
	{"format-star", `out := format("%*d", k, 7)`, nil, false},
	{"format-x", `out := format("%x", s1)`, func(n1, n2 int, k int64) int { return 2 * n1 }, false},
	{"format-X-bytes", `out := format("%X", bytes(s1))`, func(n1, n2 int, k int64) int { return 2 * n1 }, false},
	{"format-x-space", `out := format("% x", s1)`, nil, false},
	{"format-x-sharp", `out := format("%#x|%# X", s1, bytes(s2))`, nil, false},
	{"format-x-prec", `out := format("%.1x|%6x|%-6x|", s1, s1, s2)`, nil, false},
	{"format-q", `out := format("%q", s1)`, func(n1, n2 int, k int64) int { return n1 + 2 }, false},
	{"format-v", `out := format("%v|%v", s1, 12)`, nil, false},
	{"format-d-pad", `out := format("%08d", 42)`, func(n1, n2 int, k int64) int { return 8 }, false},
	{"format-left-d", `out := format("%-8d", 1)`, func(n1, n2 int, k int64) int { return 8 }, false},
	{"format-left-s", `out := format("%-7s", s1)`, nil, false},
	{"format-left-v", `out := format("%-6v", s2)`, nil, false},
	{"format-left-star", `out := format("%-*d", k, 7)`, nil, false},
	{"format-left-last", `out := format("%s%-5d", s1, 3)`, nil, false},
	{"format-left-x-q", `out := format("%-8x|%-8q", s1, s2)`, nil, false},
	{"format-float-pad", `out := format("%8.3f|%-9.2e|%+08d|% 6d", 1.5, 2.5, 42, 7)`, nil, false},
	{"format-bool-char-pad", `out := format("%-6t|%6c|%-5U", true, 65, 66)`, nil, false},
	{"format-literal", `out := format("abcdefgh")`, func(n1, n2 int, k int64) int { return 8 }, false},
	{"char-concat", `out := "" + 'x' + s1`, func(n1, n2 int, k int64) int { return n1 + 1 }, false},
	{"in-loop", `out := ""; for i := 0; i < 4; i++ { out += s1 }`, func(n1, n2 int, k int64) int { return 4 * n1 }, false},
	{"in-array", `out := [s1 + s2, s2 + s1][1]`, func(n1, n2 int, k int64) int { return n1 + n2 }, false},
}

func maxLenIn(o tengo.Object, wantBytes bool, depth int) int {
	if depth > 4 {
		return 0
	}
	switch x := o.(type) {
	case *tengo.String:
		if !wantBytes {
			return len(x.Value)
		}
	case *tengo.Bytes:
		if wantBytes {
			return len(x.Value)
		}
	case *tengo.Array:
		m := 0
		for _, e := range x.Value {
			if l := maxLenIn(e, wantBytes, depth+1); l > m {
				m = l
			}
		}
		return m
	case *tengo.Map:
		m := 0
		for _, e := range x.Value {
			if l := maxLenIn(e, wantBytes, depth+1); l > m {
				m = l
			}
		}
		return m
	case *tengo.Error:
		return maxLenIn(x.Value, wantBytes, depth+1)
	}
	return 0
}

// C06_StringLimits: MaxStringLen / MaxBytesLen symbolic in 0..12; operand
// lengths case-split 0..4; every value reachable from the globals after a
// successful run respects the limits, a failing run fails with the limit
// error, and a run whose natural result fits does not fail.
func C06_StringLimits() {
	op := limOps[vf.Choice("op", len(limOps))]
	n1 := vf.Choice("n1", 5)
	n2 := vf.Choice("n2", 5)
	L := vf.Int("L")
	LB := vf.Int("LB")
	vf.Assume(L >= 0)
	vf.Assume(L <= 12)
	vf.Assume(LB >= 0)
	vf.Assume(LB <= 12)
	k := vf.Int64("k")
	vf.Assume(k >= 0)
	vf.Assume(k <= 12)
	oldS, oldB := tengo.MaxStringLen, tengo.MaxBytesLen
	tengo.MaxStringLen, tengo.MaxBytesLen = L, LB
	defer func() { tengo.MaxStringLen, tengo.MaxBytesLen = oldS, oldB }()

	s := tengo.NewScript([]byte(op.src))
	e1 := s.Add("s1", rep('a', n1))
	e2 := s.Add("s2", rep('b', n2))
	_ = s.Add("k", k)
	if e1 != nil || e2 != nil {
		// the host value itself is over the limit: rejected at the boundary
		vf.Assert(n1 > L || n2 > L, "Add only rejects a string that exceeds MaxStringLen")
		vf.Reach("input-rejected")
		return
	}
	vf.Assert(n1 <= L && n2 <= L, "Add rejects a string longer than MaxStringLen")
	c, err := s.Compile()
	if err != nil {
		// literals in the program text over the limit are compile errors
		vf.Assert(contains(err.Error(), "exceeding string size limit"), "compile fails only for an over-long literal: "+op.name)
		vf.Reach("literal-rejected")
		return
	}
	rerr, panicked, _ := RunGuarded(c)
	if panicked {
		vf.Reach("panicked") // e.g. slice bounds: C05's subject
		return
	}
	if rerr != nil {
		isLimit := errors.Is(rerr, tengo.ErrStringLimit) || errors.Is(rerr, tengo.ErrBytesLimit)
		if op.name == "slice" {
			vf.Reach("slice-error")
			return
		}
		vf.Assert(isLimit, "a limited operation fails only with the limit error: "+op.name)
		if op.natural != nil {
			nat := op.natural(n1, n2, k)
			if op.bytes {
				// string(bytes)/bytes(string) chains may also hit the string limit on the way
				vf.Assert(vf.Or(nat > LB, vf.Or(n1+n2 > L, nat > L)), "no spurious bytes-limit failure: "+op.name)
			} else {
				vf.Assert(vf.Or(nat > L, vf.Or(n1 > LB, n1+n2 > LB)), "no spurious string-limit failure: "+op.name)
			}
		}
		vf.Reach("limit-error")
		return
	}
	for _, v := range c.GetAll() {
		o := v.Object()
		vf.Assert(maxLenIn(o, false, 0) <= L, "no string longer than MaxStringLen after "+op.name)
		vf.Assert(maxLenIn(o, true, 0) <= LB, "no bytes longer than MaxBytesLen after "+op.name)
	}
	vf.Reach("ok")
}

// allocation-heavy programs for the budget check
var allocProgs = []Prog{
	{"arith", `x := a + 1; y := x * 2; out := [x, y, x + y]`, false},
	{"strings", `s := "p" + a; t := s + "q"; out := len(t)`, true},
	{"closure", `mk := func(n) { return func() { return n + 1 } }; out := mk(a)() + mk(b)()`, false},
	{"loop", `out := 0; for i := 0; i < a; i++ { out += i }`, true},
	{"maps", `m := {x: a, y: [b]}; m.z = a + b; out := m.z`, false},
	{"builtin", `out := append([a], b, 3); n := len(out); c2 := copy(out)`, false},
	{"iter", `out := 0; for v in [a, b, 3] { out += v }`, false},
	{"immutable-error", `e := error(a); i := immutable([b]); out := i[0]`, false},
	{"slices", `s := "hello"; t := s[1:3]; u := [a, b, 3][0:2]; w := bytes("xyz")[1:]; out := [t, u, w]`, false},
	{"index-selectors", `m := {k: [a, b]}; x := m.k[1]; y := m["k"][0]; s := "héy"[1]; out := [x, y, s]`, false},
	{"unary-logic", `x := -a; y := !a; z := ^b; w := a && b; v := a || b; out := [x, y, z, w, v, a == b, a != b]`, false},
	{"calls", `f := func(x, ...r) { return x + len(r) }; g := func() { return f }; out := g()(a, b, 1) + len([a]) + int("3")`, false},
	{"for-in-kinds", `n := 0; for c in "ab" { n += 1 }; for k, v in {x: a} { n += v }; for x in bytes("ab") { n += x }; out := n`, false},
	{"closure-captures-2", `mk := func(p, q) { return func(x) { return p*x + q } }; f := mk(a, b); out := [f(2), f(3), [a]]`, false},
	{"closure-captures-3", `mk := func(p, q) { r := p + q; return func(x) { return [p, q, r, x] } }; f := mk(a, b); out := f(1) + f(2)`, false},
	{"closure-nested-captures", `mk := func(p, q) { return func(u) { return func(v) { return [p + u, q + v] } } }; out := mk(a, b)(1)(2) + mk(b, a)(3)(4)`, false},
	{"closure-in-loop", `fs := []; for i := 0; i < 2; i++ { j := i + a; k := j + b; fs = append(fs, func() { return [i, j, k] }) }; out := fs[0]() + fs[1]()`, false},
	{"string-build", `out := ""; for i := 0; i < 3; i++ { out += "x" + i }; o2 := out[0:2] + 'c'`, false},
}

func runWithAllocs(p Prog, n int64, a, b int64) (*tengo.Compiled, error, bool) {
	s := tengo.NewScript([]byte(p.Src))
	s.SetMaxAllocs(n)
	_ = s.Add("a", a)
	_ = s.Add("b", b)
	c, err := s.Compile()
	vf.Assert(err == nil, "allocation program compiles: "+p.Name)
	rerr, panicked, _ := RunGuarded(c)
	return c, rerr, panicked
}

// C06_AllocBudget: with a symbolic budget N, a run either succeeds with the
// results of the unlimited run or stops with the allocation-limit error; a
// larger budget never turns success into failure; N < 0 is unlimited and
// N = MaxInt64 does not wrap into a failure.
func C06_AllocBudget() {
	p := allocProgs[vf.Choice("prog", len(allocProgs))]
	a, b := vf.Int64("a"), vf.Int64("b")
	if p.Small {
		vf.Assume(a >= 0)
		vf.Assume(a <= 3)
	}
	N := vf.Int64("N")
	N2 := vf.Int64("N2")
	vf.Assume(N2 >= N)
	cU, eU, pU := runWithAllocs(p, -1, a, b)
	c1, e1, p1 := runWithAllocs(p, N, a, b)
	if pU || p1 {
		vf.Stop()
	}
	vf.Assert(eU == nil, "unlimited run succeeds: "+p.Name)
	if e1 != nil {
		vf.Assert(errors.Is(e1, tengo.ErrObjectAllocLimit), "a budgeted run fails only with the allocation-limit error: "+p.Name)
		vf.Assert(N >= 0, "a negative budget means unlimited: "+p.Name)
		vf.Assert(N < 1000, "a huge budget does not wrap into a failure: "+p.Name)
	} else {
		vf.Assert(sameGlobals(cU, c1), "a run within budget has the results of the unlimited run: "+p.Name)
		if N >= 0 {
			// (a negative budget means "unlimited", which is not a smaller budget)
			c2, e2, p2 := runWithAllocs(p, N2, a, b)
			vf.Assert(!p2 && e2 == nil, "raising the budget never turns success into failure: "+p.Name)
			vf.Assert(sameGlobals(c1, c2), "raising the budget never changes the result: "+p.Name)
		}
	}
	vf.Reach("allocs")
}

// C06_AllocCount: the number of tracked allocations of a successful run is at
// most the budget (read from the VM's counter at the end of the run).
func C06_AllocCount() {
	p := allocProgs[vf.Choice("prog", len(allocProgs))]
	a, b := vf.Int64("a"), vf.Int64("b")
	if p.Small {
		vf.Assume(a >= 0)
		vf.Assume(a <= 3)
	}
	N := vf.Int64("N")
	vf.Assume(N >= 0)
	vf.Assume(N <= 40)
	s := tengo.NewScript([]byte(p.Src))
	_ = s.Add("a", a)
	_ = s.Add("b", b)
	c, err := s.Compile()
	vf.Assert(err == nil, "compiles")
	vm := tengo.NewVM(tengo.VerifBytecode(c), tengo.VerifCompiledGlobals(c), N)
	var rerr error
	res := vf.Guard(func() { rerr = vm.Run() }, 4000000)
	if res != 0 {
		vf.Stop()
	}
	st := tengo.VerifState(vm)
	performed := N + 1 - st.Allocs
	if rerr == nil {
		vf.Assert(performed <= N, "a successful run performed at most N tracked allocations: "+p.Name)
	} else {
		vf.Assert(errors.Is(rerr, tengo.ErrObjectAllocLimit), "fails only with the allocation-limit error")
		vf.Assert(performed == N+1, "the limit error is raised exactly when the budget is used up: "+p.Name)
	}
	vf.Reach("count")
}

// C06_FrameStep: inductive step for call depth: from a state with
// framesIndex = F (boundary values up to MaxFrames) OpCall on a compiled
// function either pushes one frame keeping 1 <= framesIndex <= MaxFrames or
// fails with ErrStackOverflow; the operand stack is a fixed array, so running
// out of it is a recoverable index panic, never growth.
func C06_FrameStep() {
	fs := []int{1, 2, 512, tengo.MaxFrames - 2, tengo.MaxFrames - 1, tengo.MaxFrames}
	F := fs[vf.Choice("F", len(fs))]
	sps := []int{1, 2, 1000, tengo.StackSize - 3, tengo.StackSize - 2, tengo.StackSize - 1, tengo.StackSize}
	sp := sps[vf.Choice("sp", len(sps))]
	nloc := vf.Choice("nlocals", 4)
	callee := &tengo.CompiledFunction{Instructions: tengo.MakeInstruction(parser.OpSuspend), NumLocals: nloc, NumParameters: 0}
	insts := append(tengo.MakeInstruction(parser.OpCall, 0, 0), tengo.MakeInstruction(parser.OpSuspend)...)
	vm := mkVM(insts, nil)
	caller := &tengo.CompiledFunction{Instructions: insts}
	for k := 0; k < F; k++ {
		tengo.VerifSetFrame(vm, k, caller, -1, 0)
	}
	tengo.VerifSetStack(vm, sp-1, callee)
	tengo.VerifSetState(vm, sp, -1, F)
	res := vf.Guard(func() { tengo.VerifRunRaw(vm) }, 200000)
	vf.Assert(res == 0 || res == 1, "OpCall returns or panics recoverably")
	st := tengo.VerifState(vm)
	err := tengo.VerifErr(vm)
	if res == 0 && err == nil {
		vf.Assert(st.FramesIndex == F+1, "a call pushes exactly one frame")
		vf.Assert(st.FramesIndex >= 1 && st.FramesIndex <= tengo.MaxFrames, "frame index stays within 1..MaxFrames")
		// (sp may point past the fixed array after reserving the callee's locals:
		// the next push is then a recoverable index panic, never growth)
	} else if res == 0 {
		vf.Assert(errors.Is(err, tengo.ErrStackOverflow), "running out of frames is the stack-overflow error")
		vf.Assert(F >= tengo.MaxFrames, "stack overflow is reported only at the frame limit")
	}
	vf.Reach("frame")
}
