package h

// C04 — scanner, parser and compiler are total on arbitrary source bytes.

import (
	"github.com/d5/tengo/v2"
	"github.com/d5/tengo/v2/parser"
	"github.com/d5/tengo/v2/token"
	"verif/h/vf"
)

// c04Config applies one of the import/predeclared-variable configurations.
func c04Config(s *tengo.Script) {
	switch vf.Choice("config", 4) {
	case 0:
	case 1:
		s.EnableFileImport(false)
		mods := tengo.NewModuleMap()
		mods.AddSourceModule("m", []byte(`export {v: 1}`))
		mods.AddBuiltinModule("bm", map[string]tengo.Object{"p": &tengo.Int{Value: 1}})
		s.SetImports(mods)
	case 2:
		_ = s.Add("a", 1)
		_ = s.Add("x", "s")
	case 3:
		mods := tengo.NewModuleMap()
		mods.AddSourceModule("a", []byte(`export 1`))
		s.SetImports(mods)
		_ = s.Add("a", []interface{}{1})
	}
}

// checkTotal compiles src through the public entry point and checks that it
// returns, and that every reported position lies inside the input.
func checkTotal(src []byte, what string, cfg bool) {
	s := tengo.NewScript(src)
	if cfg {
		c04Config(s)
	}
	var err error
	res := vf.Guard(func() { _, err = s.Compile() }, 3000000)
	vf.Assert(res == 0, "scan+parse+compile returns a result or an error (no panic, no hang) on "+what+": "+vf.LastGuard())
	if err != nil {
		if el, ok := err.(parser.ErrorList); ok {
			for _, e := range el {
				vf.Assert(e.Pos.Line >= 1, "reported line is at least 1")
				vf.Assert(e.Pos.Offset >= 0 && e.Pos.Offset <= len(src), "reported offset lies inside the input")
			}
		}
		if ce, ok := err.(*tengo.CompilerError); ok {
			p := ce.FileSet.Position(ce.Node.Pos())
			vf.Assert(p.Offset >= 0 && p.Offset <= len(src), "compile error position lies inside the input")
		}
	}
}

// C04_Bytes: every byte string of length n (all 256 values per byte).
func C04_Bytes() {
	maxN := 3
	if Tier() > 0 {
		maxN = 4
	}
	n := 1 + vf.Choice("n", maxN)
	src := vf.Bytes("src", n)
	checkTotal(src, "arbitrary bytes", false)
	vf.Reach("bytes")
}

// openers put the scanner into its literal and comment states, which
// arbitrary bytes of the bounded length alone rarely reach.
var c04Openers = []string{"/*", "//", "\"", "`", "'", "0x", "1e", "1.", "a.", "a /* c */", "\"\\", "'\\", "/* *"}

// C04_Openers: a literal/comment opener followed by 1..2 arbitrary bytes.
func C04_Openers() {
	op := c04Openers[vf.Choice("opener", len(c04Openers))]
	maxN := 2
	if Tier() > 0 {
		maxN = 3
	}
	n := 1 + vf.Choice("n", maxN)
	rest := vf.Bytes("src", n)
	var src []byte
	src = append(src, op...)
	src = append(src, rest...)
	checkTotal(src, "a literal or comment opener followed by arbitrary bytes", false)
	vf.Reach("openers")
}

var c04RepPrefixes = []string{"", "//", "/*", "\"", "`", "'", "a := \"", "x := 1 //", "f(", "[", "{"}
var c04RepCounts = []int{1, 2, 9, 10, 11, 12, 13, 20}
var c04RepSuffixes = []string{"", "\n", "*/ b := 2", "\"\nb := 2"}

// C04_Repeat: an arbitrary unit (1..2 bytes, all 256 values each) repeated up
// to 20 times - directly or one per line - after a literal/comment/bracket
// opener: the parser's and scanner's counters (error-list cap, error-recovery
// progress counters, one error per line) are crossed by repetition, which
// arbitrary buffers of the bounded length cannot do.
func C04_Repeat() {
	pre := c04RepPrefixes[vf.Choice("prefix", len(c04RepPrefixes))]
	k := c04RepCounts[vf.Choice("count", len(c04RepCounts))]
	perLine := vf.Choice("perline", 2) == 1
	suf := c04RepSuffixes[vf.Choice("suffix", len(c04RepSuffixes))]
	n := 1
	if Tier() > 0 {
		n = 1 + vf.Choice("n", 2)
	}
	unit := vf.Bytes("unit", n)
	var src []byte
	src = append(src, pre...)
	for j := 0; j < k; j++ {
		src = append(src, unit...)
		if perLine {
			src = append(src, '\n')
		}
	}
	src = append(src, suf...)
	// the parser entry point on its own (its constructor scans the first token)
	var perr error
	res := vf.Guard(func() {
		fs := parser.NewFileSet()
		f := fs.AddFile("(main)", -1, len(src))
		_, perr = parser.NewParser(f, src, nil).ParseFile()
	}, 6000000)
	vf.Assert(res == 0, "NewParser+ParseFile return a result or an error (no panic, no hang) on a repeated unit: "+vf.LastGuard())
	_ = perr
	checkTotal(src, "a repeated unit", false)
	vf.Reach("repeat")
}

// C04_ModuleBody: the same bytes as the body of an imported source module.
func C04_ModuleBody() {
	maxN := 2
	if Tier() > 0 {
		maxN = 3
	}
	n := 1 + vf.Choice("n", maxN)
	body := vf.Bytes("src", n)
	s := tengo.NewScript([]byte(`x := import("m")`))
	mods := tengo.NewModuleMap()
	mods.AddSourceModule("m", body)
	s.SetImports(mods)
	var err error
	res := vf.Guard(func() { _, err = s.Compile() }, 3000000)
	vf.Assert(res == 0, "compiling a module body of arbitrary bytes returns (no panic, no hang): "+vf.LastGuard())
	_ = err
	vf.Reach("module")
}

var c04Seeds = []string{
	`out := 0; if a < b { out = a + b } else { out = a - b }`,
	`for i := 0; i < 3; i++ { if i == 1 { continue }; out += i }`,
	`f := func(x, ...y) { return x + len(y) }; out := f(1, [2]...)`,
	`m := {a: 1, "b": [1, 2.5, 'c', "s"]}; m.a += 1; out := m.b[1:2]`,
	`x := 1 /* c */ // d`,
	`for k, v in {x: 1} { out = k + v }`,
	`out := a > 0 ? "p" : (a == 0 ? "z" : "n")`,
	`x := immutable([1]); e := error("m"); out := e.value + string(x)`,
	`s := "a\tb" + ` + "`raw`" + `; out := s[0] // c`,
	`out := 0x1F + 0b11 + 0o17 + 1_0 + 1e3 + .5`,
	`import("m"); export {a: 1}`,
}

// C04_SeedHole: a seed program with one byte replaced by, or one byte
// inserted as, an arbitrary byte at a case-split position.
func C04_SeedHole() {
	nSeeds := 5
	if Tier() > 0 {
		nSeeds = len(c04Seeds)
	}
	seed := c04Seeds[vf.Choice("seed", nSeeds)]
	pos := vf.Choice("pos", len(seed))
	insert := vf.Choice("insert", 2) == 1
	b := vf.Byte("hole")
	var src []byte
	src = append(src, seed[:pos]...)
	src = append(src, b)
	if insert {
		src = append(src, seed[pos:]...)
	} else {
		src = append(src, seed[pos+1:]...)
	}
	checkTotal(src, "a near-valid mutation of a program", false)
	vf.Reach("seedhole")
}

// structured substitutions (finite-domain, no wide variable): identifiers
// replaced by builtin names / keywords / fresh names, statements by jumps
var c04Idents = []string{"a", "zz", "len", "append", "undefined", "true", "import", "export", "func", "error", "immutable", "in", "_", "a.b", "a[0]", "1", `"s"`}
var c04Stmts = []string{"break", "continue", "return", "return 1", "x := 1", "export 1", "import(\"m\")", "f()", "for { break }", "if true { break }", "func() { break }()", "a, b := 1, 2", "1 := 2"}
var c04Templates = []string{
	"$X = 5",
	"$X := 5",
	"$X += 1",
	"$X++",
	"$X.k = 1",
	"$X[0] = 1",
	"for $X in [1] {}",
	"for $X, $X in [1] {}",
	"for a, b, $X in [1] {}",
	"f := func($X) { return $X }",
	"f := func(a, ...$X) {}",
	"$X := func() { $X() }",
	"out := {$X: 1}",
	"out := $X($X...)",
	"for { f := func() { $S } }",
	"for i := 0; i < 1; i++ { $S; f := func() { $S } }",
	"f := func() { $S }; $S",
	"f := func() { for { g := func() { $S }; $S } }",
	"if $X := 1; $X { $S }",
	"for x in [1] { $S; h := func() { for { $S } } }",
}

func subst(t, x, s string) string {
	out := ""
	for i := 0; i < len(t); i++ {
		if t[i] == '$' && i+1 < len(t) {
			if t[i+1] == 'X' {
				out += x
				i++
				continue
			}
			if t[i+1] == 'S' {
				out += s
				i++
				continue
			}
		}
		out += string(t[i])
	}
	return out
}

// C04_Templates: templates with an identifier placeholder and a statement
// placeholder, exhaustively substituted, under every configuration.
func C04_Templates() {
	t := c04Templates[vf.Choice("template", len(c04Templates))]
	x, s := "a", "x := 1"
	if contains(t, "$X") {
		x = c04Idents[vf.Choice("ident", len(c04Idents))]
	}
	if contains(t, "$S") {
		s = c04Stmts[vf.Choice("stmt", len(c04Stmts))]
	}
	src := subst(t, x, s)
	checkTotal([]byte(src), "`"+src+"`", true)
	vf.Reach("templates")
}

// C04_ScannerProgress: on arbitrary bytes every Scan call consumes at least
// one byte or reports EOF, so scanning ends within len(src)+1 tokens plus
// inserted semicolons.
func C04_ScannerProgress() {
	maxN := 2
	if Tier() > 0 {
		maxN = 4
	}
	n := 1 + vf.Choice("n", maxN)
	src := vf.Bytes("src", n)
	fs := parser.NewFileSet()
	f := fs.AddFile("x", -1, len(src))
	res := vf.Guard(func() {
		sc := parser.NewScanner(f, src, func(_ parser.SourceFilePos, _ string) {}, parser.ScanComments)
		last := -1
		same := 0
		for k := 0; k < 4*n+8; k++ {
			tok, _, pos := sc.Scan()
			if tok == token.EOF {
				return
			}
			off := int(pos)
			if off == last {
				same++
			} else {
				same = 0
			}
			// an automatically inserted semicolon may share a position once
			vf.Assert(same <= 1, "scanner makes progress on every token")
			last = off
		}
		vf.Fail("scanner did not reach EOF within the token bound")
	}, 2000000)
	vf.Assert(res == 0, "scanning returns (no panic, no hang): "+vf.LastGuard())
	vf.Reach("scanner")
}

var c04SymTemplates = []string{"$X = 5", "$X := 5", "$X += 1", "for $X in [1] {}", "f := func($X) { return $X }", "out := $X(1)", "out := {$X: 1}.$X"}

// C04_SymIdent: templates whose identifier is 1..5 arbitrary bytes: the
// keyword table and symbol-table lookups fork on equality with every keyword
// and builtin name of that length, so names like len/int/copy/range are found
// by the solver rather than listed by hand.
func C04_SymIdent() {
	t := c04SymTemplates[vf.Choice("template", len(c04SymTemplates))]
	maxN := 4
	if Tier() > 0 {
		maxN = 5
	}
	n := 1 + vf.Choice("n", maxN)
	id := vf.String("id", n)
	// identifier-shaped: first byte a letter or _, the rest letters/digits/_ (ASCII)
	for k := 0; k < n; k++ {
		c := id[k]
		letter := vf.Or(vf.Or(vf.And(c >= 'a', c <= 'z'), vf.And(c >= 'A', c <= 'Z')), c == '_')
		if k == 0 {
			vf.Assume(letter)
		} else {
			vf.Assume(vf.Or(letter, vf.And(c >= '0', c <= '9')))
		}
	}
	src := ""
	for i := 0; i < len(t); i++ {
		if t[i] == '$' && i+1 < len(t) && t[i+1] == 'X' {
			src += id
			i++
			continue
		}
		src += string(t[i])
	}
	checkTotal([]byte(src), "a template with an arbitrary identifier", false)
	vf.Reach("symident")
}
