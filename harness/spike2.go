package h

import (
	"github.com/d5/tengo/v2"
	"verif/h/vf"
)

func Spike_Bad() {
	a, b := vf.Int64("a"), vf.Int64("b")
	s := tengo.NewScript([]byte(`out := 0; if a < b { out = a + b } else { out = a - b }`))
	_ = s.Add("a", a)
	_ = s.Add("b", b)
	c, err := s.Compile()
	vf.Assert(err == nil, "compiles")
	err = c.Run()
	vf.Assert(err == nil, "runs")
	out := c.Get("out").Int64()
	want := vf.IteInt64(a <= b, a+b, a-b)
	vf.Assert(out == want, "script result equals Go expression")
}

func Spike_Str() {
	s := vf.String("s", 3)
	scr := tengo.NewScript([]byte(`out := s + "x"; n := len(s); c := s[1]; t := s == "abc"`))
	_ = scr.Add("s", s)
	c, err := scr.Compile()
	vf.Assert(err == nil, "compiles")
	err = c.Run()
	vf.Assert(err == nil, "runs")
	vf.Assert(c.Get("out").String() == s+"x", "concat")
	vf.Assert(c.Get("n").Int() == 3, "len")
	vf.Assert(c.Get("t").Bool() == (s == "abc"), "eq")
	vf.Assert(c.Get("c").Char() == rune(s[1]), "index (ascii only)")
}
