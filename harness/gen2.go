package h

// Generated call families (second part of the generated program family, see
// gen.go): programs built around function values, calls and self recursion.
// They are appended to GenPrograms(), so C01 (reference semantics), C02
// (monitor), C03 (optimizer twin) and C12 (de-duplication, write/read-back)
// all run them; C11 and C16 use the recursion family through GenRec().
//
// (A) signatures x bodies x call forms: two function literals f and g, each
//     one of the 15 well-formed (signature, body) combinations of 5 signatures
//     (no parameter, one, two, variadic, one + variadic) and 5 bodies (one of
//     which fails at run time for a variadic second parameter) that
//     mention only parameters (so bodies of different signatures compile to
//     the same instructions), called with 6 argument forms (0..3 plain
//     arguments, a spread array, a plain argument + a spread array).
// (B) self recursion: f(i, n, acc) with 6 per-activation preludes (closures
//     capturing a parameter / a local / a self-referencing local helper that
//     escape the activation, a write through a captured parameter, a
//     block-local captured in a sibling block), 6 forms of the recursive call
//     (returned, discarded as last statement, inside an expression, assigned
//     then returned, wrapped in an immediately-invoked function literal, as an
//     arm of ?:), f bound as a global or as a local of an enclosing function.
//     Depth is a & 3 (a symbolic): 0..3 activations.

type fnForm struct{ sig, body string }

var callSigs = []string{"()", "(p)", "(p, q)", "(...p)", "(p, ...q)"}

// bodies valid for each signature (index into callSigs)
var callBodies = [][]string{
	{""},
	{"", "return p"},
	{"", "return p", "return q", "return [p, q]", "return p - q"},
	{"", "return p"},
	{"", "return p", "return q", "return [p, q]", "return p - q"},
}

var callArgs = []string{"()", "(a)", "(a, b)", "(a, b, 3)", "(xs...)", "(a, xs...)"}

func fnForms() []fnForm {
	var out []fnForm
	for k, s := range callSigs {
		for _, b := range callBodies[k] {
			out = append(out, fnForm{s, b})
		}
	}
	return out
}

func (f fnForm) lit() string {
	if f.body == "" {
		return "func" + f.sig + " {}"
	}
	return "func" + f.sig + " { " + f.body + " }"
}

// genCallFamily: full = every pair of forms at top level; inside a function
// body only the pairs with the same body text (the ones whose instructions
// coincide).
func genCallFamily() []GenProg {
	var out []GenProg
	forms := fnForms()
	for _, ctx := range []int{GTop, GFunc} {
		for _, f := range forms {
			for _, g := range forms {
				if ctx == GFunc && f.body != g.body {
					continue
				}
				for _, ar := range callArgs {
					body := "f := " + f.lit() + "; g := " + g.lit() + "; r1 := g" + ar + "; r2 := f" + ar
					var src string
					if ctx == GTop {
						src = "xs := [a, b]; " + body + "; out := [r1, r2]"
					} else {
						src = "m := func(xs) { " + body + "; return [r1, r2] }; out := m([a, b])"
					}
					out = append(out, GenProg{Prog: Prog{Name: "gencall-" + gctxNames[ctx] + ": " + body, Src: src}, Ctx: ctx, Body: body})
				}
			}
		}
	}
	return out
}

// ---- (B) self recursion

var recPre = []string{
	"",
	"fns = append(fns, func() { return i })",
	"j := i * 2; fns = append(fns, func() { return j + i })",
	"h := func(k) { return k <= 0 ? i : h(k-1) }; fns = append(fns, func() { return h(1) })",
	"w := func() { acc += 1 }; w()",
	"if i == 0 { e := i + 5; fns = append(fns, func() { return e }) }; if i == 1 { u := func(k) { return k <= 0 ? 7 : u(k-1) }; acc += u(1) }",
}

var recPreNames = []string{"none", "capture-param", "capture-local", "self-helper", "write-param", "sibling-blocks"}

const recCall = "f(i+1, n, acc+i)"
const recCallWrapped = "(func() { return f(i+1, n, acc+i) })()"

// recursive step: the text after the prelude, @ = the recursive call.
var recStep = []string{
	"if i >= n { return acc }; return @",
	"if i >= n { return acc }; @",
	"if i >= n { return acc }; return 1 + @",
	"if i >= n { return acc }; t := @; return t",
	"if i >= n { return acc }; return (func() { return @ })()",
	"return i >= n ? acc : @",
}

var recStepNames = []string{"tail", "discarded", "in-expression", "assigned", "iife-wrapped", "ternary-arm"}

// RecProg is one program of the recursion family.
type RecProg struct {
	Prog
	Pre, Step, Bind int
}

const recTail = "out := [r]; for g in fns { out = append(out, g()) }"

func substAt(s, r string) string {
	out := ""
	for i := 0; i < len(s); i++ {
		if s[i] == '@' {
			out += r
		} else {
			out += string(s[i])
		}
	}
	return out
}

// recFn: the text of `f := func(i, n, acc) { ... }` with the given form of the
// recursive call.
func recFn(pre, step int, call string) string {
	body := recPre[pre]
	if body != "" {
		body += "; "
	}
	body += substAt(recStep[step], call)
	return "f := func(i, n, acc) { " + body + " }"
}

// recSrcD: bind 0: f is a global; bind 1: f is a local of an enclosing
// function; depth is the expression text d.
func recSrcD(pre, step, bind int, call, d string) string {
	fn := recFn(pre, step, call)
	if bind == 0 {
		return "fns := []; " + fn + "; r := f(0, " + d + ", b); " + recTail
	}
	return "fns := []; run := func(d, s) { " + fn + "; return f(0, d, s) }; r := run(" + d + ", b); " + recTail
}

func recSrc(pre, step, bind int) string { return recSrcD(pre, step, bind, recCall, "a & 3") }

// recRef: the equivalent loop. Returns the expected elements of `out` after
// the first, the expected first element r, and whether r is undefined.
func recRef(pre, step int, n, b int64) (r int64, undef bool, rest []int64) {
	acc := b
	for i := int64(0); ; i++ {
		switch pre {
		case 1:
			rest = append(rest, i)
		case 2:
			rest = append(rest, i*2+i)
		case 3:
			rest = append(rest, i)
		case 4:
			acc++
		case 5:
			if i == 0 {
				rest = append(rest, 5)
			}
			if i == 1 {
				acc += 7
			}
		}
		if i >= n {
			break
		}
		acc += i
	}
	switch step {
	case 1:
		return acc, n > 0, rest
	case 2:
		if n > 0 {
			return acc + n, false, rest
		}
	}
	return acc, false, rest
}

func genRecFamily() []RecProg {
	var out []RecProg
	for bind := 0; bind < 2; bind++ {
		for pre := range recPre {
			for step := range recStep {
				name := "genrec-" + []string{"global", "local"}[bind] + "-" + recPreNames[pre] + "-" + recStepNames[step]
				out = append(out, RecProg{Prog: Prog{Name: name, Src: recSrc(pre, step, bind)}, Pre: pre, Step: step, Bind: bind})
			}
		}
	}
	return out
}

var genRecs = genRecFamily()

// GenRec: the recursion family (72 programs).
func GenRec() []RecProg { return genRecs }

func genCallAndRec() []GenProg {
	out := genCallFamily()
	for _, r := range genRecs {
		out = append(out, GenProg{Prog: r.Prog, Ctx: GTop, Body: r.Src})
	}
	return out
}
