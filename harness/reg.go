// Package h holds the verification harnesses: ordinary Go functions that
// drive d5/tengo's API with inputs obtained from package vf.
package h

// Registry maps harness names to functions for native replay.
var Registry = map[string]func(){}

func reg(name string, f func()) { Registry[name] = f }
